import random, collections
from solvor import strongly_connected_components, condense, topological_sort, articulation_points, bridges, kcore_decomposition, louvain
from solvor.utils import UnionFind, FenwickTree
rng=random.Random(5); st=collections.Counter(); ex={}
def note(k,v): st[k]+=1; ex.setdefault(k,v)
def reach(adj,s):
    seen={s}; stk=[s]
    while stk:
        u=stk.pop()
        for v in adj.get(u,[]):
            if v not in seen: seen.add(v); stk.append(v)
    return seen
for it in range(2000):
    N=rng.randint(2,7); k=rng.randint(1,N)
    nodes=rng.sample(range(N),k)
    adj=collections.defaultdict(list)
    for _ in range(rng.randint(0,12)): adj[rng.randrange(N)].append(rng.randrange(N))
    closure=set()
    for x in nodes: closure|=reach(adj,x)
    has_out=closure!=set(nodes)
    R={x:reach(adj,x) for x in closure}
    exp={frozenset(y for y in closure if y in R[x] and x in R[y]) for x in closure}
    r=strongly_connected_components(nodes,lambda x: adj.get(x,[]))
    got={frozenset(c) for c in r.solution}
    tag=' (outside nbrs)' if has_out else ''
    if got!=exp: note('scc != closure SCCs'+tag,(nodes,dict(adj),r.solution))
    r=condense(nodes,lambda x: adj.get(x,[])); cn,cadj=r.solution
    comp_of={x:c for c in cn for x in c}
    expE={(comp_of[u],comp_of[v]) for u in closure for v in adj.get(u,[]) if comp_of[u]!=comp_of[v]}
    gotE={(a,b) for a,bs in cadj.items() for b in bs}
    if set(cn)!=exp or gotE!=expE: note('condense wrong'+tag,(nodes,dict(adj),gotE,expE))
    # asymmetric undirected
    n=rng.randint(2,7); nodes=list(range(n)); rng.shuffle(nodes)
    und=set()
    for _ in range(rng.randint(0,10)):
        u,v=rng.sample(range(n),2); und.add((min(u,v),max(u,v)))
    a=collections.defaultdict(list)
    for u,v in und:
        mode=rng.choice(['both','uv','vu'])
        if mode in('both','uv'): a[u].append(v)
        if mode in('both','vu'): a[v].append(u)
    def ncomp(ns,es):
        par={x:x for x in ns}
        def f(x):
            while par[x]!=x: x=par[x]
            return x
        for u,v in es:
            if u in par and v in par: par[f(u)]=f(v)
        return len({f(x) for x in ns})
    base=ncomp(set(range(n)),und)
    expap={v for v in range(n) if ncomp(set(range(n))-{v},und)>base}
    expbr={e for e in und if ncomp(set(range(n)),und-{e})>base}
    asym=any((v in a[u])!=(u in a[v]) for u,v in und)
    t=' asym' if asym else ' sym'
    st['ap total'+t]+=1
    if articulation_points(nodes,lambda x:a[x]).solution!=expap: note('ap wrong'+t,(nodes,dict(a)))
    if set(bridges(nodes,lambda x:a[x]).solution)!=expbr: note('bridges wrong'+t,(nodes,dict(a)))
    # UF / fenwick
    m=rng.randint(1,10); uf=UnionFind(m); par=list(range(m))
    def f(x):
        while par[x]!=x: x=par[x]
        return x
    for _ in range(rng.randint(0,20)):
        x,y=rng.randrange(m),rng.randrange(m)
        op=rng.choice(['u','c','f','n'])
        if op=='u':
            e=f(x)!=f(y); 
            if uf.union(x,y)!=e: note('uf union ret',())
            par[f(x)]=f(y)
        elif op=='c':
            if uf.connected(x,y)!=(f(x)==f(y)): note('uf connected',())
        elif op=='n':
            if uf.component_count!=len({f(i) for i in range(m)}): note('uf count',())
        else:
            if f(uf.find(x))!=f(x): note('uf find',())
    if sorted(map(sorted,uf.get_components()))!=sorted(sorted(i for i in range(m) if f(i)==r_) for r_ in {f(i) for i in range(m)}): note('uf components',())
    if sorted(uf.component_sizes())!=sorted(collections.Counter(f(i) for i in range(m)).values()): note('uf sizes',())
    vals=[rng.randint(-5,5) for _ in range(m)]; ft=FenwickTree(list(vals)) if rng.random()<0.7 else None
    if ft is None: ft=FenwickTree(m); vals=[0]*m
    for _ in range(rng.randint(0,20)):
        i=rng.randrange(m); j=rng.randrange(m)
        op=rng.choice('upr')
        if op=='u': d=rng.randint(-5,5); ft.update(i,d); vals[i]+=d
        elif op=='p':
            if ft.prefix(i)!=sum(vals[:i+1]): note('fenwick prefix',())
        else:
            l,h=min(i,j),max(i,j)
            if ft.range_sum(l,h)!=sum(vals[l:h+1]): note('fenwick range',())
for k in sorted(st): print(k,st[k])
for k,v in ex.items(): print(k,str(v)[:300])
