import os, json, hashlib
import hypothesis
from hypothesis import given, settings, strategies as st, seed, Phase, HealthCheck
from hypothesis.stateful import RuleBasedStateMachine, rule, invariant, run_state_machine_as_test, precondition
from solvor.utils import UnionFind
SEED=int(os.environ.get('VERIF_SEED','1'))
seen=[]
class UF(RuleBasedStateMachine):
    def __init__(self):
        super().__init__(); self.n=6; self.uf=UnionFind(self.n); self.model=[{i} for i in range(self.n)]; self.hist=[]
    def comp(self,x): return next(c for c in self.model if x in c)
    @rule(x=st.integers(0,5),y=st.integers(0,5))
    def union(self,x,y):
        a,b=self.comp(x),self.comp(y); exp=a is not b
        if exp: self.model.remove(b); a|=b
        assert self.uf.union(x,y)==exp; self.hist.append(('u',x,y))
    @rule(x=st.integers(0,5),y=st.integers(0,5))
    def connected(self,x,y):
        assert self.uf.connected(x,y)==(self.comp(x) is self.comp(y)); self.hist.append(('c',x,y))
    @invariant()
    def count(self): assert self.uf.component_count==len(self.model)
    def teardown(self): seen.append(tuple(self.hist))
s=settings(max_examples=200, stateful_step_count=30, deadline=None, database=None, report_multiple_bugs=False, suppress_health_check=list(HealthCheck))
run_state_machine_as_test(seed(SEED)(UF), settings=s)
print('machines',len(seen),'distinct',len(set(seen)),'digest',hashlib.sha1(json.dumps(seen).encode()).hexdigest()[:12])
