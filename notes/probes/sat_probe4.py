import itertools, time
from solvor.sat import solve_sat
# 13 vars, few constraints -> many models; conflicts needed to trigger restarts: add some 3-clauses
import random
rng=random.Random(5)
for trial in range(6):
    nv=13
    clauses=[[rng.choice([1,-1])*v for v in rng.sample(range(1,nv+1),3)] for _ in range(rng.randint(6,14))]
    true=sum(1 for bits in itertools.product([False,True],repeat=nv) if all(any(bits[abs(l)-1]==(l>0) for l in c) for c in clauses))
    t=time.time()
    r=solve_sat(clauses,solution_limit=10**6,luby_factor=1)
    sols=r.solutions or ([r.solution] if r.solution else [])
    ok=all(all(any(m.get(abs(l))==(l>0) for l in c) for c in clauses) for m in sols)
    print(trial,'true',true,'got',len(sols),'distinct',len({tuple(sorted(m.items())) for m in sols}),'allmodels',ok,r.status.name,round(time.time()-t,1))
