import random, itertools, collections, signal
from solvor.cp import Model
from solvor.types import Status
rng=random.Random(3); st=collections.Counter(); ex={}
def is_circuit(succ):
    n=len(succ)
    if sorted(succ)!=list(range(n)): return False
    cur=0
    for k in range(1,n+1):
        cur=succ[cur]
        if cur==0: return k==n
    return False
# circuit with in-range domains
for it in range(300):
    n=rng.randint(2,5); m=Model()
    vs=[]
    for i in range(n):
        lb=rng.randint(0,1); ub=rng.randint(max(lb,n-2),n-1+rng.choice([0,0,1]))
        vs.append(m.int_var(lb,ub,f'x{i}'))
    m.add(m.circuit(vs))
    alls=[vals for vals in itertools.product(*[range(v.lb,v.ub+1) for v in vs]) if is_circuit(list(vals))]
    r=m.solve(solver='sat',solution_limit=1000)
    got=[tuple(s[f'x{i}'] for i in range(n)) for s in ([r.solution]+list(r.solutions or []) if r.solution else [])]
    got=set(got)
    key=(n, 'extra' if got-set(alls) else '', 'missing' if set(alls)-got else '', 'inrange' if all(v.ub<=n-1 for v in vs) else 'outrange')
    st[key]+=1; ex.setdefault(key,([(v.lb,v.ub) for v in vs],sorted(got-set(alls))[:3],sorted(set(alls)-got)[:3]))
for k,v in sorted(st.items()): print(k,v,ex[k])
# hints
st=collections.Counter()
for it in range(300):
    m=Model(); x=m.int_var(0,4,'x'); y=m.int_var(0,4,'y')
    m.add(x!=y); 
    if rng.random()<0.5: m.add(m.sum_le([x,y],5))
    hint={'x':rng.randint(0,5)} 
    if rng.random()<0.5: m.add(x==2)
    for solver in ('dfs','sat'):
        r=m.solve(hints=hint,solver=solver)
        st[(solver,r.status.name, 'hint conflicts' if (hint['x']!=2 and any(c[0]=='eq_const' for c in m._constraints)) else 'hint ok')]+=1
print(st)
# cumulative with many tasks
st=collections.Counter()
for it in range(60):
    m=Model(); n=rng.randint(4,6); H=rng.randint(2,3)
    ss=[m.int_var(0,H,f's{i}') for i in range(n)]
    d=[rng.randint(1,3) for _ in range(n)]; dem=[1]*n; cap=rng.randint(1,3)
    m.add(m.cumulative(ss,d,dem,cap))
    def ok(vals):
        return all(sum(1 for i in range(n) if vals[i]<=t<vals[i]+d[i])<=cap for t in range(0,H+4))
    alls={vals for vals in itertools.product(range(H+1),repeat=n) if ok(vals)}
    r=m.solve(solver='sat',solution_limit=1)
    if r.status==Status.OPTIMAL:
        v=tuple(r.solution[f's{i}'] for i in range(n)); st['sat model valid' if v in alls else 'sat model INVALID']+=1
    else: st[r.status.name+(' (truly infeasible)' if not alls else ' FALSE')]+=1
print(st)
