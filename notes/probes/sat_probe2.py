import random, itertools, signal, sys, collections
from solvor.sat import solve_sat
from solvor.types import Status
class TO(Exception): pass
def h(*a): raise TO()
signal.signal(signal.SIGALRM, h)
def brute(clauses, nv):
    for bits in itertools.product([False,True], repeat=nv):
        if all(any((bits[abs(l)-1])==(l>0) for l in c) for c in clauses): return True
    return False
rng=random.Random(int(sys.argv[1]))
stats=collections.Counter(); ex={}
for it in range(int(sys.argv[2])):
    nv=rng.randint(3,12); nc=int(nv*rng.uniform(2.5,5.5))
    clauses=[]
    for _ in range(nc):
        k=rng.choice([1,2,2,3,3,3,3,4]) if rng.random()<float(sys.argv[3]) else rng.choice([2,3,3,3])
        vs=rng.sample(range(1,nv+1),min(k,nv))
        clauses.append([v if rng.random()<0.5 else -v for v in vs])
    nvv=max(abs(l) for c in clauses for l in c)
    sat=brute(clauses,nvv)
    signal.alarm(3)
    try:
        r=solve_sat(clauses); signal.alarm(0)
    except TO:
        stats['hang']+=1; ex.setdefault('hang',(clauses,sat)); continue
    stats['total']+=1; stats['sat' if sat else 'unsat']+=1
    if r.status==Status.INFEASIBLE:
        if sat: stats['false_unsat']+=1; ex.setdefault('false_unsat',clauses)
    elif r.status==Status.OPTIMAL:
        m=r.solution
        if not sat: stats['model_for_unsat']+=1
        if not all(any(m.get(abs(l))==(l>0) for l in c) for c in clauses): stats['bad_model']+=1; ex.setdefault('bad_model',(clauses,m))
    else: stats['maxiter']+=1
print(stats)
for k,v in ex.items(): print(k,v)
