import random, sys, collections, itertools, signal
from solvor.cp import Model, IntVar, Expr
from solvor.types import Status
class TO(Exception): pass
def h(*a): raise TO()
signal.signal(signal.SIGALRM, h)
def ev(e, a):
    if isinstance(e, IntVar): return a[e.name]
    if isinstance(e, int): return e
    if isinstance(e, Expr): return ev(e.data, a)
    k=e[0]
    if k=='add': return ev(e[1],a)+ev(e[2],a)
    if k=='sub': return ev(e[1],a)-ev(e[2],a)
    if k=='mul': return ev(e[1],a)*ev(e[2],a)
    if k=='rsub': return e[2]-ev(e[1],a)
    raise ValueError(k)
def holds(c,a):
    k=c[0]
    if k=='all_different': vs=[a[v.name] for v in c[1]]; return len(set(vs))==len(vs)
    if k=='eq_const': return a[c[1].name]==c[2]
    if k=='ne_const': return a[c[1].name]!=c[2]
    if k=='eq_var': return a[c[1].name]==a[c[2].name]
    if k=='ne_var': return a[c[1].name]!=a[c[2].name]
    if k=='ne_expr': return (ev(c[1],a)!=ev(c[2],a)) if c[3] else (ev(c[1],a)==ev(c[2],a))
    if k=='sum_eq': return sum(a[v.name] for v in c[1])==c[2]
    if k=='sum_le': return sum(a[v.name] for v in c[1])<=c[2]
    if k=='sum_ge': return sum(a[v.name] for v in c[1])>=c[2]
    if k=='circuit':
        n=len(c[1]); succ=[a[v.name] for v in c[1]]
        if sorted(succ)!=list(range(n)): return False
        seen=0;cur=0
        for _ in range(n):
            cur=succ[cur]; seen+=1
            if cur==0: break
        return seen==n
    if k=='no_overlap':
        s=[a[v.name] for v in c[1]]; d=c[2]
        return all(s[i]+d[i]<=s[j] or s[j]+d[j]<=s[i] for i in range(len(s)) for j in range(i+1,len(s)))
    if k=='cumulative':
        s=[a[v.name] for v in c[1]]; d=c[2]; dem=c[3]; cap=c[4]
        ts=range(min(s) if s else 0,(max(si+di for si,di in zip(s,d)) if s else 0)+1)
        return all(sum(dem[i] for i in range(len(s)) if s[i]<=t<s[i]+d[i])<=cap for t in ts)
    raise ValueError(k)
def shape(c):
    k=c[0]
    if k!='ne_expr': return k
    def sh(e):
        if isinstance(e,IntVar): return 'v'
        if isinstance(e,int): return 'c'
        return e[0]+'('+sh(e[1])+','+sh(e[2])+')'
    return ('ne:' if c[3] else 'eq:')+sh(c[1])+'|'+sh(c[2])
def rand_expr(rng, vs, depth=0):
    r=rng.random()
    if depth>=2 or r<0.35: return rng.choice(vs)
    if r<0.5: return rand_expr(rng,vs,depth+1)+rng.randint(-3,3)
    if r<0.6: return rng.randint(-3,3)+rand_expr(rng,vs,depth+1)
    if r<0.72: return rand_expr(rng,vs,depth+1)+rand_expr(rng,vs,depth+1)
    if r<0.82: return rand_expr(rng,vs,depth+1)-rand_expr(rng,vs,depth+1)
    if r<0.88: return rand_expr(rng,vs,depth+1)-rng.randint(0,3)
    if r<0.92:
        v=rng.choice(vs); return rng.randint(0,5)-v
    if r<0.96: return rand_expr(rng,vs,depth+1)*rng.randint(-2,3)
    return rng.randint(0,3)*rand_expr(rng,vs,depth+1)
mode=sys.argv[3]
rng=random.Random(int(sys.argv[1])); stats=collections.Counter(); ex={}; byshape=collections.defaultdict(collections.Counter)
for it in range(int(sys.argv[2])):
    m=Model(); nv=rng.randint(1,4)
    vs=[]
    for i in range(nv):
        lb=rng.randint(-2,3); ub=lb+rng.randint(0,4)
        vs.append(m.int_var(lb,ub,'xyzw'[i]))
    cons=[]
    for _ in range(rng.randint(1,3)):
        t=rng.random()
        if mode=='lin':
            try:
                l=rand_expr(rng,vs); r=rng.choice([rand_expr(rng,vs),rng.randint(-3,8)])
                c=(l==r) if rng.random()<0.6 else (l!=r)
            except Exception as e: continue
            if not isinstance(c,tuple): continue
        else:
            k=rng.choice(['all_different','sum_eq','sum_le','sum_ge','circuit','no_overlap','cumulative','eq_var','ne_var','eq_const','ne_const'])
            sub=rng.sample(vs,rng.randint(1,nv))
            if k=='all_different': c=m.all_different(sub)
            elif k in('sum_eq','sum_le','sum_ge'): c=getattr(m,k)([rng.choice(vs) for _ in range(rng.randint(1,5))],rng.randint(-3,10))
            elif k=='circuit': c=m.circuit(vs)
            elif k=='no_overlap': c=m.no_overlap(sub,[rng.randint(0,3) for _ in sub])
            elif k=='cumulative': c=m.cumulative(sub,[rng.randint(0,3) for _ in sub],[rng.randint(0,3) for _ in sub],rng.randint(0,4))
            elif k=='eq_var': c=(rng.choice(vs)==rng.choice(vs))
            elif k=='ne_var': c=(rng.choice(vs)!=rng.choice(vs))
            elif k=='eq_const': c=(rng.choice(vs)==rng.randint(-2,6))
            else: c=(rng.choice(vs)!=rng.randint(-2,6))
            if not isinstance(c,tuple): continue
        cons.append(c); m.add(c)
    if not cons: continue
    names=[v.name for v in vs]
    allsols=[dict(zip(names,vals)) for vals in itertools.product(*[range(v.lb,v.ub+1) for v in vs]) if all(holds(c,dict(zip(names,vals))) for c in cons)]
    for solver in ('dfs','sat','auto'):
        sl=rng.choice([1,1,3,50])
        signal.alarm(2)
        try:
            r=m.solve(solver=solver,solution_limit=sl); signal.alarm(0)
        except TO:
            stats[solver+' hang']+=1; continue
        except Exception as e:
            signal.alarm(0); stats[solver+' exc '+type(e).__name__]+=1; ex.setdefault(solver+' exc '+type(e).__name__,([shape(c) for c in cons],repr(e))); continue
        stats[solver+' total']+=1
        key=None
        if r.status==Status.INFEASIBLE:
            if allsols: key='false INFEASIBLE'
        elif r.status==Status.OPTIMAL:
            sols=[r.solution]+list(r.solutions or [])
            bad=None
            for s in sols:
                if set(s)!=set(names) or not all(v.lb<=s[v.name]<=v.ub for v in vs): bad=('domain',s);break
                for c in cons:
                    if not holds(c,s): bad=(shape(c),s);break
                if bad:break
            if bad: key='bad solution'; byshape[solver][bad[0]]+=1
        else: key='status '+r.status.name
        if key:
            stats[solver+' '+key]+=1
            if key=='false INFEASIBLE':
                for c in cons: byshape[solver+' falseinf'][shape(c)]+=1
            ex.setdefault(solver+' '+key,([shape(c) for c in cons],[(v.name,v.lb,v.ub) for v in vs]))
for k in sorted(stats): print(k,stats[k])
for k,v in ex.items(): print(k,v)
for s,cnt in byshape.items(): print(s,cnt.most_common(40))
