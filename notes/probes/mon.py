import sys, time
from solvor import sat
from solvor.sat import solve_sat
mon=sys.monitoring; TID=3
mon.use_tool_id(TID,"verif-steps")
class Budget(Exception): pass
count=[0]; limit=[10**9]
def on_jump(code, src, dst):
    count[0]+=1
    if count[0]>limit[0]:
        raise Budget()
mon.register_callback(TID, mon.events.JUMP, on_jump)
mon.register_callback(TID, mon.events.BRANCH, on_jump)
def codes_of(mod):
    import types
    out=[]
    def walk(co):
        out.append(co)
        for c in co.co_consts:
            if isinstance(c, types.CodeType): walk(c)
    for v in vars(mod).values():
        if isinstance(v, types.FunctionType) and v.__module__==mod.__name__: walk(v.__code__)
        if isinstance(v,type):
            for f in vars(v).values():
                if isinstance(f, types.FunctionType): walk(f.__code__)
    return out
for co in codes_of(sat): mon.set_local_events(TID, co, mon.events.JUMP|mon.events.BRANCH)
import random
rng=random.Random(1)
cl=[[rng.choice([1,-1])*v for v in rng.sample(range(1,31),3)] for _ in range(125)]
t=time.time(); r=solve_sat(cl); print(r.status, count[0], time.time()-t)
# hang case: luby(2)
count[0]=0; limit[0]=200000
try:
    print(sat.luby(2))
except Budget: print('budget exceeded deterministically at',count[0])
mon.set_events(TID,0)
for co in codes_of(sat): mon.set_local_events(TID, co, 0)
t=time.time(); r=solve_sat(cl); print('no monitoring',time.time()-t)
