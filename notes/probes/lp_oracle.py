from fractions import Fraction as F
from itertools import combinations
def solve_sq(M, rhs):
    n=len(M); A=[list(map(F,M[i]))+[F(rhs[i])] for i in range(n)]
    for c in range(n):
        p=None
        for r in range(c,n):
            if A[r][c]!=0: p=r;break
        if p is None: return None
        A[c],A[p]=A[p],A[c]
        pv=A[c][c]; A[c]=[x/pv for x in A[c]]
        for r in range(n):
            if r!=c and A[r][c]!=0:
                f=A[r][c]; A[r]=[a-f*b for a,b in zip(A[r],A[c])]
    return [A[i][n] for i in range(n)]
def vertices(A,b):
    """all vertices of {Ax<=b, x>=0}"""
    m=len(A); n=len(A[0]) if A else 0
    rows=[(list(A[i]),b[i]) for i in range(m)]+[([-1 if j==k else 0 for j in range(n)],0) for k in range(n)]
    out=[]
    for idx in combinations(range(len(rows)),n):
        x=solve_sq([rows[i][0] for i in idx],[rows[i][1] for i in idx])
        if x is None: continue
        if all(sum(F(a)*xi for a,xi in zip(r,x))<=F(bb) for r,bb in rows):
            out.append(x)
    return out
def lp_exact(c,A,b,minimize=True):
    """returns ('infeasible',None)|('unbounded',None)|('optimal',value)"""
    n=len(c); cc=[F(x) if minimize else -F(x) for x in c]
    V=vertices(A,b)
    if not V: return 'infeasible',None
    # recession cone: d>=0, Ad<=0, sum d =1 ; unbounded iff min c.d <0
    A2=[list(r) for r in A]+[[1]*n,[-1]*n]; b2=[0]*len(A)+[1,-1]
    R=vertices(A2,b2)
    if any(sum(ci*di for ci,di in zip(cc,d))<0 for d in R): return 'unbounded',None
    best=min(sum(ci*xi for ci,xi in zip(cc,x)) for x in V)
    return 'optimal', best if minimize else -best
