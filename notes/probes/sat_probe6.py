import itertools, time, random
from solvor.sat import solve_sat
rng=random.Random(11)
for trial in range(3):
    nv=14
    clauses=[[rng.choice([1,-1])*v for v in rng.sample(range(1,nv+1),3)] for _ in range(rng.randint(10,16))]
    clauses.append([v for v in range(1,nv+1)]); clauses.append([-v for v in range(1,nv+1)])
    true=sum(1 for bits in itertools.product([False,True],repeat=nv) if all(any(bits[abs(l)-1]==(l>0) for l in c) for c in clauses))
    t=time.time()
    r=solve_sat(clauses,solution_limit=10**6,luby_factor=1)
    sols=r.solutions or []
    print(trial,'true',true,'got',len(sols),'distinct',len({tuple(sorted(m.items())) for m in sols}),r.status.name,round(time.time()-t,1),flush=True)
