import random, math, collections
from solvor import nelder_mead, anneal, particle_swarm, differential_evolution, evolve, tabu_search, lns, alns, bayesian_opt
rng=random.Random(1); bad=collections.Counter(); tot=collections.Counter()
for it in range(400):
    n=rng.randint(1,3); c=[rng.uniform(-2,2) for _ in range(n)]
    fv=lambda x: sum((xi-ci)**2-math.cos(5*(xi-ci)) for xi,ci in zip(x,c))
    stop_at=rng.randint(1,15)
    for mn in (True,False):
        calls=[]
        def o(x): v=fv(x); calls.append(v); return v
        r=nelder_mead(o,[rng.uniform(-3,3) for _ in range(n)],minimize=mn,max_iter=50,on_progress=lambda p: p.iteration>=stop_at,progress_interval=1)
        tot['nm']+=1
        best=min(calls) if mn else max(calls)
        if abs(fv(r.solution)-r.objective)>1e-12: bad['nm obj mismatch']+=1
        elif (r.objective>best+1e-12) if mn else (r.objective<best-1e-12): bad['nm stale best']+=1
        calls=[]
        r=particle_swarm(o,[(-3,3)]*n,minimize=mn,n_particles=5,max_iter=50,seed=it,on_progress=lambda p: p.iteration>=stop_at,progress_interval=1)
        best=min(calls) if mn else max(calls); tot['pso']+=1
        if abs(r.objective-best)>1e-12 or abs(fv(r.solution)-r.objective)>1e-12: bad['pso']+=1
        calls=[]
        r=differential_evolution(o,[(-3,3)]*n,minimize=mn,population_size=5,max_iter=50,seed=it,on_progress=lambda p: p.iteration>=stop_at,progress_interval=1)
        best=min(calls) if mn else max(calls); tot['de']+=1
        if abs(r.objective-best)>1e-12 or abs(fv(r.solution)-r.objective)>1e-12: bad['de']+=1
print(tot,bad)
