import itertools, time, random, sys
import solvor.cp_encoder as enc
from solvor.cp import Model
from solvor.types import Result, Status
sys.setrecursionlimit(10000)
def dpll(clauses, assign):
    while True:
        unit=None; new=[]
        for c in clauses:
            sat=False; rem=[]
            for l in c:
                v=assign.get(abs(l))
                if v is None: rem.append(l)
                elif v==(l>0): sat=True;break
            if sat: continue
            if not rem: return None
            if len(rem)==1 and unit is None: unit=rem[0]
            new.append(rem)
        clauses=new
        if unit is None: break
        assign[abs(unit)]=unit>0
    if not clauses: return assign
    l=clauses[0][0]
    for val in (l>0, not (l>0)):
        a=dict(assign); a[abs(l)]=val
        r=dpll(clauses,a)
        if r is not None: return r
    return None
class Captured(Exception): pass
cap={}
def fake(clauses, **kw):
    cap['clauses']=[list(c) for c in clauses]; cap['kw']=kw
    raise Captured
enc.solve_sat=fake
def capture(m):
    e=enc.SATEncoder(m)
    try:
        r=e.solve()
        return None  # decided infeasible by empty clause
    except Captured:
        return cap['clauses']
rng=random.Random(0)
t0=time.time(); n_prog=0; calls=0
for it in range(60):
    m=Model(); vs=[m.int_var(0,rng.randint(2,4),n) for n in 'abcd'[:rng.randint(2,4)]]
    k=rng.choice(['sum','nov','cum','alld'])
    if k=='sum': m.add(m.sum_le([rng.choice(vs) for _ in range(4)],rng.randint(2,8)))
    elif k=='nov': m.add(m.no_overlap(vs,[rng.randint(1,2) for _ in vs]))
    elif k=='cum': m.add(m.cumulative(vs,[rng.randint(1,3) for _ in vs],[1]*len(vs),2))
    else: m.add(m.all_different(vs))
    named=list(vs)
    cl=capture(m)
    n_prog+=1
    if cl is None: continue
    for vals in itertools.product(*[range(v.lb,v.ub+1) for v in named]):
        a={}
        for v,val in zip(named,vals):
            for vv,b in v.bool_vars.items(): a[b]=(vv==val)
        r=dpll(cl,a); calls+=1
print('programs',n_prog,'sat calls',calls,'time',round(time.time()-t0,2))
