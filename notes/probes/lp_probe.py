import random, sys, collections, warnings
from fractions import Fraction as F
from lp_oracle import lp_exact
from solvor import solve_lp, solve_lp_interior
from solvor.types import Status
rng=random.Random(int(sys.argv[1])); stats=collections.Counter(); ex={}
for it in range(int(sys.argv[2])):
    n=rng.randint(1,4); m=rng.randint(1,5)
    A=[[rng.choice([0,0,1,-1,2,-2,3,-3,5]) for _ in range(n)] for _ in range(m)]
    if rng.random()<0.3 and m>1: A[-1]=list(A[0])  # parallel rows
    b=[rng.choice([0,0,1,2,3,5,8,-1,-2,-4]) for _ in range(m)]
    c=[rng.choice([0,1,-1,2,-2,3,-3]) for _ in range(n)]
    mn=rng.random()<0.5
    st,val=lp_exact(c,A,b,mn)
    stats['oracle_'+st]+=1
    try: r=solve_lp(c,A,b,minimize=mn)
    except Exception as e:
        stats['exc '+type(e).__name__]+=1; ex.setdefault('exc',(c,A,b,mn,repr(e))); continue
    exp={'infeasible':Status.INFEASIBLE,'unbounded':Status.UNBOUNDED,'optimal':Status.OPTIMAL}[st]
    if r.status!=exp:
        stats[f'simplex {st}->{r.status.name}']+=1; ex.setdefault(f'simplex {st}->{r.status.name}',(c,A,b,mn))
    elif st=='optimal':
        x=r.solution
        feas=all(xi>=-1e-7 for xi in x) and all(sum(a*xi for a,xi in zip(row,x))<=bb+1e-7 for row,bb in zip(A,b))
        cx=sum(ci*xi for ci,xi in zip(c,x))
        if not feas: stats['simplex infeasible point']+=1; ex.setdefault('simplex infeasible point',(c,A,b,mn,x))
        if abs(cx-r.objective)>1e-7 or abs(r.objective-float(val))>1e-6: stats['simplex wrong obj']+=1; ex.setdefault('simplex wrong obj',(c,A,b,mn,x,r.objective,float(val)))
    try:
        with warnings.catch_warnings():
            warnings.simplefilter('ignore')
            ri=solve_lp_interior(c,A,b,minimize=mn)
    except Exception as e:
        stats['ip exc '+type(e).__name__]+=1; ex.setdefault('ip exc '+type(e).__name__,(c,A,b,mn,repr(e),st)); continue
    stats[f'ip {st}->{ri.status.name}']+=1
    if ri.status==Status.OPTIMAL:
        x=ri.solution
        feas= st=='optimal' and all(xi>=-1e-6 for xi in x) and all(sum(a*xi for a,xi in zip(row,x))<=bb+1e-6 for row,bb in zip(A,b))
        if not feas or abs(ri.objective-float(val))>1e-5*(1+abs(float(val))): stats['IP BAD OPTIMAL']+=1; ex.setdefault('IP BAD OPTIMAL',(c,A,b,mn,x,ri.objective,st,val))
    if ri.status==Status.FEASIBLE:
        x=ri.solution
        import math
        res=math.sqrt(sum(max(0,sum(a*xi for a,xi in zip(row,x))-bb)**2 for row,bb in zip(A,b)))
        if res>0.0101 or any(xi<-1e-9 for xi in x): stats['IP BAD FEASIBLE']+=1; ex.setdefault('IP BAD FEASIBLE',(c,A,b,mn,x,res,st))
for k in sorted(stats): print(k,stats[k])
for k,v in ex.items(): print(k,v)
