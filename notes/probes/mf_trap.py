import random, sys, collections
from solvor import max_flow
from g1_helpers import maxflow_oracle
rng=random.Random(int(sys.argv[1])); bad=tot=0
for it in range(int(sys.argv[2])):
    # nodes: 0=s,1=a,2=b,3=t, detours
    nxt=[4]
    arcs=[(0,1,1),(1,2,1),(2,3,1)]
    def chain(u,v,L):
        cur=u
        for _ in range(L-1):
            w=nxt[0]; nxt[0]+=1; arcs.append((cur,w,1)); cur=w
        arcs.append((cur,v,1))
    chain(0,2,rng.randint(2,3)); chain(1,3,rng.randint(2,3))
    n=nxt[0]
    for _ in range(rng.randint(0,3)):
        u,v=rng.sample(range(n),2); arcs.append((u,v,rng.randint(0,2)))
    rng.shuffle(arcs)
    # random relabel
    perm=list(range(n)); rng.shuffle(perm)
    arcs2=[(perm[u],perm[v],c) for u,v,c in arcs]; s,t=perm[0],perm[3]
    g=collections.defaultdict(list)
    for u,v,c in arcs2: g[u].append((v,c))
    r=max_flow(dict(g),s,t); exp=maxflow_oracle(n,arcs2,s,t); tot+=1
    bad+= r.objective!=exp
print(tot,bad)
