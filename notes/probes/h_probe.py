import random, sys, collections, math
from solvor import anneal, tabu_search, lns, alns, evolve, differential_evolution, particle_swarm, nelder_mead, bayesian_opt, powell, bfgs, lbfgs
from solvor.types import Status
rng=random.Random(int(sys.argv[1])); N=int(sys.argv[2]); stats=collections.Counter(); ex={}
def note(k,v): stats[k]+=1; ex.setdefault(k,v)
class Rec:
    def __init__(s,f): s.f=f; s.calls=[]
    def __call__(s,x):
        v=s.f(x); s.calls.append((tuple(x) if isinstance(x,(list,tuple)) else x, v)); return v
def mkf_int(rng):
    a=rng.randint(-5,5); b=rng.randint(1,4); tab={k:rng.randint(-9,9) for k in range(-30,31)}
    kind=rng.choice(['quad','table','plateau','saw'])
    def f(x):
        if kind=='quad': return (x-a)**2
        if kind=='table': return tab.get(max(-30,min(30,x)),0)
        if kind=='plateau': return (abs(x-a)//b)
        return (x*7)%5 - abs(x-a)//3
    return f
def mkf_vec(rng,n):
    c=[rng.uniform(-2,2) for _ in range(n)]; kind=rng.choice(['sphere','abs','step','rastrigin'])
    def f(x):
        if kind=='sphere': return sum((xi-ci)**2 for xi,ci in zip(x,c))
        if kind=='abs': return sum(abs(xi-ci) for xi,ci in zip(x,c))
        if kind=='step': return float(sum(math.floor(abs(xi-ci)*3) for xi,ci in zip(x,c)))
        return sum((xi-ci)**2-math.cos(5*(xi-ci)) for xi,ci in zip(x,c))
    return f
def check(name,r,rec,mn,ctx,starts=(),bounds=None,evalcount=True):
    vals=[v for _,v in rec.calls]
    sol=r.solution; key=tuple(sol) if isinstance(sol,(list,tuple)) else sol
    fsol=rec.f(sol)
    if abs(fsol-r.objective)>1e-9*max(1,abs(fsol)): note(name+' objective != f(solution)',ctx+(r.objective,fsol)); return
    best=min(vals) if mn else max(vals)
    if (r.objective>best+1e-12) if mn else (r.objective<best-1e-12): note(name+' not best evaluated',ctx+(r.objective,best)); return
    if evalcount and r.evaluations!=len(vals): note(name+' evaluations != calls',ctx+(r.evaluations,len(vals))); return
    if bounds and any(not(lo-1e-12<=xi<=hi+1e-12) for xi,(lo,hi) in zip(sol,bounds)): note(name+' out of bounds',ctx+(sol,)); return
    stats[name+' ok']+=1
for it in range(N):
    mn=rng.random()<0.5; seed=rng.randint(0,10**6)
    f=mkf_int(rng); x0=rng.randint(-10,10)
    def run_pair(name,call):
        rec=Rec(f); r=call(rec,mn,seed); check(name,r,rec,mn,(name,seed,mn))
        rec2=Rec(f); r2=call(rec2,mn,seed)
        if r2.solution!=r.solution or r2.objective!=r.objective or r2.iterations!=r.iterations: note(name+' not reproducible',(seed,))
        # mirror
        g=lambda x: -f(x)
        rec3=Rec(g); r3=call(rec3,not mn,seed)
        if r3.solution!=r.solution or abs(r3.objective+r.objective)>1e-12: note(name+' mirror broken',(seed,mn,r.solution,r3.solution,r.objective,r3.objective))
    nbr_rng_seed=rng.randint(0,999)
    def an(o,mn,seed):
        nr=random.Random(nbr_rng_seed)
        return anneal(x0,o,lambda x:x+nr.choice([-2,-1,1,2]),minimize=mn,temperature=rng_t,max_iter=mi,seed=seed)
    rng_t=rng.choice([0.5,10,1000]); mi=rng.choice([1,20,300])
    run_pair('anneal',an)
    cd=rng.choice([1,3,10])
    run_pair('tabu',lambda o,mn,seed: tabu_search(x0,o,lambda x:[(d,x+d) for d in (-2,-1,1,2)],minimize=mn,cooldown=cd,max_iter=mi,seed=seed))
    acc=rng.choice(['improving','accept_all','simulated_annealing'])
    run_pair('lns',lambda o,mn,seed: lns(x0,o,lambda x,r:x,lambda x,r:x+r.choice([-3,-1,1,3]),minimize=mn,accept=acc,max_iter=mi,seed=seed))
    run_pair('alns',lambda o,mn,seed: alns(x0,o,[lambda x,r:x,lambda x,r:x+1],[lambda x,r:x+r.choice([-3,-1,1,3]),lambda x,r:x-r.randint(0,2)],minimize=mn,accept=acc,max_iter=mi,seed=seed,segment_size=5))
    pop=[rng.randint(-10,10) for _ in range(rng.randint(2,8))]
    es=rng.choice([0,1,2])
    def ev(o,mn,seed):
        mr=random.Random(nbr_rng_seed)
        return evolve(o,pop,lambda a,b:(a+b)//2,lambda x:x+mr.choice([-1,1]),minimize=mn,elite_size=es,max_iter=rng_g,seed=seed,mutation_rate=0.5)
    rng_g=rng.choice([1,5,30])
    run_pair('evolve',ev)
    n=rng.randint(1,3); fv=mkf_vec(rng,n); bounds=[(-3.0,3.0)]*n
    f_saved=f; f=fv
    def run_vec(name,call,b=None,evalcount=True,mirror=True):
        rec=Rec(fv); r=call(rec,mn,seed); check(name,r,rec,mn,(name,seed,mn,n),bounds=b,evalcount=evalcount)
        rec2=Rec(fv); r2=call(rec2,mn,seed)
        if list(r2.solution)!=list(r.solution) or r2.objective!=r.objective: note(name+' not reproducible',(seed,))
        if mirror:
            g=lambda x:-fv(x); rec3=Rec(g); r3=call(rec3,not mn,seed)
            if list(r3.solution)!=list(r.solution) or abs(r3.objective+r.objective)>1e-12: note(name+' mirror broken',(seed,mn))
    run_vec('de',lambda o,mn,seed: differential_evolution(o,bounds,minimize=mn,population_size=rng.choice([4,8]),max_iter=10,seed=seed,strategy='rand/1'),b=bounds)
    run_vec('pso',lambda o,mn,seed: particle_swarm(o,bounds,minimize=mn,n_particles=6,max_iter=10,seed=seed),b=bounds)
    x0v=[rng.uniform(-3,3) for _ in range(n)]
    run_vec('nm',lambda o,mn,seed: nelder_mead(o,x0v,minimize=mn,max_iter=40))
    if it%10==0: run_vec('bayes',lambda o,mn,seed: bayesian_opt(o,bounds,minimize=mn,max_iter=9,n_initial=4,seed=seed,acq_restarts=2),b=bounds)
    # powell / bfgs: objective equals f(solution)
    rec=Rec(fv); r=powell(rec,x0v,minimize=mn,max_iter=5)
    if abs(fv(r.solution)-r.objective)>1e-9: note('powell obj mismatch',(seed,))
    else: stats['powell ok']+=1
    grad=lambda x:[(fv([xj+(1e-6 if j==i else 0) for j,xj in enumerate(x)])-fv(x))/1e-6 for i in range(len(x))]
    for nm_,fn in (('bfgs',bfgs),('lbfgs',lbfgs)):
        try:
            r=fn(grad,x0v,minimize=mn,objective_fn=fv,max_iter=10)
            if abs(fv(r.solution)-r.objective)>1e-9: note(nm_+' obj mismatch',(seed,))
            else: stats[nm_+' ok']+=1
        except (OverflowError,ZeroDivisionError) as e: stats[nm_+' exc']+=1
    f=f_saved
for k in sorted(stats): print(k,stats[k])
for k,v in ex.items(): print(k,str(v)[:400])
