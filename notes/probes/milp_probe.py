import random, sys, collections, itertools, warnings
from fractions import Fraction as F
from lp_oracle import lp_exact
from solvor import solve_milp
from solvor.types import Status
rng=random.Random(int(sys.argv[1])); stats=collections.Counter(); ex={}
def oracle(c,A,b,ints,mn,U):
    n=len(c); best=None
    cont=[j for j in range(n) if j not in ints]
    il=sorted(ints)
    for vals in itertools.product(range(U+1),repeat=len(il)):
        fixed=dict(zip(il,vals))
        if not cont:
            x=[fixed[j] for j in range(n)]
            if all(sum(a*xi for a,xi in zip(r,x))<=bb for r,bb in zip(A,b)):
                v=sum(ci*xi for ci,xi in zip(c,x))
            else: continue
        else:
            A2=[[r[j] for j in cont] for r in A]; b2=[bb-sum(r[j]*fixed[j] for j in il) for r,bb in zip(A,b)]
            st,v=lp_exact([c[j] for j in cont],A2,b2,mn)
            if st=='infeasible': continue
            if st=='unbounded': return 'unbounded',None
            v=v+sum(c[j]*fixed[j] for j in il)
        if best is None or (v<best if mn else v>best): best=v
    return ('infeasible',None) if best is None else ('optimal',best)
for it in range(int(sys.argv[2])):
    n=rng.randint(1,4); m=rng.randint(1,4); U=rng.choice([1,1,2,3,4])
    A=[[rng.choice([0,0,1,-1,2,-2,3,5]) for _ in range(n)] for _ in range(m)]
    b=[rng.choice([0,1,2,3,5,8,-1,-2,7]) for _ in range(m)]
    for j in range(n):
        A.append([1 if k==j else 0 for k in range(n)]); b.append(U)
    c=[rng.choice([0,1,-1,2,-2,3,-3,5,-5]) for _ in range(n)]
    ints=set(j for j in range(n) if rng.random()<0.75)
    mn=rng.random()<0.5
    kw={}
    if rng.random()<0.3: kw['heuristics']=False
    if rng.random()<0.3: kw['lns_iterations']=rng.choice([1,3,10]); kw['seed']=rng.randint(0,99)
    if rng.random()<0.3: kw['solution_limit']=rng.choice([2,3,10])
    if rng.random()<0.3: kw['warm_start']=[rng.randint(0,U) for _ in range(n+rng.choice([0,0,0,1,-1]))]
    st,val=oracle(c,A,b,ints,mn,U)
    stats['oracle_'+st]+=1
    try:
        with warnings.catch_warnings():
            warnings.simplefilter('ignore'); r=solve_milp(c,A,b,sorted(ints),minimize=mn,**kw)
    except Exception as e:
        stats['exc '+type(e).__name__]+=1; ex.setdefault('exc '+type(e).__name__,(c,A,b,ints,mn,kw,repr(e))); continue
    key=None
    def feas(x):
        return len(x)==n and all(xi>=-1e-6 for xi in x) and all(sum(a*xi for a,xi in zip(row,x))<=bb+1e-6 for row,bb in zip(A,b)) and all(abs(x[j]-round(x[j]))<=1e-6 for j in ints)
    if r.status==Status.INFEASIBLE:
        if st!='infeasible': key=f'{st}->INFEASIBLE'
    elif r.status==Status.UNBOUNDED: key='->UNBOUNDED(bounded instance)'
    elif r.status in (Status.OPTIMAL,Status.FEASIBLE):
        xs=[r.solution]+list(r.solutions or [])
        if not all(feas(x) for x in xs): key='infeasible solution returned'
        elif abs(sum(ci*xi for ci,xi in zip(c,r.solution))-r.objective)>1e-6: key='objective != c.x'
        elif r.status==Status.OPTIMAL and abs(r.objective-float(val))>1e-5: key='OPTIMAL not optimal'
        elif st!='optimal': key='solution for infeasible'
    else: key='status '+r.status.name
    if key: stats[key]+=1; ex.setdefault(key,(c,A,b,sorted(ints),mn,kw,r.status.name,r.solution,r.objective,str(val)))
    stats['res_'+r.status.name]+=1
for k in sorted(stats): print(k,stats[k])
for k,v in ex.items(): print(k,v)
