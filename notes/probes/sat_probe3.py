import random, sys, collections, signal
from solvor.sat import solve_sat
from solvor.types import Status
sys.setrecursionlimit(10000)
class TO(Exception): pass
def h(*a): raise TO()
signal.signal(signal.SIGALRM, h)
def dpll(clauses, assign):
    # simple
    while True:
        unit=None; new=[]
        for c in clauses:
            sat=False; rem=[]
            for l in c:
                v=assign.get(abs(l))
                if v is None: rem.append(l)
                elif v==(l>0): sat=True;break
            if sat: continue
            if not rem: return None
            if len(rem)==1: unit=rem[0]
            new.append(rem)
        clauses=new
        if unit is None: break
        assign[abs(unit)]=unit>0
    if not clauses: return assign
    l=clauses[0][0]
    for val in (l>0, not (l>0)):
        a=dict(assign); a[abs(l)]=val
        r=dpll(clauses,a)
        if r is not None: return r
    return None
rng=random.Random(int(sys.argv[1])); stats=collections.Counter(); ex={}
for it in range(int(sys.argv[2])):
    nv=rng.randint(15,40); ratio=rng.uniform(3.6,4.8); nc=int(nv*ratio)
    clauses=[]
    for _ in range(nc):
        k=rng.choice([2,3,3,3,3,3,4])
        vs=rng.sample(range(1,nv+1),k)
        clauses.append([v if rng.random()<0.5 else -v for v in vs])
    for _ in range(rng.choice([0,0,1,2])): clauses.append([rng.choice([1,-1])*rng.randint(1,nv)])
    lf=rng.choice([1,2,3,10,100]); sl=rng.choice([1,1,1,3,20])
    ref=dpll(clauses,{})
    signal.alarm(20)
    try:
        r=solve_sat(clauses,luby_factor=lf,solution_limit=sl); signal.alarm(0)
    except TO:
        stats['hang']+=1; ex.setdefault('hang',(nv,nc,lf,sl)); continue
    stats['total']+=1; stats['sat' if ref else 'unsat']+=1
    if r.status==Status.INFEASIBLE:
        if ref is not None: stats['false_unsat']+=1; ex.setdefault('false_unsat',(clauses,lf,sl))
    elif r.solution is not None:
        ms=[r.solution]+list(r.solutions or [])
        if ref is None: stats['model_for_unsat']+=1
        if any(not all(any(m.get(abs(l))==(l>0) for l in c) for c in clauses) for m in ms): stats['bad_model']+=1; ex.setdefault('bad',(clauses,lf,sl))
        if r.solutions and len({tuple(sorted(m.items())) for m in r.solutions})!=len(r.solutions): stats['dup']+=1
        stats['status_'+r.status.name]+=1
    else: stats['maxiter']+=1
    stats['restarted']+= (r.iterations>0)
print(stats); 
for k,v in ex.items(): print(k,str(v)[:600])
