import itertools, time, random, sys
from solvor.sat import solve_sat
rng=random.Random(int(sys.argv[1]))
for trial in range(25):
    nv=rng.randint(12,14)
    clauses=[[rng.choice([1,-1])*v for v in rng.sample(range(1,nv+1),rng.choice([2,3,3,4]))] for _ in range(rng.randint(6,18))]
    clauses.append([v for v in range(1,nv+1)]); clauses.append([-v for v in range(1,nv+1)])
    lf=rng.choice([1,1,2,5])
    r=solve_sat(clauses,solution_limit=10**6,luby_factor=lf)
    sols=r.solutions or []
    d=len({tuple(sorted(m.items())) for m in sols})
    ok=all(all(any(m.get(abs(l))==(l>0) for l in c) for c in clauses) for m in sols)
    if d!=len(sols) or not ok: print('PROBLEM',trial,nv,lf,len(sols),d,ok,flush=True)
print('done')
