import random, sys, collections
from solvor import max_flow
from g1_helpers import maxflow_oracle
rng=random.Random(int(sys.argv[1])); bad=0; tot=0; first=None
for it in range(int(sys.argv[2])):
    n=rng.randint(4,8); m=rng.randint(n,3*n)
    arcs=[]
    for _ in range(m):
        u,v=rng.sample(range(n),2); arcs.append((u,v,rng.randint(1,3)))
    s,t=rng.sample(range(n),2)
    g=collections.defaultdict(list)
    for u,v,c in arcs: g[u].append((v,c))
    r=max_flow(dict(g),s,t); exp=maxflow_oracle(n,arcs,s,t); tot+=1
    if r.objective!=exp:
        bad+=1
        if first is None or len(arcs)<len(first[0]): first=(arcs,s,t,r.objective,exp)
print(tot,bad,first)
