import random, sys, collections, warnings, math
from lp_oracle import lp_exact
from solvor import solve_lp_interior
from solvor.types import Status
rng=random.Random(int(sys.argv[1])); st=collections.Counter(); ex={}
for it in range(int(sys.argv[2])):
    n=rng.randint(1,4); m=rng.randint(1,4)
    A=[[rng.choice([0,1,1,2,3,-1]) for _ in range(n)] for _ in range(m)]
    b=[rng.choice([1,2,3,5,8,10]) for _ in range(m)]
    for j in range(n): A.append([1 if k==j else 0 for k in range(n)]); b.append(rng.choice([1,2,5,10]))
    c=[rng.choice([1,-1,2,-2,3,-3,0]) for _ in range(n)]; mn=rng.random()<0.5
    kw={}
    if rng.random()<0.5: kw['max_iter']=rng.choice([200,500]) 
    s,val=lp_exact(c,A,b,mn)
    try:
        with warnings.catch_warnings():
            warnings.simplefilter('ignore'); r=solve_lp_interior(c,A,b,minimize=mn,**kw)
    except Exception as e: st['exc '+type(e).__name__]+=1; ex.setdefault('exc',(c,A,b,mn,repr(e))); continue
    st[f'{s}->{r.status.name}']+=1
    x=r.solution
    if r.status==Status.OPTIMAL:
        feas=all(xi>=-1e-6 for xi in x) and all(sum(a*xi for a,xi in zip(row,x))<=bb+1e-5 for row,bb in zip(A,b))
        if s!='optimal' or not feas or abs(r.objective-float(val))>1e-5*(1+abs(float(val))): st['BAD OPTIMAL']+=1; ex.setdefault('BAD OPTIMAL',(c,A,b,mn,x,r.objective,s,str(val)))
    elif r.status==Status.FEASIBLE:
        res=math.sqrt(sum(max(0,sum(a*xi for a,xi in zip(row,x))-bb)**2 for row,bb in zip(A,b)))
        if res>0.01 or any(xi<0 for xi in x): st['BAD FEASIBLE']+=1; ex.setdefault('BAD FEASIBLE',(c,A,b,mn,x,res))
        if s=='optimal': 
            gap=abs(r.objective-float(val)); st['feasible gap>1e-3']+= gap>1e-3
for k in sorted(st): print(k,st[k])
for k,v in ex.items(): print(k,v)
