import os, random, sys, collections
os.environ['SOLVOR_VERIF']='1'
from solvor import sat
from solvor.sat import solve_sat
from solvor.types import Status
sys.setrecursionlimit(100000)
def dpll(clauses, assign):
    while True:
        unit=None; new=[]
        for c in clauses:
            satf=False; rem=[]
            for l in c:
                v=assign.get(abs(l))
                if v is None: rem.append(l)
                elif v==(l>0): satf=True;break
            if satf: continue
            if not rem: return None
            if len(rem)==1 and unit is None: unit=rem[0]
            new.append(rem)
        clauses=new
        if unit is None: break
        assign[abs(unit)]=unit>0
    if not clauses: return assign
    l=clauses[0][0]
    for val in (l>0, not (l>0)):
        a=dict(assign); a[abs(l)]=val
        r=dpll(clauses,a)
        if r is not None: return r
    return None
rng=random.Random(int(sys.argv[1])); st=collections.Counter(); ex={}
import time; t0=time.time()
for it in range(int(sys.argv[2])):
    nv=rng.randint(8,30); nc=int(nv*rng.uniform(3.5,4.8))
    cl=[[rng.choice([1,-1])*v for v in rng.sample(range(1,nv+1),rng.choice([2,3,3,3,4]))] for _ in range(nc)]
    for _ in range(rng.choice([0,0,1,2])): cl.append([rng.choice([1,-1])*rng.randint(1,nv)])
    ass=[rng.choice([1,-1])*rng.randint(1,nv) for _ in range(rng.choice([0,0,1,2]))]
    events=[]
    sat._verif_set_sink(lambda *a: events.append(a))
    r=solve_sat(cl,assumptions=ass or None,solution_limit=rng.choice([1,1,3,20]),luby_factor=rng.choice([1,3,100]))
    sat._verif_set_sink(None)
    blocking=[]
    base=cl+[[a] for a in ass]
    for kind,c,isb in events:
        st['learned']+=1
        if isb: blocking.append(c); st['blocking']+=1; continue
        # F ∧ A ∧ B ∧ ¬C unsat?
        neg={abs(l):(l<0) for l in c}
        if dpll(base+blocking,dict(neg)) is not None:
            st['NOT ENTAILED']+=1; ex.setdefault('NOT ENTAILED',(cl,ass,c))
        # without assumptions
        if dpll(cl+blocking,dict(neg)) is not None: st['not entailed w/o assumptions']+=1
    st['cases']+=1
print(dict(st),'time',round(time.time()-t0,1))
for k,v in ex.items(): print(k,str(v)[:600])
