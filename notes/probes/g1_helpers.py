def maxflow_oracle(n,arcs,s,t):
    if s==t: return None
    sup=[0]*n
    # use mcf_oracle trick: compute max flow by augmenting with zero costs
    g=[[] for _ in range(n)]
    def add(u,v,c):
        g[u].append([v,c,len(g[v])]); g[v].append([u,0,len(g[u])-1])
    for u,v,c in arcs: add(u,v,c)
    flow=0
    while True:
        prev=[None]*n; prev[s]=(s,-1); q=[s]
        for u in q:
            for i,(v,c,r) in enumerate(g[u]):
                if c>0 and prev[v] is None: prev[v]=(u,i); q.append(v)
        if prev[t] is None: break
        f=10**9; v=t
        while v!=s:
            u,i=prev[v]; f=min(f,g[u][i][1]); v=u
        v=t
        while v!=s:
            u,i=prev[v]; g[u][i][1]-=f; g[v][g[u][i][2]][1]+=f; v=u
        flow+=f
    return flow
