import random, sys, collections, signal
from solvor import solve_bp, solve_cg
from solvor.types import Status
sys.path.insert(0,'.')
class TO(Exception): pass
def h(*a): raise TO()
signal.signal(signal.SIGALRM, h)
from functools import lru_cache
def cs_opt(W,sizes,dem):
    n=len(sizes); pats=[]
    def gen(i,cur,rem):
        if i==n:
            if any(cur): pats.append(tuple(cur))
            return
        for k in range(0,min(rem//sizes[i],dem[i])+1):
            cur.append(k); gen(i+1,cur,rem-k*sizes[i]); cur.pop()
    gen(0,[],W)
    @lru_cache(None)
    def f(state):
        if not any(state): return 0
        return min(1+f(tuple(max(0,s-k) for s,k in zip(state,p))) for p in pats if any(k and s for s,k in zip(state,p)))
    return f(tuple(dem))
rng=random.Random(int(sys.argv[1])); st=collections.Counter(); ex={}
for it in range(int(sys.argv[2])):
    W=rng.randint(4,14); n=rng.randint(1,4)
    sizes=[rng.randint(1,W) for _ in range(n)]; dem=[rng.randint(0,5) for _ in range(n)]
    if not any(dem): continue
    o=cs_opt(W,sizes,dem)
    signal.alarm(5)
    try: r=solve_bp(dem,roll_width=W,piece_sizes=sizes); signal.alarm(0)
    except TO: st['hang']+=1; continue
    root = r.iterations==0
    key='ok'
    if r.status in (Status.OPTIMAL,Status.FEASIBLE):
        sol=r.solution
        if any(sum(p[i]*c for p,c in sol.items())<dem[i] for i in range(n)): key='demand missed'
        elif abs(r.objective-sum(sol.values()))>1e-6: key='obj mismatch'
        elif r.status==Status.OPTIMAL and round(r.objective)!=o: key='OPT not minimal'
    else: key='status '+r.status.name
    st[(key,'root' if root else 'branched')]+=1
    if key!='ok': ex.setdefault((key,root),(W,sizes,dem,r.solution,r.objective,o,r.iterations))
for k,v in sorted(st.items(),key=str): print(k,v)
for k,v in ex.items(): print(k,v)
