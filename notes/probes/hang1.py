import signal, sys
from solvor.sat import solve_sat
def h(*a): raise KeyboardInterrupt
signal.signal(signal.SIGALRM,h); signal.alarm(2)
cl=[[3, 1, -4], [-2, -1, 4], [-3, 2, 4, -1], [-3, 4], [-4, -3], [3, -1, -2]]
for lf in (1,2,3,100):
  for sl in (1,2,5):
    signal.alarm(2)
    try:
        r=solve_sat(cl,solution_limit=sl,luby_factor=lf); print(lf,sl,r.status,r.solutions and len(r.solutions))
    except KeyboardInterrupt: print(lf,sl,'HANG')
signal.alarm(2)
try: print(solve_sat(cl,solution_limit=2,luby_factor=1,max_conflicts=50,max_restarts=5))
except KeyboardInterrupt: print('HANG with budgets')
