import random, sys, collections, itertools, math, signal
from fractions import Fraction as F
from solvor import solve_knapsack, solve_bin_pack, solve_cg, solve_bp
from solvor.types import Status
class TO(Exception): pass
def h(*a): raise TO()
signal.signal(signal.SIGALRM, h)
rng=random.Random(int(sys.argv[1])); N=int(sys.argv[2]); stats=collections.Counter(); ex={}
def note(k,v): stats[k]+=1; ex.setdefault(k,v)
def cs_opt(W,sizes,dem):
    # exact min rolls via BFS over remaining-demand states
    from functools import lru_cache
    n=len(sizes)
    pats=[]
    def gen(i,cur,rem):
        if i==n:
            if any(cur): pats.append(tuple(cur))
            return
        for k in range(0,min(rem//sizes[i],dem[i])+1):
            cur.append(k); gen(i+1,cur,rem-k*sizes[i]); cur.pop()
    gen(0,[],W)
    # keep maximal patterns only is fine but simple
    @lru_cache(None)
    def f(state):
        if not any(state): return 0
        best=10**9
        for p in pats:
            ns=tuple(max(0,s-k) for s,k in zip(state,p))
            if ns!=state: best=min(best,1+f(ns))
        return best
    return f(tuple(dem))
for it in range(N):
    # knapsack
    n=rng.randint(1,8)
    integer=rng.random()<0.6
    if integer:
        w=[rng.randint(0,8) for _ in range(n)]; cap=rng.randint(0,15)
    else:
        w=[rng.choice([rng.randint(0,30)/10, rng.randint(0,300)/100, rng.randint(0,8)]) for _ in range(n)]; cap=rng.choice([rng.randint(0,50)/10,rng.randint(0,500)/100])
    v=[rng.choice([rng.randint(0,10),rng.randint(0,100)/10]) for _ in range(n)]
    mn=rng.random()<0.2
    r=solve_knapsack(v,w,cap,minimize=mn); stats['knap']+=1
    sel=r.solution
    if len(set(sel))!=len(sel) or any(not(0<=i<n) for i in sel): note('knap bad indices',(v,w,cap,sel))
    elif sum(F(w[i]) for i in sel)>F(cap)+F(1,10**9): note('knap overweight',(v,w,cap,sel))
    elif abs(sum(v[i] for i in sel)-r.objective)>1e-9: note('knap obj mismatch',(v,w,cap,sel,r.objective))
    elif r.status==Status.OPTIMAL:
        best=None
        for k in range(n+1):
            for sub in itertools.combinations(range(n),k):
                if sum(F(w[i]) for i in sub)<=F(cap):
                    val=sum(F(v[i]) for i in sub); best=val if best is None else (min(best,val) if mn else max(best,val))
        if abs(float(best)-r.objective)>1e-9: note('knap OPTIMAL not optimal '+('int' if integer else 'dec'),(v,w,cap,mn,sel,r.objective,float(best)))
    stats['knap '+r.status.name]+=1
    # bin pack
    n=rng.randint(1,8); 
    if rng.random()<0.5: cap=rng.randint(1,10); sizes=[rng.randint(0,cap) for _ in range(n)]
    else: cap=rng.randint(1,100)/10; sizes=[min(cap,rng.randint(0,int(cap*10))/10) for _ in range(n)]
    alg=rng.choice(['first-fit','best-fit','first-fit-decreasing','best-fit-decreasing'])
    r=solve_bin_pack(sizes,cap,algorithm=alg); stats['binpack']+=1
    a=r.solution; k=int(r.objective)
    loads=collections.defaultdict(F)
    for i,b in enumerate(a): loads[b]+=F(sizes[i])
    tot=sum(F(s) for s in sizes)
    # brute force opt
    def opt():
        best=[n]
        items=sorted(range(n),key=lambda i:-sizes[i])
        def rec(idx,bins):
            if len(bins)>=best[0]: return
            if idx==n: best[0]=len(bins); return
            s=F(sizes[items[idx]])
            seen=set()
            for j in range(len(bins)):
                if bins[j]+s<=F(cap) and bins[j] not in seen:
                    seen.add(bins[j]); bins[j]+=s; rec(idx+1,bins); bins[j]-=s
            bins.append(s); rec(idx+1,bins); bins.pop()
        rec(0,[]); return best[0]
    o=opt()
    if len(a)!=n or sorted(set(a))!=list(range(k)): note('binpack numbering',(sizes,cap,alg,a,k))
    elif any(l>F(cap)*(1+F(1,10**9)) for l in loads.values()): note('binpack overload',(sizes,cap,alg,a,[float(x) for x in loads.values()]))
    elif k<math.ceil(tot/F(cap)): note('binpack below LB',(sizes,cap,alg,a))
    elif r.status==Status.OPTIMAL and k!=o: note('binpack OPTIMAL not minimal',(sizes,cap,alg,a,o))
    elif alg.endswith('decreasing') and 9*k>11*o+6: note('binpack 11/9 bound',(sizes,cap,alg,k,o))
    # cutting stock
    W=rng.randint(4,14); n=rng.randint(1,4)
    sizes=[rng.randint(1,W) for _ in range(n)]; dem=[rng.randint(0,5) for _ in range(n)]
    if not any(dem): continue
    optv=cs_opt(W,sizes,dem)
    for fn,name in ((solve_cg,'cg'),(solve_bp,'bp')):
        signal.alarm(5)
        try:
            r=fn(dem,roll_width=W,piece_sizes=sizes); signal.alarm(0)
        except TO: note(name+' hang',(W,sizes,dem)); continue
        except Exception as e: signal.alarm(0); note(name+' exc '+type(e).__name__,(W,sizes,dem,repr(e))); continue
        stats[name]+=1; stats[name+' '+r.status.name]+=1
        if r.status in (Status.OPTIMAL,Status.FEASIBLE):
            sol=r.solution
            if any(sum(p[i]*sizes[i] for i in range(n))>W or any(x<0 for x in p) for p in sol) or any(c<=0 or c!=int(c) for c in sol.values()): note(name+' bad pattern',(W,sizes,dem,sol))
            elif any(sum(p[i]*c for p,c in sol.items())<dem[i] for i in range(n)): note(name+' demand missed',(W,sizes,dem,sol,r.status.name,r.iterations))
            elif r.objective!=sum(sol.values()): note(name+' objective mismatch',(W,sizes,dem,sol,r.objective))
            elif r.objective<optv: note(name+' below optimum?!',(W,sizes,dem,sol,optv))
            elif r.status==Status.OPTIMAL and r.objective!=optv: note(name+' OPTIMAL not minimal',(W,sizes,dem,sol,r.objective,optv,r.iterations))
        elif r.status==Status.INFEASIBLE: note(name+' INFEASIBLE on feasible',(W,sizes,dem,r.iterations,r.error))
for k in sorted(stats): print(k,stats[k])
for k,v in ex.items(): print(k,str(v)[:500])
