import random, sys, collections, itertools, math
from solvor import solve_exact_cover, dijkstra, astar, bfs, dfs, kruskal, prim, solve_cg, solve_bp
from solvor.types import Status
rng=random.Random(int(sys.argv[1])); N=int(sys.argv[2]); st=collections.Counter(); ex={}
def note(k,v): st[k]+=1; ex.setdefault(k,v)
INF=float('inf')
for it in range(N):
    # DLX with limits and names
    nr=rng.randint(1,9); nc=rng.randint(1,6)
    mat=[[1 if rng.random()<0.4 else 0 for _ in range(nc)] for _ in range(nr)]
    names=rng.choice([None,[f'c{j}' for j in range(nc)]])
    secidx=[j for j in range(nc) if rng.random()<0.3]
    sec=[(names[j] if names else j) for j in secidx]
    prim_=[j for j in range(nc) if j not in secidx]
    rows=[i for i in range(nr) if any(mat[i][j] for j in prim_)]
    allc=set()
    for k in range(len(rows)+1):
        for sub in itertools.combinations(rows,k):
            cnt=[sum(mat[i][j] for i in sub) for j in range(nc)]
            if all(cnt[j]==1 for j in prim_) and all(cnt[j]<=1 for j in secidx): allc.add(frozenset(sub))
    ms=rng.choice([None,1,2,5]); mi=rng.choice([10_000_000,3,10])
    r=solve_exact_cover(mat,columns=names,secondary=sec or None,find_all=True,max_solutions=ms,max_iter=mi); st['dlx']+=1
    if r.status==Status.MAX_ITER:
        if mi>100: note('dlx MAX_ITER with big budget',(mat,))
        sols=r.solution or []
    elif r.status==Status.INFEASIBLE:
        sols=[]
        if allc: note('dlx false INFEASIBLE',(mat,sec,ms,mi))
    else: sols=r.solution
    got=[frozenset(s) for s in sols]
    if len(set(got))!=len(got) or any(g not in allc for g in got): note('dlx invalid/dup with limits',(mat,sec,ms,mi,sols))
    elif r.status==Status.OPTIMAL and set(got)!=allc: note('dlx OPTIMAL but incomplete',(mat,sec,ms,mi,len(got),len(allc)))
    elif r.status==Status.FEASIBLE and not (ms and len(got)>=ms): note('dlx FEASIBLE w/o cutoff',(mat,sec,ms,mi))
    elif r.status in(Status.OPTIMAL,Status.FEASIBLE) and r.objective!=len(got): note('dlx objective',(mat,))
    # dijkstra/astar with limits
    n=rng.randint(2,7); m=rng.randint(1,14)
    edges=[(rng.randrange(n),rng.randrange(n),rng.choice([0,1,1,2,3,5])) for _ in range(m)]
    adj=collections.defaultdict(list)
    for u,v,w in edges: adj[u].append((v,w))
    D=[[INF]*n for _ in range(n)]
    for i in range(n): D[i][i]=0
    for u,v,w in edges: D[u][v]=min(D[u][v],w)
    for k in range(n):
        for i in range(n):
            for j in range(n):
                if D[i][k]+D[k][j]<D[i][j]: D[i][j]=D[i][k]+D[k][j]
    s,t=rng.randrange(n),rng.randrange(n); M=rng.choice([0,1,2,4,8])
    for name,fn in (('dij',lambda **kw: dijkstra(s,t,lambda x:adj[x],**kw)),('astar',lambda **kw: astar(s,t,lambda x:adj[x],lambda x:0,**kw))):
        r=fn(max_cost=M); st[name+' maxcost']+=1
        if D[s][t]<=M:
            if r.status!=Status.OPTIMAL or r.objective!=D[s][t]: note(name+' max_cost lost reachable goal',(edges,s,t,M,r.status.name,r.objective,D[s][t]))
        elif r.solution is not None:
            w=0; ok=r.solution[0]==s and r.solution[-1]==t
            st[name+' maxcost returned path beyond limit']+=1
            if r.objective<D[s][t]: note(name+' maxcost bogus',(edges,s,t,M))
            if r.objective>D[s][t]: st[name+' beyond-limit path not shortest']+=1; ex.setdefault(name+' beyond-limit path not shortest',(edges,s,t,M,r.objective,D[s][t]))
        k=rng.choice([1,2,3])
        r=fn(max_iter=k)
        if r.status==Status.OPTIMAL and r.objective!=D[s][t]: note(name+' max_iter wrong OPTIMAL',(edges,s,t,k))
        if r.status==Status.INFEASIBLE and D[s][t]<INF: note(name+' max_iter false INFEASIBLE',(edges,s,t,k,r.iterations))
    # astar weight>1: FEASIBLE, valid path, cost<=w*opt with consistent h
    hw=rng.choice([1.5,2.0,3.0]); lam=rng.choice([0.5,1.0])
    r=astar(s,t,lambda x:adj[x],lambda x:0 if D[x][t]==INF else lam*D[x][t],weight=hw)
    if D[s][t]<INF:
        if r.status!=Status.FEASIBLE or r.objective<D[s][t] or r.objective>hw*D[s][t]+1e-9: note('astar weighted bound',(edges,s,t,hw,lam,r.status.name,r.objective,D[s][t]))
    elif r.status!=Status.INFEASIBLE: note('astar weighted reach',(edges,s,t))
    # kruskal forest content
    n=rng.randint(1,7); ue=[(rng.randrange(n),rng.randrange(n),rng.choice([-1,0,1,2,3])) for _ in range(rng.randint(0,8))]
    r=kruskal(n,ue,allow_forest=True,backend='python')
    par=list(range(n))
    def f(x):
        while par[x]!=x: x=par[x]
        return x
    ref=0; cnt=0
    for u,v,w in sorted(ue,key=lambda e:e[2]):
        if f(u)!=f(v): par[f(u)]=f(v); ref+=w; cnt+=1
    if r.solution is None or len(r.solution)!=cnt or abs(r.objective-ref)>1e-9 or (r.status==Status.OPTIMAL)!=(cnt==n-1): note('kruskal forest',(n,ue,r.status.name,r.solution,ref))
    # prim w/ neighbours-only nodes and one-directional adjacency?  (symmetric only)
    # cg custom mode
    W=rng.randint(4,12); k=rng.randint(1,3); sizes=[rng.randint(1,W) for _ in range(k)]; dem=[rng.randint(0,4) for _ in range(k)]
    if any(dem):
        pats=[p for p in itertools.product(*[range(0,W//s+1) for s in sizes]) if any(p) and sum(a*b for a,b in zip(p,sizes))<=W]
        init=[tuple((W//sizes[j]) if i==j else 0 for i in range(k)) for j in range(k)]
        def pricing(duals):
            best=None;bv=0
            for p in pats:
                rc=1-sum(d*a for d,a in zip(duals,p))
                if rc<bv-1e-12: bv=rc;best=p
            return best,bv
        from functools import lru_cache
        @lru_cache(None)
        def opt(state):
            if not any(state): return 0
            return min(1+opt(tuple(max(0,s-a) for s,a in zip(state,p))) for p in pats if any(a and s for s,a in zip(state,p)))
        o=opt(tuple(dem))
        for fn,name in ((solve_cg,'cg-custom'),(solve_bp,'bp-custom')):
            try: r=fn(dem,pricing_fn=pricing,initial_columns=init,max_nodes=200) if fn is solve_bp else fn(dem,pricing_fn=pricing,initial_columns=init)
            except Exception as e: note(name+' exc '+type(e).__name__,(W,sizes,dem,repr(e))); continue
            st[name]+=1
            if r.status in (Status.OPTIMAL,Status.FEASIBLE):
                sol=r.solution
                if any(sum(p[i]*c for p,c in sol.items())<dem[i] for i in range(k)): note(name+' demand missed',(W,sizes,dem,sol,r.status.name,r.iterations))
                elif abs(r.objective-sum(sol.values()))>1e-6: note(name+' obj mismatch',(W,sizes,dem,sol,r.objective))
                elif r.status==Status.OPTIMAL and round(r.objective)!=o: note(name+' OPTIMAL not minimal'+(' root' if r.iterations==0 else ' branched'),(W,sizes,dem,sol,o,r.iterations))
for k in sorted(st): print(k,st[k])
for k,v in ex.items(): print(k,str(v)[:400])
