import random, sys, collections, itertools, math
from solvor import (dijkstra, astar, astar_grid, bfs, dfs, bellman_ford, floyd_warshall, kruskal, prim,
    strongly_connected_components, topological_sort, condense, articulation_points, bridges, kcore_decomposition, kcore, pagerank, louvain)
from solvor.types import Status
rng=random.Random(int(sys.argv[1])); N=int(sys.argv[2]); stats=collections.Counter(); ex={}
def note(k,v): stats[k]+=1; ex.setdefault(k,v)
INF=float('inf')
def fw(n,edges):
    d=[[INF]*n for _ in range(n)]
    for i in range(n): d[i][i]=0
    for u,v,w in edges: d[u][v]=min(d[u][v],w)
    for k in range(n):
        for i in range(n):
            for j in range(n):
                if d[i][k]+d[k][j]<d[i][j]: d[i][j]=d[i][k]+d[k][j]
    return d
def reach(n,edges,s):
    adj=collections.defaultdict(list)
    for u,v,*_ in edges: adj[u].append(v)
    seen={s}; st=[s]
    while st:
        u=st.pop()
        for v in adj[u]:
            if v not in seen: seen.add(v); st.append(v)
    return seen
def pathok(path,s,t,edges,dist):
    if not path or path[0]!=s or path[-1]!=t: return False
    best=collections.defaultdict(lambda:None)
    es=collections.defaultdict(list)
    for u,v,w in edges: es[(u,v)].append(w)
    # exists choice of parallel edges summing to dist: use min each? any combination: check min-sum<=dist and reachable exactly -> we require sum of some choice == dist; try min weights
    tot=0
    for a,b in zip(path,path[1:]):
        if (a,b) not in es: return False
        tot+=min(es[(a,b)])
    return abs(tot-dist)<1e-9
for it in range(N):
    n=rng.randint(1,7); m=rng.randint(0,14)
    edges=[(rng.randrange(n),rng.randrange(n),rng.choice([0,1,1,2,3,5,0.5,2.5])) for _ in range(m)]
    s=rng.randrange(n); t=rng.randrange(n)
    D=fw(n,edges)
    adj=collections.defaultdict(list)
    for u,v,w in edges: adj[u].append((v,w))
    # dijkstra
    goal = t if rng.random()<0.5 else (lambda x,t=t: x==t)
    r=dijkstra(s,goal,lambda x: adj[x]); stats['dij']+=1
    if D[s][t]==INF:
        if r.status!=Status.INFEASIBLE: note('dij reach mismatch',(n,edges,s,t))
    elif r.status!=Status.OPTIMAL or abs(r.objective-D[s][t])>1e-9 or not pathok(r.solution,s,t,edges,r.objective): note('dij wrong',(n,edges,s,t,r.solution,r.objective,D[s][t]))
    # astar with consistent heuristic h(x)=D[x][t]*f
    f=rng.choice([0,0.5,1.0])
    hfun=lambda x: 0 if D[x][t]==INF else D[x][t]*f
    r=astar(s,goal,lambda x: adj[x],hfun); stats['astar']+=1
    if D[s][t]==INF:
        if r.status!=Status.INFEASIBLE: note('astar reach mismatch',(n,edges,s,t))
    elif r.status!=Status.OPTIMAL or abs(r.objective-D[s][t])>1e-9 or not pathok(r.solution,s,t,edges,r.objective): note('astar wrong',(n,edges,s,t,f,r.solution,r.objective,D[s][t]))
    # bfs / dfs (unweighted)
    uadj=collections.defaultdict(list)
    for u,v,w in edges: uadj[u].append(v)
    U=fw(n,[(u,v,1) for u,v,w in edges])
    r=bfs(s,goal,lambda x: uadj[x]); stats['bfs']+=1
    if U[s][t]==INF:
        if r.status!=Status.INFEASIBLE: note('bfs reach',(n,edges,s,t))
    elif r.status!=Status.OPTIMAL or r.objective!=U[s][t] or not pathok(r.solution,s,t,[(u,v,1) for u,v,w in edges],r.objective): note('bfs wrong',(n,edges,s,t,r.solution))
    r=dfs(s,goal,lambda x: uadj[x]); stats['dfs']+=1
    if U[s][t]==INF:
        if r.status!=Status.INFEASIBLE: note('dfs reach',(n,edges,s,t))
    elif r.solution is None or r.solution[0]!=s or r.solution[-1]!=t or any((a,b) not in {(u,v) for u,v,w in edges} for a,b in zip(r.solution,r.solution[1:])) or r.objective!=len(r.solution)-1: note('dfs wrong',(n,edges,s,t,r.solution))
    r=bfs(s,None,lambda x: uadj[x])
    if set(r.solution)!=reach(n,edges,s): note('bfs visited wrong',(n,edges,s))
    # bellman ford / floyd (negative weights)
    nedges=[(u,v,rng.choice([-3,-2,-1,0,1,2,3,4,5])) for u,v,w in edges]
    Dn=fw(n,nedges); R=reach(n,nedges,s)
    negcyc_any=any(Dn[i][i]<0 for i in range(n)); negcyc_reach=any(Dn[i][i]<0 for i in R)
    for be in ('python',):
        r=bellman_ford(s,nedges,n,target=t,backend=be); stats['bf']+=1
        if negcyc_reach:
            if r.status!=Status.UNBOUNDED: note('bf missed negcycle',(n,nedges,s,t))
        elif r.status==Status.UNBOUNDED: note('bf false UNBOUNDED',(n,nedges,s,t))
        elif Dn[s][t]==INF:
            if r.status!=Status.INFEASIBLE: note('bf reach',(n,nedges,s,t))
        elif r.status!=Status.OPTIMAL or abs(r.objective-Dn[s][t])>1e-9 or not pathok(r.solution,s,t,nedges,r.objective): note('bf wrong',(n,nedges,s,t,r.solution,r.objective,Dn[s][t]))
        r=bellman_ford(s,nedges,n,backend=be)
        if not negcyc_reach and (r.status!=Status.OPTIMAL or r.solution!={i:Dn[s][i] for i in range(n) if Dn[s][i]<INF}): note('bf all-dist wrong',(n,nedges,s,r.solution))
        directed=rng.random()<0.6
        e2=nedges if directed else nedges+[(v,u,w) for u,v,w in nedges]
        D2=fw(n,e2); nc2=any(D2[i][i]<0 for i in range(n))
        r=floyd_warshall(n,nedges,directed=directed,backend=be); stats['fw']+=1
        if nc2:
            if r.status!=Status.UNBOUNDED: note('fw missed negcycle',(n,nedges,directed))
        elif r.status!=Status.OPTIMAL or r.solution!=D2: note('fw wrong',(n,nedges,directed))
    # grid
    R_=rng.randint(1,5); C_=rng.randint(1,5)
    grid=[[1 if rng.random()<0.3 else 0 for _ in range(C_)] for _ in range(R_)]
    free=[(i,j) for i in range(R_) for j in range(C_) if grid[i][j]==0]
    if len(free)>=1:
        gs=rng.choice(free); gt=rng.choice(free)
        for dirs in (4,8):
            def nb(p):
                for dr in (-1,0,1):
                    for dc in (-1,0,1):
                        if (dr,dc)==(0,0): continue
                        if dirs==4 and dr!=0 and dc!=0: continue
                        q=(p[0]+dr,p[1]+dc)
                        if 0<=q[0]<R_ and 0<=q[1]<C_ and grid[q[0]][q[1]]==0: yield q,(math.sqrt(2) if dr and dc else 1.0)
            ref=dijkstra(gs,gt,nb)  # reference via dijkstra (itself checked above)
            hname=rng.choice(['auto','manhattan','octile','euclidean','chebyshev'])
            admissible = not (dirs==8 and hname=='manhattan')
            r=astar_grid(grid,gs,gt,directions=dirs,heuristic=hname); stats['grid']+=1
            if ref.status==Status.INFEASIBLE:
                if r.status!=Status.INFEASIBLE: note('grid reach',(grid,gs,gt,dirs))
            elif r.status!=Status.OPTIMAL: note('grid status',(grid,gs,gt,dirs,r.status.name))
            elif admissible and abs(r.objective-ref.objective)>1e-9: note('grid not shortest',(grid,gs,gt,dirs,hname,r.objective,ref.objective))
    # MST
    n=rng.randint(1,7); m=rng.randint(0,12)
    ue=[(rng.randrange(n),rng.randrange(n),rng.choice([-2,-1,0,1,1,2,3,5,2.5])) for _ in range(m)]
    def mst_ref(n,ue):
        # brute force over subsets of size n-1
        best=None
        for sub in itertools.combinations(range(len(ue)),n-1):
            par=list(range(n))
            def f(x):
                while par[x]!=x: x=par[x]
                return x
            ok=True
            for i in sub:
                a,b=f(ue[i][0]),f(ue[i][1])
                if a==b: ok=False;break
                par[a]=b
            if ok:
                w=sum(ue[i][2] for i in sub); best=w if best is None else min(best,w)
        return best
    ref=mst_ref(n,ue) if n>1 else 0
    r=kruskal(n,ue,backend='python'); stats['kruskal']+=1
    def tree_ok(sol,n,ue,nodes=None):
        if len(sol)!=n-1: return False
        pool=collections.Counter((min(u,v),max(u,v),w) for u,v,w in ue)
        par={}
        def f(x):
            par.setdefault(x,x)
            while par[x]!=x: x=par[x]
            return x
        for u,v,w in sol:
            k=(min(u,v),max(u,v),w)
            if pool[k]<=0: return False
            pool[k]-=1
            a,b=f(u),f(v)
            if a==b: return False
            par[a]=b
        return True
    if ref is None:
        if r.status!=Status.INFEASIBLE: note('kruskal disconnected not INFEASIBLE',(n,ue))
        rf=kruskal(n,ue,allow_forest=True,backend='python')
        if rf.status!=Status.FEASIBLE: note('kruskal forest status',(n,ue,rf.status.name))
    elif r.status!=Status.OPTIMAL or abs(r.objective-ref)>1e-9 or not tree_ok(r.solution,n,ue) or abs(sum(w for u,v,w in r.solution)-r.objective)>1e-9: note('kruskal wrong',(n,ue,r.solution,r.objective,ref))
    g=collections.defaultdict(list)
    for u,v,w in ue: g[u].append((v,w)); g[v].append((u,w))
    for x in range(n): g[x]
    start=rng.randrange(n)
    r=prim(dict(g),start=start); stats['prim']+=1
    if ref is None:
        if r.status!=Status.INFEASIBLE: note('prim disconnected',(n,ue))
    elif r.status!=Status.OPTIMAL or abs(r.objective-ref)>1e-9 or not tree_ok(r.solution,n,ue): note('prim wrong',(n,ue,start,r.solution,r.objective,ref))
    # SCC / topo / condense
    n=rng.randint(1,7); m=rng.randint(0,12)
    de=[(rng.randrange(n),rng.randrange(n)) for _ in range(m)]
    nodes=list(range(n)); rng.shuffle(nodes)
    dadj=collections.defaultdict(list)
    for u,v in de: dadj[u].append(v)
    Rm=[reach(n,de,i) for i in range(n)]
    r=strongly_connected_components(nodes,lambda x: dadj[x]); stats['scc']+=1
    comps=r.solution; flat=[x for c in comps for x in c]
    exp={frozenset(j for j in range(n) if j in Rm[i] and i in Rm[j]) for i in range(n)}
    pos={x:i for i,c in enumerate(comps) for x in c}
    if sorted(flat)!=list(range(n)) or {frozenset(c) for c in comps}!=exp: note('scc partition wrong',(nodes,de,comps))
    elif any(pos[u]<pos[v] for u,v in de): note('scc order not sinks-first',(nodes,de,comps))
    r=topological_sort(nodes,lambda x: dadj[x]); stats['topo']+=1
    acyc=all(len(c)==1 for c in exp) and all(u!=v for u,v in de)
    if acyc:
        if r.status!=Status.OPTIMAL or sorted(r.solution)!=list(range(n)) or any(r.solution.index(u)>=r.solution.index(v) for u,v in de): note('topo wrong',(nodes,de,r.solution))
    elif r.status!=Status.INFEASIBLE: note('topo cyclic not INFEASIBLE',(nodes,de,r.solution))
    r=condense(nodes,lambda x: dadj[x]); stats['condense']+=1
    cn,cadj=r.solution
    comp_of={x:c for c in cn for x in c}
    expedges={(comp_of[u],comp_of[v]) for u,v in de if comp_of[u]!=comp_of[v]}
    gotedges={(a,b) for a,bs in cadj.items() for b in bs}
    if set(cn)!=exp or gotedges!=expedges or any(len(bs)!=len(set(bs)) for bs in cadj.values()): note('condense wrong',(nodes,de))
    # articulation / bridges / kcore on symmetric graphs
    n=rng.randint(1,8); m=rng.randint(0,12)
    ue=set()
    for _ in range(m):
        u,v=rng.randrange(n),rng.randrange(n)
        ue.add((min(u,v),max(u,v)))
    selfloops={e for e in ue if e[0]==e[1]}
    simple=ue-selfloops
    nadj=collections.defaultdict(list)
    for u,v in ue:
        nadj[u].append(v)
        if u!=v: nadj[v].append(u)
        if rng.random()<0.2: nadj[u].append(v)  # duplicates
    for k in nadj: rng.shuffle(nadj[k])
    nodes=list(range(n)); rng.shuffle(nodes)
    def ncomp(ns,es):
        par={x:x for x in ns}
        def f(x):
            while par[x]!=x: x=par[x]
            return x
        for u,v in es:
            if u in par and v in par: par[f(u)]=f(v)
        return len({f(x) for x in ns})
    base=ncomp(set(range(n)),simple)
    exp_ap={v for v in range(n) if ncomp(set(range(n))-{v},simple)>base-0 and ncomp(set(range(n))-{v},simple)>base - (1 if not any(v in e for e in simple) else 0) }
    # careful: removing isolated vertex reduces comps by 1; cut vertex iff comps(G-v) > comps(G) (with v's own comp counted) => comps(G-v) >= comps(G)+1 when v non isolated
    exp_ap={v for v in range(n) if ncomp(set(range(n))-{v},simple)>base}
    r=articulation_points(nodes,lambda x: nadj[x]); stats['ap']+=1
    if r.solution!=exp_ap: note('ap wrong',(nodes,dict(nadj),r.solution,exp_ap))
    exp_br={e for e in simple if ncomp(set(range(n)),simple-{e})>base}
    r=bridges(nodes,lambda x: nadj[x]); stats['bridges']+=1
    if len(r.solution)!=len(set(r.solution)) or set(r.solution)!=exp_br: note('bridges wrong',(nodes,dict(nadj),r.solution,exp_br))
    # kcore
    deg=lambda S: {v:sum(1 for e in simple if v in e and (e[0] in S and e[1] in S)) for v in S}
    core={}
    for k in range(0,n+1):
        S=set(range(n))
        while True:
            d=deg(S); rm={v for v in S if d[v]<k}
            if not rm: break
            S-=rm
        for v in S: core[v]=k
    r=kcore_decomposition(nodes,lambda x: nadj[x]); stats['kcore']+=1
    if r.solution!=core: note('kcore wrong',(nodes,dict(nadj),r.solution,core))
    kk=rng.randint(0,4)
    if kcore(nodes,lambda x: nadj[x],kk).solution!={v for v in core if core[v]>=kk}: note('kcore(k) wrong',(nodes,dict(nadj),kk))
    # louvain
    res=rng.choice([0.5,1.0,1.5,2.0])
    r=louvain(nodes,lambda x: nadj[x],resolution=res); stats['louvain']+=1
    comm=r.solution
    if sorted(x for c in comm for x in c)!=list(range(n)) or any(not c for c in comm): note('louvain not partition',(nodes,dict(nadj),comm))
    else:
        mE=len(simple)
        if mE>0:
            dg={v:sum(1 for e in simple if v in e) for v in range(n)}
            Q=sum(sum(1 for e in simple if e[0] in c and e[1] in c)/mE - res*(sum(dg[v] for v in c)/(2*mE))**2 for c in comm)
            if abs(Q-r.objective)>1e-9: note('louvain modularity mismatch',(nodes,dict(nadj),comm,r.objective,Q))
    # pagerank
    n=rng.randint(1,7); m=rng.randint(0,14)
    de=[(rng.randrange(n),rng.randrange(n)) for _ in range(m)]
    dadj=collections.defaultdict(list)
    for u,v in de: dadj[u].append(v)
    dmp=rng.choice([0.5,0.85,0.9,0.3]); tol=1e-8
    r=pagerank(range(n),lambda x: dadj[x],damping=dmp,tol=tol,max_iter=2000); stats['pagerank']+=1
    sc=r.solution
    if r.status!=Status.OPTIMAL: note('pagerank not converged',(n,de,dmp))
    elif abs(sum(sc.values())-1)>1e-9 or any(v<0 for v in sc.values()): note('pagerank sum',(n,de,dmp,sc))
    else:
        out=collections.Counter(u for u,v in de)
        dang=sum(sc[v] for v in range(n) if out[v]==0)
        resid=max(abs(sc[v]-((1-dmp)/n+dmp*dang/n+dmp*sum(sc[u]/out[u] for u,w in de if w==v))) for v in range(n))
        if resid>tol: note('pagerank residual',(n,de,dmp,resid))
for k in sorted(stats): print(k,stats[k])
for k,v in ex.items(): print(k,str(v)[:600])
