import random, itertools, sys
from fractions import Fraction as F
from lp_oracle import vertices
rng=random.Random(int(sys.argv[1])); found=[]; tot=0
while tot<int(sys.argv[2]):
    tot+=1
    n=rng.randint(2,3); m=rng.randint(1,3); U=rng.choice([2,3])
    A=[[rng.choice([0,1,-1,2,-2,3,4,5]) for _ in range(n)] for _ in range(m)]
    b=[rng.choice([1,2,3,4,5,6,7]) for _ in range(m)]
    A2=A+[[1 if k==j else 0 for k in range(n)] for j in range(n)]; b2=b+[U]*n
    c=[rng.choice([1,-1,2,-2,3,-3,5,-5]) for _ in range(n)]; mn=rng.random()<0.5
    sign=1 if mn else -1
    V=vertices(A2,b2)
    if not V: continue
    vals=[sum(sign*ci*xi for ci,xi in zip(c,x)) for x in V]; best=min(vals)
    optV=[x for x,v in zip(V,vals) if v==best]
    if len({tuple(x) for x in optV})!=1: continue
    xs=optV[0]
    if not all(0<=xi<=1 for xi in xs) or all(xi==int(xi) for xi in xs): continue
    # integer optimum
    pts=[p for p in itertools.product(range(U+1),repeat=n) if all(sum(a*x for a,x in zip(r,p))<=bb for r,bb in zip(A,b))]
    if not pts: continue
    ib=min(sum(sign*ci*xi for ci,xi in zip(c,p)) for p in pts)
    iopt=[p for p in pts if sum(sign*ci*xi for ci,xi in zip(c,p))==ib]
    if all(max(p)>=2 for p in iopt):
        found.append((c,A,b,U,mn,[str(x) for x in xs],iopt))
print(tot,len(found)); 
for f in found[:5]: print(f)
