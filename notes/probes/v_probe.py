import random, sys, collections, math
from solvor import solve_job_shop, solve_vrptw
from solvor.vrp import *
from solvor.types import Status
rng=random.Random(int(sys.argv[1])); N=int(sys.argv[2]); stats=collections.Counter(); ex={}
def note(k,v): stats[k]+=1; ex.setdefault(k,v)
def check_state(s, tag, ctx):
    n=len(s.customers)-1
    onroute=collections.Counter()
    for v,r in enumerate(s.routes):
        if len(set(r))!=len(r): note(tag+' dup on same route',ctx); return
        for c in r: onroute[c]+=1
    for c in range(1,n+1):
        inr=onroute[c]>0; inu=c in s.unassigned
        if not inr and not inu: note(tag+' customer lost',ctx); return
        if inr and inu: note(tag+' in both',ctx); return
        if s.customers[c].required_vehicles==1 and onroute[c]>1: note(tag+' single on several routes',ctx); return
    if any(c<1 or c>n for c in list(onroute)+list(s.unassigned)): note(tag+' alien id',ctx); return
    for v in range(len(s.routes)):
        if s.arrival_times[v]!=s.compute_arrival_times(v):
            if len(s.arrival_times[v])!=len(s.routes[v]) or any(abs(a-b)>1e-9 for a,b in zip(s.arrival_times[v],s.compute_arrival_times(v))): note(tag+' stale arrival',ctx); return
for it in range(N):
    nj=rng.randint(1,5)
    jobs=[[(rng.randint(0,3),rng.randint(0,5)) for _ in range(rng.randint(1,4))] for _ in range(nj)]
    rule=rng.choice(['spt','lpt','mwkr','fifo','random']); ls=rng.random()<0.7; seed=rng.randint(0,999)
    r=solve_job_shop(jobs,rule=rule,local_search=ls,max_iter=rng.choice([1,10,200]),seed=seed); stats['js']+=1
    sch=r.solution
    ok=set(sch)=={(j,o) for j in range(nj) for o in range(len(jobs[j]))}
    if ok:
        for (j,o),(s,e) in sch.items():
            if e-s!=jobs[j][o][1] or s<0: ok=False
        for j in range(nj):
            for o in range(1,len(jobs[j])):
                if sch[(j,o)][0]<sch[(j,o-1)][1]: ok=False
        bym=collections.defaultdict(list)
        for (j,o),(s,e) in sch.items(): bym[jobs[j][o][0]].append((s,e))
        for m,iv in bym.items():
            iv=[x for x in iv if x[1]>x[0]]; iv.sort()
            for a,b in zip(iv,iv[1:]):
                if b[0]<a[1]: ok=False
        if r.objective!=max(e for s,e in sch.values()): ok=False
    if not ok: note('jobshop invalid',(jobs,rule,ls,seed,sch,r.objective))
    r2=solve_job_shop(jobs,rule=rule,local_search=ls,max_iter=10,seed=seed)
    # vrp
    nc=rng.randint(1,7); multi=rng.random()<0.5
    custs=[]
    for i in range(1,nc+1):
        tws=rng.choice([0,0,rng.randint(0,20)]); twe=rng.choice([float('inf'),tws+rng.randint(0,30)])
        custs.append(Customer(i,rng.randint(-10,10),rng.randint(-10,10),demand=rng.randint(0,5),tw_start=tws,tw_end=twe,service_time=rng.choice([0,0,2]),required_vehicles=(rng.choice([1,1,2,3]) if multi else 1)))
    nv=rng.randint(1,4); capv=rng.choice([float('inf'),6,10])
    seed=rng.randint(0,999)
    r=solve_vrptw(custs,nv,vehicle_capacity=capv,max_iter=rng.choice([5,50,300]),seed=seed); stats['vrp']+=1
    s=r.solution
    check_state(s,'vrp'+(' multi' if multi else ''),(custs,nv,capv,seed,s.routes,s.unassigned))
    exp=vrp_objective(s)
    if abs(exp-r.objective)>1e-6*max(1,abs(exp)): note('vrp objective mismatch',(custs,nv,capv,seed,r.objective,exp))
    r2=solve_vrptw(custs,nv,vehicle_capacity=capv,max_iter=5,seed=seed); r3=solve_vrptw(custs,nv,vehicle_capacity=capv,max_iter=5,seed=seed)
    if r2.solution.routes!=r3.solution.routes or r2.objective!=r3.objective: note('vrp nondeterministic',(custs,nv,seed))
    # operator sequences
    cl=[Customer(0,0,0)]+custs; vl=[Vehicle(i,capv) for i in range(nv)]
    st=VRPState.from_problem(cl,vl); r_=random.Random(seed)
    ops=[('rr',lambda s:random_removal(s,r_,0.3)),('wr',lambda s:worst_removal(s,r_,0.3)),('rel',lambda s:related_removal(s,r_,0.3)),('route',lambda s:route_removal(s,r_)),('sync',lambda s:sync_removal(s,r_)),('gi',lambda s:greedy_insertion(s,r_)),('ri',lambda s:regret_insertion(s,r_,2)),('sai',lambda s:sync_aware_insertion(s,r_))]
    hist=[]
    for _ in range(8):
        name,op=rng.choice(ops); hist.append(name)
        st=op(st)
        before=sum(stats.values())
        check_state(st,'ops'+(' multi' if multi else ' single')+' after '+name,(custs,nv,capv,seed,hist))
        if sum(stats.values())!=before: break
for k in sorted(stats): print(k,stats[k])
for k,v in ex.items(): print(k,str(v)[:400])
