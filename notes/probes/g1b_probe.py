import random, sys, collections, itertools, signal
from solvor import max_flow, min_cost_flow, network_simplex, solve_assignment, solve_hungarian, solve_exact_cover
from solvor.types import Status
class TO(Exception): pass
def h(*a): raise TO()
signal.signal(signal.SIGALRM, h)
rng=random.Random(int(sys.argv[1])); N=int(sys.argv[2]); stats=collections.Counter(); ex={}
def note(k,v):
    stats[k]+=1; ex.setdefault(k,v)
# ---- exact min cost flow oracle via successive shortest path on expanded multigraph (Bellman-Ford), ints
def mcf_oracle(n, arcs, supplies):
    # arcs: (u,v,cap,cost); returns (feasible, cost) ; supplies balanced; use super source/sink SSP
    S=n; T=n+1; N2=n+2
    g=[[] for _ in range(N2)]
    def add(u,v,c,w):
        g[u].append([v,c,w,len(g[v])]); g[v].append([u,0,-w,len(g[u])-1])
    for u,v,c,w in arcs: add(u,v,c,w)
    need=0
    for i,s in enumerate(supplies):
        if s>0: add(S,i,s,0); need+=s
        elif s<0: add(i,T,-s,0)
    flow=0; cost=0
    while True:
        dist=[None]*N2; dist[S]=0; prev=[None]*N2
        for _ in range(N2):
            ch=False
            for u in range(N2):
                if dist[u] is None: continue
                for i,(v,c,w,r) in enumerate(g[u]):
                    if c>0 and (dist[v] is None or dist[u]+w<dist[v]): dist[v]=dist[u]+w; prev[v]=(u,i); ch=True
            if not ch: break
        if dist[T] is None: break
        f=10**9; v=T
        while v!=S:
            u,i=prev[v]; f=min(f,g[u][i][1]); v=u
        v=T
        while v!=S:
            u,i=prev[v]; g[u][i][1]-=f; g[v][g[u][i][3]][1]+=f; v=u
        flow+=f; cost+=f*dist[T]
    return flow==need, cost
def has_neg_cycle(n,arcs):
    dist=[0]*n
    for _ in range(n):
        ch=False
        for u,v,c,w in arcs:
            if c>0 and dist[u]+w<dist[v]: dist[v]=dist[u]+w; ch=True
        if not ch: return False
    return True
def maxflow_oracle(n,arcs,s,t):
    if s==t: return None
    sup=[0]*n
    # use mcf_oracle trick: compute max flow by augmenting with zero costs
    g=[[] for _ in range(n)]
    def add(u,v,c):
        g[u].append([v,c,len(g[v])]); g[v].append([u,0,len(g[u])-1])
    for u,v,c in arcs: add(u,v,c)
    flow=0
    while True:
        prev=[None]*n; prev[s]=(s,-1); q=[s]
        for u in q:
            for i,(v,c,r) in enumerate(g[u]):
                if c>0 and prev[v] is None: prev[v]=(u,i); q.append(v)
        if prev[t] is None: break
        f=10**9; v=t
        while v!=s:
            u,i=prev[v]; f=min(f,g[u][i][1]); v=u
        v=t
        while v!=s:
            u,i=prev[v]; g[u][i][1]-=f; g[v][g[u][i][2]][1]+=f; v=u
        flow+=f
    return flow
for it in range(N):
    # ---------- max flow
    n=rng.randint(5,9); m=rng.randint(8,26)
    arcs=[(rng.randrange(n),rng.randrange(n),rng.randint(0,5)) for _ in range(m)]
    arcs=[a for a in arcs if a[0]!=a[1]]
    s,t=rng.sample(range(n),2)
    graph=collections.defaultdict(list)
    for u,v,c in arcs: graph[u].append((v,c))
    signal.alarm(3)
    try:
        r=max_flow(dict(graph),s,t); signal.alarm(0)
        exp=maxflow_oracle(n,arcs,s,t)
        cap=collections.Counter()
        for u,v,c in arcs: cap[(u,v)]+=c
        ok=all(0<f<=cap[e] for e,f in r.solution.items())
        net=collections.Counter()
        for (u,v),f in r.solution.items(): net[u]-=f; net[v]+=f
        cons=all(net[x]==0 for x in range(n) if x not in (s,t))
        if not ok: note('maxflow capacity violated',(dict(graph),s,t,r.solution))
        elif not cons: note('maxflow conservation',(dict(graph),s,t,r.solution))
        elif net[t]!=r.objective: note('maxflow objective != net flow',(dict(graph),s,t,r.solution,r.objective))
        elif r.objective!=exp: note('maxflow not maximum',(dict(graph),s,t,r.objective,exp))
        stats['maxflow total']+=1
    except TO: note('maxflow hang',(dict(graph),s,t))
    except Exception as e: signal.alarm(0); note('maxflow exc '+type(e).__name__,(dict(graph),s,t,repr(e)))
    # ---------- min cost flow (nonneg and some negative costs w/o neg cycles)
    n=rng.randint(4,8); m=rng.randint(6,20)
    neg=rng.random()<0.3
    while True:
        arcs=[(rng.randrange(n),rng.randrange(n),rng.randint(0,4),rng.randint(-3 if neg else 0,6)) for _ in range(m)]
        arcs=[a for a in arcs if a[0]!=a[1]]
        if not has_neg_cycle(n,arcs): break
    s,t=rng.sample(range(n),2); d=rng.randint(0,6)
    graph=collections.defaultdict(list)
    for u,v,c,w in arcs: graph[u].append((v,c,w))
    sup=[0]*n; sup[s]=d; sup[t]=-d
    feas,cost=mcf_oracle(n,arcs,sup)
    signal.alarm(3)
    try:
        r=min_cost_flow(dict(graph),s,t,d); signal.alarm(0)
        stats['mcf total']+=1
        if r.status==Status.INFEASIBLE:
            if feas: note('mcf false INFEASIBLE',(dict(graph),s,t,d))
        else:
            cap=collections.Counter()
            for u,v,c,w in arcs: cap[(u,v)]+=c
            net=collections.Counter()
            for (u,v),f in r.solution.items(): net[u]-=f; net[v]+=f
            if not feas: note('mcf solution for infeasible',(dict(graph),s,t,d,r.solution))
            elif any(f>cap[e] or f<0 for e,f in r.solution.items()): note('mcf capacity',(dict(graph),s,t,d,r.solution))
            elif any(net[x]!=(d if x==t else -d if x==s else 0) for x in range(n)): note('mcf conservation',(dict(graph),s,t,d,r.solution))
            elif r.objective!=cost: note('mcf cost not optimal/wrong',(dict(graph),s,t,d,r.solution,r.objective,cost))
    except TO: note('mcf hang',(dict(graph),s,t,d))
    except Exception as e: signal.alarm(0); note('mcf exc '+type(e).__name__,(dict(graph),s,t,d,repr(e)))
    # ---------- network simplex
    n=rng.randint(4,8); m=rng.randint(6,20)
    while True:
        arcs=[(rng.randrange(n),rng.randrange(n),rng.randint(0,4),rng.randint(-2 if neg else 0,6)) for _ in range(m)]
        arcs=[a for a in arcs if a[0]!=a[1]]
        # distinct (u,v) to keep dict unambiguous
        seen=set(); a2=[]
        for a in arcs:
            if (a[0],a[1]) not in seen: seen.add((a[0],a[1])); a2.append(a)
        arcs=a2
        if arcs and not has_neg_cycle(n,arcs): break
    sup=[0]*n
    for _ in range(rng.randint(0,3)):
        a,b=rng.sample(range(n),2); k=rng.randint(1,3); sup[a]+=k; sup[b]-=k
    feas,cost=mcf_oracle(n,arcs,sup)
    signal.alarm(3)
    try:
        r=network_simplex(n,arcs,sup); signal.alarm(0)
        stats['ns total']+=1
        if r.status==Status.INFEASIBLE:
            if feas: note('ns false INFEASIBLE',(n,arcs,sup))
        else:
            cap={(u,v):c for u,v,c,w in arcs}; cst={(u,v):w for u,v,c,w in arcs}
            net=collections.Counter()
            for (u,v),f in r.solution.items(): net[u]-=f; net[v]+=f
            if not feas: note('ns OPTIMAL on infeasible',(n,arcs,sup,r.solution))
            elif any(f>cap[e] or f<0 for e,f in r.solution.items()): note('ns capacity',(n,arcs,sup,r.solution))
            elif any(net[x]!=-sup[x] for x in range(n)): note('ns conservation',(n,arcs,sup,r.solution))
            elif abs(r.objective-sum(cst[e]*f for e,f in r.solution.items()))>1e-9: note('ns objective mismatch',(n,arcs,sup,r.solution,r.objective))
            elif abs(r.objective-cost)>1e-9: note('ns not optimal',(n,arcs,sup,r.objective,cost))
    except TO: note('ns hang',(n,arcs,sup))
    except Exception as e: signal.alarm(0); note('ns exc '+type(e).__name__,(n,arcs,sup,repr(e)))
    # ---------- hungarian + solve_assignment
    R=rng.randint(1,5); C=rng.randint(1,5)
    M=[[rng.choice([rng.randint(-5,9), rng.randint(-20,20)/4]) for _ in range(C)] for _ in range(R)]
    mn=rng.random()<0.6
    def best(M,mn):
        R=len(M);C=len(M[0]);k=min(R,C);b=None
        if R<=C:
            for cols in itertools.permutations(range(C),R):
                v=sum(M[i][cols[i]] for i in range(R)); b=v if b is None else (min(b,v) if mn else max(b,v))
        else:
            for rows in itertools.permutations(range(R),C):
                v=sum(M[rows[j]][j] for j in range(C)); b=v if b is None else (min(b,v) if mn else max(b,v))
        return b
    r=solve_hungarian(M,minimize=mn); stats['hung total']+=1
    a=r.solution; used=[j for j in a if j!=-1]
    if len(a)!=R or len(used)!=min(R,C) or len(set(used))!=len(used) or any(not(0<=j<C) for j in used): note('hung not matching',(M,mn,a))
    elif abs(sum(M[i][j] for i,j in enumerate(a) if j!=-1)-r.objective)>1e-9: note('hung obj mismatch',(M,mn,a,r.objective))
    elif abs(r.objective-best(M,mn))>1e-9: note('hung not optimal',(M,mn,a,r.objective,best(M,mn)))
    Mi=[[rng.randint(-3,9) for _ in range(C)] for _ in range(R)]
    signal.alarm(3)
    try:
        r=solve_assignment(Mi); signal.alarm(0); stats['assign total']+=1
        a=r.solution; used=[j for j in a if j!=-1]
        if r.status!=Status.OPTIMAL: note('assign status '+r.status.name,(Mi,))
        elif len(used)!=min(R,C) or len(set(used))!=len(used): note('assign not matching',(Mi,a))
        elif sum(Mi[i][j] for i,j in enumerate(a) if j!=-1)!=r.objective or r.objective!=best(Mi,True): note('assign not optimal',(Mi,a,r.objective,best(Mi,True)))
    except TO: note('assign hang',(Mi,))
    except Exception as e: signal.alarm(0); note('assign exc '+type(e).__name__,(Mi,repr(e)))
    # ---------- dlx
    nr=rng.randint(0,8); nc=rng.randint(1,6)
    mat=[[1 if rng.random()<0.4 else 0 for _ in range(nc)] for _ in range(nr)]
    if nr>1 and rng.random()<0.3: mat[-1]=list(mat[0])
    sec=[j for j in range(nc) if rng.random()<0.25]
    prim=[j for j in range(nc) if j not in sec]
    def covers():
        out=[]
        rows=[i for i in range(nr) if any(mat[i][j] for j in prim)]
        for k in range(len(rows)+1):
            for sub in itertools.combinations(rows,k):
                cnt=[sum(mat[i][j] for i in sub) for j in range(nc)]
                if all(cnt[j]==1 for j in prim) and all(cnt[j]<=1 for j in sec): out.append(frozenset(sub))
        return out
    allc=covers()
    import copy; mat0=copy.deepcopy(mat)
    for fa in (False,True):
        r=solve_exact_cover(mat,secondary=sec or None,find_all=fa); stats['dlx total']+=1
        if mat!=mat0: note('dlx mutated input',(mat0,))
        if nr==0: continue
        if r.status==Status.INFEASIBLE:
            if allc: note('dlx false INFEASIBLE',(mat,sec,fa))
        elif fa:
            got=[frozenset(s) for s in r.solution]
            if len(set(got))!=len(got): note('dlx duplicates',(mat,sec))
            elif set(got)!=set(allc): note('dlx find_all wrong set',(mat,sec,sorted(map(sorted,got)),sorted(map(sorted,allc))))
        else:
            if frozenset(r.solution) not in set(allc) or len(set(r.solution))!=len(r.solution): note('dlx invalid cover',(mat,sec,r.solution))
for k in sorted(stats): print(k,stats[k])
for k,v in ex.items(): print(k,str(v)[:700])
