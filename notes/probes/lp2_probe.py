import random, sys, collections, warnings
from fractions import Fraction as F
from lp_oracle import lp_exact
from solvor import solve_lp
from solvor.types import Status
rng=random.Random(int(sys.argv[1])); stats=collections.Counter(); ex={}
for it in range(int(sys.argv[2])):
    n=rng.randint(2,5); m=rng.randint(2,6)
    kind=rng.choice(['degen','parallel','zero','ties','frac'])
    coef=lambda: rng.choice([0,0,1,-1,2,-2,3,-3,4,5,-5,7,9,-9])
    A=[[coef() for _ in range(n)] for _ in range(m)]
    if kind=='degen':
        xs=[rng.randint(0,3) for _ in range(n)]
        b=[sum(a*x for a,x in zip(r,xs)) for r in A]
    else:
        b=[rng.choice([0,0,1,2,3,5,8,-1,-2,-4,12]) for _ in range(m)]
    if kind=='parallel':
        i,j=rng.sample(range(m),2); k=rng.choice([1,2,-1,3]); A[j]=[k*a for a in A[i]]; b[j]=k*b[i]+rng.choice([0,0,1,-1])
    if kind=='zero':
        i=rng.randrange(m); A[i]=[0]*n; 
        j=rng.randrange(n)
        for r in A: r[j]=0
    if kind=='frac':
        A=[[a/rng.choice([1,2,4]) for a in r] for r in A]
    c=[rng.choice([0,1,-1,2,-2,3,-3,6]) for _ in range(n)]
    mn=rng.random()<0.5
    st,val=lp_exact(c,A,b,mn); stats['oracle_'+st]+=1; stats['kind_'+kind]+=1
    with warnings.catch_warnings():
        warnings.simplefilter('ignore'); r=solve_lp(c,A,b,minimize=mn)
    exp={'infeasible':Status.INFEASIBLE,'unbounded':Status.UNBOUNDED,'optimal':Status.OPTIMAL}[st]
    if r.status!=exp: k=f'{kind}: {st}->{r.status.name}'; stats[k]+=1; ex.setdefault(k,(c,A,b,mn))
    elif st=='optimal':
        x=r.solution
        feas=all(xi>=-1e-6 for xi in x) and all(sum(a*xi for a,xi in zip(row,x))<=bb+1e-6*(1+abs(bb)) for row,bb in zip(A,b))
        cx=sum(ci*xi for ci,xi in zip(c,x))
        if not feas: stats['infeasible point']+=1; ex.setdefault('infeasible point',(c,A,b,mn,x))
        elif abs(cx-r.objective)>1e-6 or abs(r.objective-float(val))>1e-6*(1+abs(float(val))): stats['wrong obj']+=1; ex.setdefault('wrong obj',(c,A,b,mn,x,r.objective,float(val)))
for k in sorted(stats): print(k,stats[k])
for k,v in ex.items(): print(k,v)
