import random, sys, collections, math
from solvor import (floyd_warshall, bellman_ford, kruskal)
from solvor.dijkstra import dijkstra_edges
from solvor.bfs import bfs_edges, dfs_edges
from solvor.pagerank import pagerank_edges
from solvor.scc import strongly_connected_components_edges, topological_sort_edges
from solvor.types import Status
rng=random.Random(int(sys.argv[1])); N=int(sys.argv[2]); stats=collections.Counter(); ex={}
def note(k,v): stats[k]+=1; ex.setdefault(k,v)
def pathw(path,edges):
    es=collections.defaultdict(list)
    for u,v,w in edges: es[(u,v)].append(w)
    tot=0
    for a,b in zip(path,path[1:]):
        if (a,b) not in es: return None
        tot+=min(es[(a,b)])
    return tot
for it in range(N):
    n=rng.randint(1,7); m=rng.randint(0,14)
    edges=[(rng.randrange(n),rng.randrange(n),float(rng.choice([0,1,1,2,3,5,0.5,2.5]))) for _ in range(m)]
    nedges=[(u,v,float(rng.choice([-3,-2,-1,0,1,2,3,4,5]))) for u,v,w in edges]
    uedges=[(u,v) for u,v,w in edges]
    s=rng.randrange(n); t=rng.choice([None,rng.randrange(n)])
    for directed in (True,False):
        for E,tag in ((edges,'pos'),(nedges,'neg')):
            a=floyd_warshall(n,E,directed=directed,backend='python'); b=floyd_warshall(n,E,directed=directed,backend='rust'); c=floyd_warshall(n,E,directed=directed)
            stats['fw']+=1
            if a.status!=b.status or a.solution!=b.solution or c.status!=a.status or c.solution!=a.solution: note(f'fw differs directed={directed} {tag}',(n,E))
    for E,tag in ((edges,'pos'),(nedges,'neg')):
        a=bellman_ford(s,E,n,target=t,backend='python'); b=bellman_ford(s,E,n,target=t,backend='rust'); stats['bf']+=1
        if a.status!=b.status: note('bf status differs '+tag,(n,E,s,t,a.status.name,b.status.name))
        elif a.status==Status.OPTIMAL:
            if t is None:
                if a.solution!=b.solution: note('bf dist differs',(n,E,s))
            elif a.objective!=b.objective or pathw(b.solution,E) is None or abs(pathw(b.solution,E)-b.objective)>1e-9 or b.solution[0]!=s or b.solution[-1]!=t: note('bf path/obj differs',(n,E,s,t,a.solution,b.solution,a.objective,b.objective))
    a=dijkstra_edges(n,edges,s,target=t,backend='python'); b=dijkstra_edges(n,edges,s,target=t,backend='rust'); stats['dij']+=1
    if a.status!=b.status: note('dij status differs',(n,edges,s,t,a.status.name,b.status.name))
    elif t is None:
        if a.solution!=b.solution or a.objective!=b.objective: note('dij dist differs',(n,edges,s,a.solution,b.solution))
    elif a.status==Status.OPTIMAL and (a.objective!=b.objective or pathw(b.solution,edges) is None or abs(pathw(b.solution,edges)-b.objective)>1e-9): note('dij path differs',(n,edges,s,t,a.solution,b.solution))
    for fn,name in ((bfs_edges,'bfs'),(dfs_edges,'dfs')):
        a=fn(n,uedges,s,target=t,backend='python'); b=fn(n,uedges,s,target=t,backend='rust'); stats[name]+=1
        if a.status!=b.status: note(name+' status differs',(n,uedges,s,t,a.status.name,b.status.name))
        if t is None:
            if a.solution!=b.solution: note(name+' visited differs',(n,uedges,s,a.solution,b.solution))
        elif (a.solution is None)!=(b.solution is None): note(name+' reach differs',(n,uedges,s,t))
        elif a.solution is not None:
            if name=='bfs' and a.objective!=b.objective: note('bfs len differs',(n,uedges,s,t))
            if b.solution[0]!=s or b.solution[-1]!=t or any((x,y) not in set(uedges) for x,y in zip(b.solution,b.solution[1:])) or b.objective!=len(b.solution)-1: note(name+' rust path invalid',(n,uedges,s,t,b.solution))
    for af in (False,True):
        nn=max(n,1)
        a=kruskal(nn,nedges,allow_forest=af,backend='python'); b=kruskal(nn,nedges,allow_forest=af,backend='rust'); stats['kruskal']+=1
        if a.status!=b.status or (a.solution is None)!=(b.solution is None) or (a.solution is not None and (abs(a.objective-b.objective)>1e-9 or len(a.solution)!=len(b.solution))): note('kruskal differs',(nn,nedges,af,a.status.name,b.status.name,a.objective,b.objective))
    dmp=rng.choice([0.5,0.85,0.9]); 
    kw=rng.choice([{}, {'tol':1e-9,'max_iter':1000}, {'max_iter':3}])
    a=pagerank_edges(n,uedges,damping=dmp,backend='python',**kw); b=pagerank_edges(n,uedges,damping=dmp,backend='rust',**kw); stats['pr']+=1
    tol=kw.get('tol',1e-6)
    if a.status!=b.status: note('pr status differs',(n,uedges,dmp,kw,a.status.name,b.status.name,a.iterations,b.iterations))
    elif a.status==Status.OPTIMAL and sum(abs(a.solution[i]-b.solution[i]) for i in range(n))>2*n*tol*dmp/(1-dmp): note('pr scores differ',(n,uedges,dmp,kw))
    a=strongly_connected_components_edges(n,uedges,backend='python'); b=strongly_connected_components_edges(n,uedges,backend='rust'); stats['scc']+=1
    if {frozenset(c) for c in a.solution}!={frozenset(c) for c in b.solution} or a.objective!=b.objective or a.status!=b.status: note('scc differs',(n,uedges))
    else:
        pos={x:i for i,c in enumerate(b.solution) for x in c}
        if any(pos[u]<pos[v] for u,v in uedges): note('scc rust order',(n,uedges,b.solution))
    a=topological_sort_edges(n,uedges,backend='python'); b=topological_sort_edges(n,uedges,backend='rust'); stats['topo']+=1
    if a.status!=b.status: note('topo status differs',(n,uedges))
    elif a.status==Status.OPTIMAL and (sorted(b.solution)!=list(range(n)) or any(b.solution.index(u)>=b.solution.index(v) for u,v in uedges)): note('topo rust invalid',(n,uedges,b.solution))
    elif a.status==Status.OPTIMAL and a.objective!=b.objective: note('topo objective differs',(n,uedges,a.objective,b.objective))
for k in sorted(stats): print(k,stats[k])
for k,v in ex.items(): print(k,str(v)[:500])
