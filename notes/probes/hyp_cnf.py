import os, time, collections, itertools
from hypothesis import given, settings, strategies as st, seed, HealthCheck, Phase
from solvor.sat import solve_sat
from solvor.types import Status
stats=collections.Counter()
@st.composite
def cnf(draw):
    n=draw(st.integers(1,8))
    lit=st.integers(1,n).flatmap(lambda v: st.sampled_from([v,-v]))
    ratio=draw(st.sampled_from([1.5,3.0,4.2,5.0]))
    m=max(1,int(n*ratio))
    clauses=draw(st.lists(st.lists(lit,min_size=1,max_size=4),min_size=1,max_size=m))
    ass=draw(st.lists(lit,max_size=2))
    sl=draw(st.sampled_from([1,1,2,10,100]))
    lf=draw(st.sampled_from([1,2,10,100]))
    return clauses,ass,sl,lf
@seed(int(os.environ.get('VERIF_SEED','1')))
@settings(max_examples=int(os.environ.get('N','3000')),database=None,deadline=None,suppress_health_check=list(HealthCheck))
@given(cnf())
def test(case):
    clauses,ass,sl,lf=case
    nv=max(abs(l) for c in clauses for l in c); ass=[a for a in ass if abs(a)<=nv]
    sat=any(all(any(bits[abs(l)-1]==(l>0) for l in c) for c in clauses) and all(bits[abs(l)-1]==(l>0) for l in ass) for bits in itertools.product([False,True],repeat=nv))
    r=solve_sat(clauses,assumptions=ass or None,solution_limit=sl,luby_factor=lf)
    stats['sat' if sat else 'unsat']+=1
    stats['has_unit']+=any(len(c)==1 for c in clauses)
    stats['decisions>0']+= r.iterations>0
    stats['multi']+= bool(r.solutions and len(r.solutions)>1)
    if r.status==Status.INFEASIBLE: assert not sat
    else:
        assert sat
        for m in [r.solution]+list(r.solutions or []):
            assert all(any(m.get(abs(l))==(l>0) for l in c) for c in clauses)
t=time.time(); test(); print(dict(stats), round(time.time()-t,1),'s')
