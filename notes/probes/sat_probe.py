import random, itertools, signal, sys, collections
from solvor.sat import solve_sat
from solvor.types import Status

class TO(Exception): pass
def h(*a): raise TO()
signal.signal(signal.SIGALRM, h)

def brute(clauses, assumptions, nv):
    sols=[]
    for bits in itertools.product([False,True], repeat=nv):
        ok=all(any((bits[abs(l)-1])==(l>0) for l in c) for c in clauses) and all(bits[abs(l)-1]==(l>0) for l in assumptions)
        if ok: sols.append(bits)
    return sols

rng=random.Random(int(sys.argv[1]) if len(sys.argv)>1 else 0)
stats=collections.Counter(); ex={}
for it in range(int(sys.argv[2]) if len(sys.argv)>2 else 3000):
    nv=rng.randint(1,7); nc=rng.randint(1,14)
    clauses=[]
    for _ in range(nc):
        k=rng.choice([1,2,2,3,3,3,4])
        vs=rng.sample(range(1,nv+1),min(k,nv))
        clauses.append([v if rng.random()<0.5 else -v for v in vs])
    nvv=max(abs(l) for c in clauses for l in c)
    ass=[]
    if rng.random()<0.3:
        for v in rng.sample(range(1,nvv+1), rng.randint(1,min(2,nvv))):
            ass.append(v if rng.random()<0.5 else -v)
    sl=rng.choice([1,1,2,3,10,100])
    kw={}
    if rng.random()<0.5: kw['luby_factor']=rng.choice([1,2,5,100])
    sols=brute(clauses,ass,nvv)
    signal.alarm(2)
    try:
        r=solve_sat(clauses,assumptions=ass or None,solution_limit=sl,**kw)
        signal.alarm(0)
    except TO:
        stats['hang']+=1; ex.setdefault('hang',(clauses,ass,sl,kw)); continue
    except Exception as e:
        signal.alarm(0); stats['exc:'+type(e).__name__]+=1; ex.setdefault('exc:'+type(e).__name__,(clauses,ass,sl,kw)); continue
    stats['total']+=1
    def chk(m):
        return all(any(m.get(abs(l), None)==(l>0) for l in c) for c in clauses) and all(m.get(abs(l))==(l>0) for l in ass)
    if r.status==Status.INFEASIBLE:
        if sols: stats['false_unsat']+=1; ex.setdefault('false_unsat',(clauses,ass,sl,kw))
    elif r.status==Status.OPTIMAL or r.solution is not None:
        ms=[r.solution]+list(r.solutions or [])
        if not sols: stats['model_for_unsat']+=1; ex.setdefault('model_for_unsat',(clauses,ass,sl,kw))
        bad=[m for m in ms if not chk(m)]
        if bad: stats['bad_model']+=1; ex.setdefault('bad_model',(clauses,ass,sl,kw,bad[0]))
        if r.solutions and len(set(tuple(sorted(m.items())) for m in r.solutions))!=len(r.solutions):
            stats['dup']+=1; ex.setdefault('dup',(clauses,ass,sl,kw))
    else:
        stats['maxiter']+=1; ex.setdefault('maxiter',(clauses,ass,sl,kw))
print(stats)
for k,v in ex.items(): print(k,v)
