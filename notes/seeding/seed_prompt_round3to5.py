import sys
pid, tag, files = sys.argv[1], sys.argv[2], sys.argv[3]
base = open(f'/tmp/seed2-prompt-{pid}.txt').read() if False else None
import subprocess
txt = subprocess.run(['/venv/bin/python','/tmp/seed_prompt2.py',pid],capture_output=True,text=True).stdout
txt = txt.replace(f'/tmp/seed2-{pid}', f'/tmp/seed3-{tag}')
txt = txt.replace('TASK: produce THREE different, independent source changes', f'SCOPE RESTRICTION: every change must be made ONLY in these files (shared helpers / kernels that the anchored functions rely on), not in the main solver files: {files}. If a listed file cannot break this property in three different ways, use two or even one change there and say so — do not fall back to other files.\n\nTASK: produce up to THREE different, independent source changes')
print(txt)
