import sys
pid=sys.argv[1]
prop=open(f'/tmp/prop-{pid}.txt').read()
print(f"""You are helping evaluate a verification effort for the open-source Python library solvOR (a pure-Python optimisation library). Your job is to play the role of a developer who introduces a subtle, realistic bug.

You have your own scratch git worktree of the library at /tmp/seed-{pid} (work ONLY there and in /tmp/seed-{pid}-out; never touch /repo or /verif, and do not read anything under /verif). Python is /venv/bin/python (3.12). To run code or tests against your worktree ALWAYS set PYTHONPATH, e.g.
  cd /tmp/seed-{pid} && PYTHONPATH=/tmp/seed-{pid} /venv/bin/python -m pytest -q -p no:cacheprovider --no-cov tests/solvors -x -q
(the full suite is `tests/`; tests/solvors takes ~90 s; the examples tests under tests/examples take a few minutes — run at least tests/solvors completely plus any example tests that exercise the module you changed).

This semantic property of the library is supposed to hold:

{prop}

TASK: produce THREE different, independent source changes (each one separately applied to a clean worktree, not stacked) that each BREAK this property while (a) the package still imports, (b) the existing test suite still passes unedited, and (c) the breakage needs something specific to manifest — a particular input shape, option combination, multi-step sequence of calls, unusual-but-valid input, or two cooperating edits that each look fine alone — NOT something ordinary use would expose at once (if the most common call breaks, the existing tests would catch it; that is not interesting). Prefer changes that look like plausible refactorings, optimisations or off-by-one slips a maintainer could commit. Make the three changes different in kind (different functions/code paths/clauses of the property). The inputs that expose the bug must be VALID inputs within the property's quantifier (no malformed inputs), and small (so that an exact oracle could decide them): say why the input is valid.

For each change k in 1,2,3 write into /tmp/seed-{pid}-out/k/:
  patch.diff   — `git diff` of the change against the clean worktree HEAD (apply-able with `git apply` from the repo root)
  demo.py      — a small self-contained program (imports solvor, no other deps; must NOT import anything from /verif) that exits 0 and prints PASS on the unmodified library and exits 1 printing FAIL with the change applied; it must check the property itself (e.g. recompute the correct answer by brute force), not compare against a hard-coded output of the current implementation
  meta.json    — {{"property": "{pid}", "title": short title, "what_breaks": which clause of the property, "needs": what specific input/sequence/option is needed to manifest, "why_tests_pass": why the existing suite does not notice, "files": [changed files]}}
After each change: run the tests as above with the change applied (they must pass), run demo.py with and without the change (use `git stash` / `git checkout -- .` to get back to the clean tree; run with PYTHONPATH set), and record in meta.json under "ran" exactly what you ran and the outcomes. Leave the worktree clean (git checkout -- .) at the end.

Final answer: a brief summary per change (title, what it needs to manifest, test results).""")
