#!/bin/bash
cd /verif
for d in seeded/*r4*/ seeded/C05-r2-1/ seeded/C04-r2-3/; do id=$(basename $d); prop=${id%%-*}; extra=""; [ "$prop" = "C12" ] && extra="--rust"
  i=$((i+1)); [ $(( i % 3 )) -ne $1 ] && continue
  props=$(python3 -c "import json;print(','.join(json.load(open('$d/meta.json')).get('verified_here',{}).get('checks',{}).keys()) or '$prop')")
  tools/seed_eval.py /verif/$d $prop $id --props $props $extra --seeds 1,2,3 2>&1 | cut -c1-220
done
