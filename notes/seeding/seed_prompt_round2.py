import sys, json, glob, os
pid=sys.argv[1]
prop=open(f'/tmp/prop-{pid}.txt').read()
prev=[]
for d in sorted(glob.glob(f'/verif/seeded/{pid}-*/meta.json')):
    try: prev.append(json.load(open(d)).get('title',''))
    except Exception: pass
prev_txt = "\n".join(f"  - {t}" for t in prev if t) or "  (none)"
print(f"""You are helping evaluate a verification effort for the open-source Python library solvOR (a pure-Python optimisation library). Your job is to play the role of a developer who introduces a subtle, realistic bug that is HARD to find by random testing.

You have your own scratch git worktree of the library at /tmp/seed2-{pid} (work ONLY there and in /tmp/seed2-{pid}-out; never touch /repo or /verif, and do not read anything under /verif). Python is /venv/bin/python (3.12). To run code or tests against your worktree ALWAYS set PYTHONPATH, e.g.
  cd /tmp/seed2-{pid} && PYTHONPATH=/tmp/seed2-{pid} /venv/bin/python -m pytest -q -p no:cacheprovider --no-cov tests/solvors -x -q
(tests/solvors takes ~90 s; also run any tests/examples tests that exercise the module you changed).

This semantic property of the library is supposed to hold:

{prop}

TASK: produce THREE different, independent source changes (each one separately applied to a clean worktree, not stacked) that each BREAK this property while (a) the package still imports, (b) the existing test suite still passes unedited, and (c) the breakage is RARE: write a simple uniform random generator of small valid inputs for the affected function(s) with an exact brute-force oracle (save it as fuzz.py next to each change) and measure the fraction of random cases on which the changed code violates the property — it must be BELOW 0.5 % (ideally below 0.05 %) over at least 5 000 random cases, and 0 on the unmodified library — yet the bug must be reachable by a SMALL valid input (give a minimal one). Typical ways to get there: a bug that needs a particular structural coincidence (a tie, a specific ordering, a revisited state, a boundary value such as exactly-equal, an empty/degenerate sub-structure, a second call on the same object, a particular combination of two optional parameters, a value type such as float-vs-int or bool), or two cooperating edits that each look fine alone. Prefer changes that look like plausible refactorings, optimisations, caching, early exits or off-by-one slips. The inputs that expose the bug must be VALID inputs within the property's quantifier (no malformed inputs): say why the input is valid. Make the three changes different in kind, and different from these changes that were already tried for this property:
{prev_txt}

For each change k in 1,2,3 write into /tmp/seed2-{pid}-out/k/:
  patch.diff   — `git diff` of the change against the clean worktree HEAD (apply-able with `git apply` from the repo root)
  demo.py      — a small self-contained program (imports solvor, no other deps; must NOT import anything from /verif) that exits 0 and prints PASS on the unmodified library and exits 1 printing FAIL with the change applied; it must check the property itself (e.g. recompute the correct answer by brute force), not compare against a hard-coded output of the current implementation
  fuzz.py      — your uniform random generator + oracle used to measure the hit rate (prints the rate)
  meta.json    — {{"property": "{pid}", "title": short title, "what_breaks": which clause of the property, "needs": what specific input/sequence/option is needed to manifest, "random_hit_rate": measured fraction with the change, "why_tests_pass": why the existing suite does not notice, "files": [changed files]}}
After each change: run the tests as above with the change applied (they must pass), run demo.py with and without the change (use `git checkout -- .` to get back to the clean tree; do not use git stash; run with PYTHONPATH set), and record in meta.json under "ran" exactly what you ran and the outcomes. Leave the worktree clean (git checkout -- .) at the end.

Final answer: a brief summary per change (title, what it needs to manifest, measured random hit rate, test results).""")
