"""Deterministic step budget (DESIGN §2.4): count JUMP|BRANCH events of the
modules under test with sys.monitoring and abort the call once a limit is
passed.  The count is a pure function of code and input, unlike a clock.
"""
from __future__ import annotations

import signal
import sys
import types
from contextlib import contextmanager

mon = sys.monitoring
TOOL = 3


class StepBudgetExceeded(BaseException):
    """BaseException on purpose: solver code with `except Exception` must not eat it."""


class CaseTimeout(BaseException):
    """Wall-clock backstop (never a violation; the case is inconclusive)."""


_state = {"count": 0, "limit": None, "installed": False, "codes": set()}


def _on_event(code, src, dst=None):
    _state["count"] += 1
    lim = _state["limit"]
    if lim is not None and _state["count"] > lim:
        _state["limit"] = None  # raise once
        raise StepBudgetExceeded(_state["count"])


def _codes_of(mod):
    out = []

    def walk(co):
        out.append(co)
        for c in co.co_consts:
            if isinstance(c, types.CodeType):
                walk(c)

    for v in vars(mod).values():
        w = getattr(v, "__wrapped__", None)  # decorated functions (e.g. @with_rust_backend) keep the body here
        while isinstance(w, types.FunctionType):
            walk(w.__code__)
            w = getattr(w, "__wrapped__", None)
        if isinstance(v, types.FunctionType) and v.__module__ == mod.__name__:
            walk(v.__code__)
        elif isinstance(v, type) and v.__module__ == mod.__name__:
            for f in vars(v).values():
                f = getattr(f, "__func__", f)
                if isinstance(f, types.FunctionType):
                    walk(f.__code__)
                elif isinstance(f, property) and f.fget is not None:
                    walk(f.fget.__code__)
    return out


def instrument(*modules):
    """Enable counting on every code object of the given modules (idempotent)."""
    if not _state["installed"]:
        mon.use_tool_id(TOOL, "verif-steps")
        mon.register_callback(TOOL, mon.events.JUMP, _on_event)
        mon.register_callback(TOOL, mon.events.BRANCH, _on_event)
        _state["installed"] = True
    for m in modules:
        for co in _codes_of(m):
            if co not in _state["codes"]:
                mon.set_local_events(TOOL, co, mon.events.JUMP | mon.events.BRANCH)
                _state["codes"].add(co)


@contextmanager
def steps(limit: int | None):
    """with steps(L) as s: call(); s.count is the work done; raises StepBudgetExceeded past L."""

    class S:
        count = 0

    s = S()
    _state["count"] = 0
    _state["limit"] = limit
    try:
        yield s
    finally:
        _state["limit"] = None
        s.count = _state["count"]


def _alarm(signum, frame):
    raise CaseTimeout()


@contextmanager
def wall(seconds: float):
    """Backstop only.  A hit makes the case inconclusive, never a violation."""
    if seconds is None or seconds <= 0:
        yield
        return
    old = signal.signal(signal.SIGALRM, _alarm)
    signal.setitimer(signal.ITIMER_REAL, seconds)
    try:
        yield
    finally:
        signal.setitimer(signal.ITIMER_REAL, 0)
        signal.signal(signal.SIGALRM, old)
