"""vf — property-based testing / fuzzing framework for the solvOR properties C01–C20."""
