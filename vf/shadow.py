"""Build the tree-under-test from /repo's *current working tree* (DESIGN §2.1).

Every run copies /repo/solvor/**/*.py (no .so, no __pycache__) into a fresh
directory under /verif/.build and puts it first on sys.path, so edits to /repo
are always picked up and a stale extension module lying in /repo is never used.
C12 additionally builds the Rust extension from /repo/rust with cargo (offline)
and drops it into the shadow package.
"""
from __future__ import annotations

import atexit
import os
import shutil
import subprocess
import sys

VERIF = os.path.dirname(os.path.dirname(os.path.abspath(__file__)))
REPO = os.environ.get("VERIF_REPO", "/repo")
BUILD = os.path.join(VERIF, ".build")

_shadow_dir: str | None = None


class HarnessError(Exception):
    """Something is wrong with the machinery, not with solvOR (exit 2)."""


def _ignore(_dir, names):
    return [n for n in names if n == "__pycache__" or n.endswith((".so", ".pyc", ".pyd"))]


def build_shadow(tag: str, with_rust: bool = False, do_import: bool = True) -> str:
    """Copy the package, optionally build the extension, import-check it."""
    global _shadow_dir
    if _shadow_dir is not None:
        return _shadow_dir
    src = os.path.join(REPO, "solvor")
    if not os.path.isdir(src):
        raise HarnessError(f"{src} not found")
    os.makedirs(BUILD, exist_ok=True)
    d = os.path.join(BUILD, f"shadow-{tag}-{os.getpid()}")
    shutil.rmtree(d, ignore_errors=True)
    shutil.copytree(src, os.path.join(d, "solvor"), ignore=_ignore)
    _shadow_dir = d
    owner = os.getpid()

    def _cleanup():
        if os.getpid() == owner:  # forked workers must not delete the parent's tree
            shutil.rmtree(d, ignore_errors=True)

    atexit.register(_cleanup)
    if with_rust:
        so = build_rust()
        shutil.copy(so, os.path.join(d, "solvor", "_solvor_rust.so"))
    sys.path.insert(0, d)
    for k in [k for k in sys.modules if k == "solvor" or k.startswith("solvor.")]:
        del sys.modules[k]
    os.environ["SOLVOR_VERIF"] = "1"  # hooks on (MANIFEST.hooks.guard)
    if not do_import:
        return d
    try:
        import solvor  # noqa: F401
    except Exception as e:  # a tree that does not import is a harness matter
        raise HarnessError(f"shadow copy of solvor does not import: {e!r}")
    if not os.path.abspath(solvor.__file__).startswith(d):
        raise HarnessError(f"solvor imported from {solvor.__file__}, not from the shadow {d}")
    return d


def build_rust() -> str:
    """cargo build --release --offline of the tree's rust/ crate; returns a private copy of the .so.

    The sources are first copied to one fixed place (/verif/.build/rust-src), which gives them fresh
    mtimes: cargo decides freshness by mtime per *package path*, so building different trees
    (/repo, a pinned tree, a mutant) from their own paths into a shared target dir can silently reuse
    the other tree's artefact.  One fixed source path + fresh mtimes + a lock makes every run compile
    exactly the tree under test (dependencies stay cached; the crate itself rebuilds in ~10 s).
    """
    import fcntl

    src = os.path.join(REPO, "rust")
    if not os.path.isfile(os.path.join(src, "Cargo.toml")):
        raise HarnessError("rust/Cargo.toml missing")
    os.makedirs(BUILD, exist_ok=True)
    target = os.path.join(BUILD, "cargo")
    copy = os.path.join(BUILD, "rust-src")
    with open(os.path.join(BUILD, "rust.lock"), "w") as lock:
        fcntl.flock(lock, fcntl.LOCK_EX)
        shutil.rmtree(copy, ignore_errors=True)
        shutil.copytree(src, copy, ignore=shutil.ignore_patterns("target"), copy_function=shutil.copy)
        env = dict(os.environ, CARGO_TARGET_DIR=target, PYO3_PYTHON=sys.executable, CARGO_NET_OFFLINE="true")
        cmd = ["cargo", "build", "--release", "--offline", "--manifest-path", os.path.join(copy, "Cargo.toml")]
        p = subprocess.run(cmd, env=env, capture_output=True, text=True)
        if p.returncode != 0:
            raise HarnessError("cargo build failed:\n" + p.stderr[-3000:])
        so = os.path.join(target, "release", "lib_solvor_rust.so")
        if not os.path.isfile(so):
            raise HarnessError(f"{so} not produced")
        private = os.path.join(BUILD, f"_solvor_rust-{os.getpid()}.so")
        shutil.copy(so, private)
    atexit.register(lambda: os.path.exists(private) and os.getpid() == _owner_pid and os.remove(private))
    return private


_owner_pid = os.getpid()
