"""C14 — SCC, topological order and condensation match their definitions (solvor/scc.py)."""
from __future__ import annotations

from hypothesis import strategies as st

from ..harness import Sub, Violation
from ..oracles import graphs_scc as G

PROPERTY = "C14"
META = {
    "level": "exploration",
    "rule": (
        "Generated digraphs given as (node iterable, neighbour callback): <=8 nodes in the node set (thorough <=11) plus, in a "
        "~15% class, 1-3 vertices outside the node set that neighbours lead to (and that may lead on or back). Six families: "
        "uniform, uniform-dense, dag (forward edges in a hidden order, duplicated edges), dag+1 (dag plus one self loop / "
        "reversed edge / back edge), blocks (planted SCCs: cycle + chords per block, forward edges between blocks), weak "
        "(2-3 disjoint parts). Self loops, duplicate edges, hidden relabelling, shuffled node order and edge (= neighbour) "
        "order, 7 label kinds (int, str, tuple, mixed, frozenset, exotic hashables, hash-colliding ints), 4 iterable kinds "
        "(list, tuple, one-shot generator, dict view / iterator). Oracle: Warshall closure; SCC = exact mutual-reachability "
        "classes of the vertex set spanned from the nodes, listed sinks-first; topological_sort on the subgraph induced on "
        "the node set: acyclic <=> OPTIMAL/FEASIBLE + permutation with every edge forward, any cycle <=> INFEASIBLE; "
        "condense = frozenset SCCs, keys = nodes, successor lists without self/duplicate entries, edge <=> some original "
        "edge joins the two components, result acyclic (outside class: judged on the spanned graph and on the induced "
        "graph, alarm only if wrong under both). Call history: every case owns ONE neighbour-function object over one mutable "
        "adjacency dict; after the first round of the three calls, 0-3 generated edits (add edge / remove edge / add self "
        "loop) are applied in place and after each one all three functions are called again (generated call order) with "
        "the same function object and an equal - or the identical - node sequence, each answer judged on the graph as it "
        "is at that moment (bucket suffix :stale-after-graph-edit when the answer fits an earlier state). Sub-check `edges`: *_edges(backend='python') on 0..n-1 judged by the same "
        "oracle and compared with the callback variants; the same call-history treatment on ONE edge-list object edited in "
        "place (replace / flip an element = same length, append, delete, delete+append, n+1), both wrappers called again with "
        "that very list object after every edit and judged on its content at call time. Non-trivial = >=1 SCC of size >=2 and >=2 SCCs. Distinct = "
        "canonical JSON of the case."
    ),
    "assumptions": [
        "reference Warshall closure and the judges built on it (cross-checked against iterative Kosaraju, colour-DFS "
        "cycle test and per-source BFS in vf.selftest)",
        "a neighbour callback that is total on every vertex reachable from the node set",
    ],
}

FAMILIES = ["uniform", "uniform-dense", "dag", "dag+1", "blocks", "weak"]
_FAMILY_DRAW = FAMILIES + ["blocks"]  # planted SCCs twice as often: they make most of the non-trivial cases
N_SCHEMES = 7
N_ITER = 4
_EXOTIC = [None, -1.5, b"b", "", (), frozenset(), 1e100, "None", (None,), b"", -7, ("z",), 0.5, "0"]


def lab(scheme, i):
    if scheme == 0:
        return i
    if scheme == 1:
        return f"v{i}"
    if scheme == 2:
        return (i // 3, i % 3)
    if scheme == 3:
        return [i, f"n{i}", (i, "x")][i % 3]
    if scheme == 4:
        return frozenset({i, i + 100})
    if scheme == 5:
        return _EXOTIC[i] if i < len(_EXOTIC) else ("z", i)
    return i * (2**61 - 1)  # every label has hash 0 (CPython int hash modulus)


# ----------------------------------------------------------------------------- generator
def _cuts(draw, n, p_true):
    """Split 0..n-1 into consecutive blocks; returns list of lists."""
    if n == 0:
        return []
    marks = draw(st.lists(st.sampled_from(p_true), min_size=n - 1, max_size=n - 1))
    blocks, cur = [], [0]
    for i, cut in enumerate(marks, start=1):
        if cut:
            blocks.append(cur)
            cur = []
        cur.append(i)
    blocks.append(cur)
    return blocks


@st.composite
def digraphs(draw, tier="quick", allow_outside=True, with_edits=False, with_list_edits=False):
    nmax = 11 if tier == "thorough" else 8
    family = draw(st.sampled_from(_FAMILY_DRAW))
    n_in = draw(st.sampled_from([1, 2, 3, 0] + list(range(4, nmax + 1))))
    k = 0
    if allow_outside and draw(st.integers(0, 19)) >= 15:  # 25 % drawn, ~15 % really have a neighbour leaving the node set
        k = draw(st.integers(1, 3))
    N = n_in + k
    V = st.integers(0, max(N - 1, 0))
    edges = []
    if N == 0:
        pass
    elif family in ("uniform", "uniform-dense"):
        lo, hi = (0, 2 * N) if family == "uniform" else (N, 4 * N)
        edges = draw(st.lists(st.tuples(V, V), min_size=lo, max_size=hi))
    elif family in ("dag", "dag+1"):
        raw = draw(st.lists(st.tuples(V, V), max_size=3 * N))
        edges = [(min(a, b), max(a, b)) for a, b in raw if a != b]
        if edges:
            for i in draw(st.lists(st.integers(0, len(edges) - 1), max_size=3)):
                edges.append(edges[i])
        if family == "dag+1":
            kind = draw(st.sampled_from(["self", "reverse", "back"]))
            if kind == "reverse" and edges:
                a, b = edges[draw(st.integers(0, len(edges) - 1))]
                edges.append((b, a))
            elif kind == "back" and N >= 2:
                a, b = draw(st.tuples(V, V))
                if a != b:
                    edges.append((max(a, b), min(a, b)))
                else:
                    edges.append((a, a))
            else:
                v = draw(V)
                edges.append((v, v))
    elif family == "blocks":
        blocks = _cuts(draw, N, [True, False, False])
        of = {}
        for bi, blk in enumerate(blocks):
            for v in blk:
                of[v] = bi
            if len(blk) >= 2:
                ring = draw(st.permutations(blk))
                for i in range(len(ring)):
                    edges.append((ring[i], ring[(i + 1) % len(ring)]))
                for a, b in draw(st.lists(st.tuples(st.sampled_from(blk), st.sampled_from(blk)), max_size=2)):
                    edges.append((a, b))
            elif draw(st.integers(0, 3)) == 0:
                edges.append((blk[0], blk[0]))
        for a, b in draw(st.lists(st.tuples(V, V), max_size=2 * N)):
            if of[a] != of[b]:
                edges.append((a, b) if of[a] < of[b] else (b, a))
                if draw(st.integers(0, 5)) == 0:
                    edges.append(edges[-1])
    else:  # weak: 2-3 (sometimes more) parts without edges between them
        parts = _cuts(draw, N, [True, False, False, False])
        of = {v: pi for pi, p in enumerate(parts) for v in p}
        for a, b in draw(st.lists(st.tuples(V, V), max_size=4 * N)):
            if of[a] == of[b]:
                edges.append((a, b))
    perm = draw(st.permutations(range(N))) if N else []
    edges = [[perm[u], perm[v]] for u, v in edges]
    if 1 < len(edges) <= 60:
        edges = draw(st.permutations(edges))
    outs = set(draw(st.lists(V, min_size=k, max_size=k, unique=True))) if k else set()
    inset = [v for v in range(N) if v not in outs]
    nodes = draw(st.permutations(inset)) if inset else []
    desc = {
        "family": family,
        "N": N,
        "nodes": list(nodes),
        "edges": [list(e) for e in edges],
        "scheme": draw(st.integers(0, N_SCHEMES - 1)),
        "iter": draw(st.integers(0, N_ITER - 1)),
    }
    if with_edits and N:
        # a short call history on ONE neighbour-function object over a mutable adjacency dict (see run_callback)
        edit = st.one_of(
            st.tuples(st.just("add"), V, V),
            st.tuples(st.just("remove"), st.integers(0, 63)),  # index into the current edge list, modulo its length
            st.tuples(st.just("loop"), V),
        )
        desc["edits"] = [list(e) for e in draw(st.lists(edit, max_size=3))]
        desc["reuse_nodes"] = draw(st.booleans())  # hand over the very same list/tuple object on every call
        desc["orders"] = [draw(st.integers(0, 5)), draw(st.integers(0, 5))]  # call order before / after edits
    if with_list_edits:
        # a short call history on ONE edge-list object that is edited in place (see run_edges); vertex numbers
        # and positions are reduced modulo the current n / list length at run time
        W, P = st.integers(0, 15), st.integers(0, 63)
        edit = st.one_of(
            st.tuples(st.just("set"), P, W, W),  # edges[i] = (u, v): same length
            st.tuples(st.just("set"), P, W, W),
            st.tuples(st.just("flip"), P),  # edges[i] = reversed edge: same length
            st.tuples(st.just("append"), W, W),
            st.tuples(st.just("delete"), P),
            st.tuples(st.just("delete-append"), P, W, W),  # two in-place operations, length restored
            st.tuples(st.just("grow")),  # n_nodes + 1 with the same list
        )
        desc["edits"] = [list(e) for e in draw(st.lists(edit, max_size=3))]
        desc["orders"] = [draw(st.integers(0, 1)), draw(st.integers(0, 1))]  # which wrapper first: before / after edits
    return desc


# ----------------------------------------------------------------------------- live objects
def _container(kind, items):
    """The same items in the same order as four different kinds of iterable."""
    items = list(items)
    if kind == 0:
        return items
    if kind == 1:
        return tuple(items)
    if kind == 2:
        return (x for x in items)  # one-shot generator
    return iter(items)


def _nodes_iterable(kind, items):
    if kind == 3:
        return dict.fromkeys(items).keys()  # a view, ordered like the list
    return _container(kind, items)


def _status(res):
    return getattr(getattr(res, "status", None), "name", repr(getattr(res, "status", None)))


def _ids(area, idx, xs):
    out = []
    try:
        it = list(xs)
    except TypeError:
        raise Violation(f"{area}:malformed-output", repr(xs)[:200])
    for x in it:
        try:
            out.append(idx[x])
        except (KeyError, TypeError):
            raise Violation(f"{area}:unknown-node", repr(x)[:200])
    return out


def _judge_scc_result(area, res, idx, N, edges, verts):
    sol = res.solution
    if not isinstance(sol, (list, tuple)):
        raise Violation(f"{area}:malformed-output", repr(sol)[:200])
    comps = [_ids(area, idx, c) for c in sol]
    bad = G.judge_scc(comps, N, edges, verts)
    if bad:
        raise Violation(f"{area}:{bad[0]}", {**bad[1], "components": comps})
    return comps


def _judge_topo_result(area, res, idx, N, edges, verts):
    status = _status(res)
    if status not in ("OPTIMAL", "FEASIBLE", "INFEASIBLE"):
        raise Violation(f"{area}:unexpected-status", status)
    feasible = status != "INFEASIBLE"
    order = None
    if feasible:
        if res.solution is None:
            raise Violation(f"{area}:feasible-without-order", status)
        order = _ids(area, idx, res.solution)
    bad = G.judge_topo(feasible, order, N, edges, verts)
    if bad:
        raise Violation(f"{area}:{bad[0]}", {**bad[1], "status": status})
    return feasible


def _parse_condense(res, idx):
    sol = res.solution
    if not isinstance(sol, (tuple, list)) or len(sol) != 2:
        raise Violation("condense:malformed-output", repr(sol)[:200])
    cnodes, cadj = sol
    if not isinstance(cnodes, (list, tuple)) or not isinstance(cadj, dict):
        raise Violation("condense:malformed-output", repr(sol)[:200])

    def conv(c):
        if not isinstance(c, frozenset):
            raise Violation("condense:node-not-a-frozenset", repr(c)[:200])
        return frozenset(_ids("condense", idx, c))

    nodes = [conv(c) for c in cnodes]
    items = []
    for key, succ in cadj.items():
        try:
            succ = list(succ)
        except TypeError:
            raise Violation("condense:malformed-output", repr(succ)[:200])
        items.append((conv(key), [conv(s) for s in succ]))
    return nodes, items


# ----------------------------------------------------------------------------- sub-check: callback variants
def _judge_condense_result(res, idx, N, edges, nodes, ctx=None):
    node_set = set(nodes)
    span = G.spanned(N, edges, nodes)
    cnodes, citems = _parse_condense(res, idx)
    bad_span = G.judge_condense(cnodes, citems, N, edges, span)
    if bad_span is None:
        return
    readings = {"spanned-graph": list(bad_span)}
    if span != node_set:
        bad_ind = G.judge_condense(cnodes, citems, N, edges, node_set)
        if bad_ind is None:
            if ctx is not None:
                ctx.label("condense-right-on-induced-reading-only")
            return
        readings["induced-on-node-set"] = list(bad_ind)
    raise Violation(
        f"condense:{bad_span[0]}",
        {"wrong-under-every-reading": readings, "nodes": sorted(map(sorted, cnodes)), "adjacency": [[sorted(a), sorted(map(sorted, s))] for a, s in citems]},
    )


_ORDERS = [
    ("scc", "topo", "condense"),
    ("topo", "condense", "scc"),
    ("condense", "scc", "topo"),
    ("scc", "condense", "topo"),
    ("topo", "scc", "condense"),
    ("condense", "topo", "scc"),
]


def _apply_edit(edit, edges):
    """Returns the new ordered edge list (a copy) or None when the edit is a no-op."""
    op = edit[0]
    if op == "add":
        return edges + [(edit[1], edit[2])]
    if op == "loop":
        return edges + [(edit[1], edit[1])]
    if op == "remove":
        if not edges:
            return None
        i = edit[1] % len(edges)
        return edges[:i] + edges[i + 1 :]
    raise AssertionError(f"unknown edit {edit!r}")


def run_callback(desc, ctx):
    from solvor.scc import condense, strongly_connected_components, topological_sort

    N, sch, kind = desc["N"], desc["scheme"], desc["iter"]
    edges = [tuple(e) for e in desc["edges"]]
    nodes = list(desc["nodes"])
    L = [lab(sch, i) for i in range(N)]
    idx = {L[i]: i for i in range(N)}
    if len(idx) != N:
        raise AssertionError("label scheme is not injective")

    # ONE mutable adjacency dict and ONE neighbour-function object for the whole case: graph edits below
    # mutate `adjacency` in place, every call of the three functions gets the same `neighbors`.
    adjacency = {}

    def load(edge_list):
        adjacency.clear()
        for u, v in edge_list:
            adjacency.setdefault(u, []).append(v)

    # labels are built afresh on every call: equal but (except for small ints / interned strings) not
    # identical objects, as a caller computing neighbours on the fly would hand them over
    def neighbors(x):
        return _container(kind, [lab(sch, j) for j in adjacency.get(idx[x], ())])

    shared_nodes = _container(kind, [lab(sch, i) for i in nodes]) if desc.get("reuse_nodes") and kind in (0, 1) else None

    def given_nodes():
        if shared_nodes is not None:
            return shared_nodes
        return _nodes_iterable(kind, [lab(sch, i) for i in nodes])

    node_set = set(nodes)
    span = G.spanned(N, edges, nodes)
    outside = span != node_set
    classes = G.scc_classes(N, edges, span)
    acyclic_in = G.is_acyclic(N, edges, node_set)
    live = [e for e in edges if e[0] in span]
    ctx.label(desc["family"], f"labels-{sch}", f"iter-{kind}", "outside-neighbours" if outside else "closed-node-set")
    ctx.label("induced-acyclic" if acyclic_in else "induced-cyclic")
    ctx.label(
        any(u == v for u, v in live) and "self-loop",
        len(set(live)) < len(live) and "duplicate-edge",
        len(G.weak_components(N, edges, span)) >= 2 and "weak-parts>=2",
        len(nodes) == 0 and "empty-node-set",
        any(len(c) >= 3 for c in classes) and "scc-size>=3",
        outside and any(c & node_set and c - node_set for c in classes) and "scc-mixes-inside-and-outside",
        outside and acyclic_in and not G.is_acyclic(N, edges, span) and "induced-acyclic-but-spanned-cyclic",
    )
    ctx.size("nodes", len(nodes))
    ctx.size("spanned", len(span))
    ctx.size("edges", len(live))
    ctx.size("sccs", len(classes))
    ctx.size("largest-scc", max((len(c) for c in classes), default=0))
    ctx.nontrivial(len(classes) >= 2 and any(len(c) >= 2 for c in classes))

    def judge(which, res, edge_list):
        if which == "scc":  # partition of the vertex set spanned from the nodes, sinks first
            _judge_scc_result("scc", res, idx, N, edge_list, G.spanned(N, edge_list, nodes))
        elif which == "topo":  # the subgraph induced on the node set (implementation: `if w in node_set`)
            _judge_topo_result("topo", res, idx, N, edge_list, node_set)
        else:
            _judge_condense_result(res, idx, N, edge_list, nodes, ctx)

    fns = {"scc": strongly_connected_components, "topo": topological_sort, "condense": condense}
    o0, o1 = desc.get("orders", (0, 0))
    first_round, later_rounds = _ORDERS[o0], _ORDERS[o1]

    load(edges)
    for which in first_round:
        judge(which, ctx.call(fns[which], given_nodes(), neighbors), edges)

    # --- call history: edit the graph behind the SAME neighbour-function object, ask again with an equal
    #     (or the identical) node sequence, judge against the graph as it is now.  An answer that is wrong
    #     now but would have been right for an earlier state of the graph is reported as stale.
    history = [edges]
    for step, edit in enumerate(desc.get("edits", ()), start=1):
        now = _apply_edit(edit, history[-1])
        if now is None:
            continue
        load(now)
        history.append(now)
        ctx.label(f"edit-{edit[0]}")
        ctx.count("calls-after-edit", 3)
        sig_before = (G.scc_classes(N, history[-2], G.spanned(N, history[-2], nodes)), G.is_acyclic(N, history[-2], node_set))
        sig_now = (G.scc_classes(N, now, G.spanned(N, now, nodes)), G.is_acyclic(N, now, node_set))
        ctx.label(sig_before[0] != sig_now[0] and "edit-changes-sccs", sig_before[1] != sig_now[1] and "edit-changes-acyclicity")
        for which in later_rounds:
            res = ctx.call(fns[which], given_nodes(), neighbors)
            try:
                judge(which, res, now)
            except Violation as v:
                stale_for = None
                for back, old in enumerate(reversed(history[:-1]), start=1):
                    try:
                        judge(which, res, old)
                    except Violation:
                        continue
                    stale_for = back
                    break
                suffix = "stale-after-graph-edit" if stale_for else "wrong-after-graph-edit"
                raise Violation(
                    f"{v.bucket}:{suffix}",
                    {"step": step, "edit": edit, "edges-now": [list(e) for e in now], "right-for-state-n-edits-ago": stale_for, "verdict-now": v.detail},
                )


# ----------------------------------------------------------------------------- sub-check: *_edges(backend="python")
def _edit_edge_list(edit, n, elist):
    """Apply one edit IN PLACE to the list object `elist`.  Returns the new n, or None for a no-op."""
    op = edit[0]
    if op == "grow":
        return n + 1
    if op in ("set", "append", "delete-append") and n == 0:
        return None
    if op in ("set", "flip", "delete", "delete-append") and not elist:
        return None
    if op == "set":
        elist[edit[1] % len(elist)] = (edit[2] % n, edit[3] % n)
    elif op == "flip":
        i = edit[1] % len(elist)
        elist[i] = (elist[i][1], elist[i][0])
    elif op == "append":
        elist.append((edit[1] % n, edit[2] % n))
    elif op == "delete":
        del elist[edit[1] % len(elist)]
    elif op == "delete-append":
        del elist[edit[1] % len(elist)]
        elist.append((edit[2] % n, edit[3] % n))
    else:
        raise AssertionError(f"unknown edit {edit!r}")
    return n


def run_edges(desc, ctx):
    from solvor.scc import (
        strongly_connected_components,
        strongly_connected_components_edges,
        topological_sort,
        topological_sort_edges,
    )

    N = desc["N"]
    edges = [tuple(e) for e in desc["edges"]]
    classes = G.scc_classes(N, edges)
    acyclic = G.is_acyclic(N, edges)
    ctx.label(desc["family"], "acyclic" if acyclic else "cyclic", N == 0 and "empty-node-set")
    ctx.label(any(u == v for u, v in edges) and "self-loop", len(set(edges)) < len(edges) and "duplicate-edge")
    ctx.size("nodes", N)
    ctx.size("edges", len(edges))
    ctx.nontrivial(len(classes) >= 2 and any(len(c) >= 2 for c in classes))

    def judge(which, res, n, snapshot):
        idx = {i: i for i in range(n)}
        if which == "scc":
            return _judge_scc_result("edges-scc", res, idx, n, snapshot, set(range(n)))
        return _judge_topo_result("edges-topo", res, idx, n, snapshot, set(range(n)))

    def callback_variants(n, snapshot, got):
        """The callback variants on range(n) + adjacency built here from the snapshot: same meaning."""
        idx = {i: i for i in range(n)}
        succ = [[] for _ in range(n)]
        for u, v in snapshot:
            succ[u].append(v)
        res_c = ctx.call(strongly_connected_components, range(n), lambda s: succ[s])
        comps_c = _judge_scc_result("scc", res_c, idx, n, snapshot, set(range(n)))
        if {frozenset(c) for c in got["scc"]} != {frozenset(c) for c in comps_c}:
            raise Violation("edges-scc:differs-from-callback-variant", {"edges": got["scc"], "callback": comps_c})
        res_c = ctx.call(topological_sort, range(n), lambda s: succ[s])
        feas_c = _judge_topo_result("topo", res_c, idx, n, snapshot, set(range(n)))
        if got["topo"] != feas_c:
            raise Violation("edges-topo:status-differs-from-callback-variant", {"edges-feasible": got["topo"], "callback-feasible": feas_c})

    wrappers = {"scc": strongly_connected_components_edges, "topo": topological_sort_edges}
    order_names = [("scc", "topo"), ("topo", "scc")]
    o0, o1 = desc.get("orders", (0, 0))

    # ONE list object for the whole case; both wrappers always receive this very object
    elist = list(edges)
    n = N
    got = {}
    for which in order_names[o0]:
        got[which] = judge(which, ctx.call(wrappers[which], n, elist, backend="python"), n, list(elist))
    callback_variants(n, list(elist), got)

    # --- call history: edit the list IN PLACE, call the same wrapper and its sibling again with the same list
    #     object, judge against the list's content at call time
    history = [(n, list(elist))]
    for step, edit in enumerate(desc.get("edits", ()), start=1):
        before_len = len(elist)
        n2 = _edit_edge_list(edit, n, elist)
        if n2 is None:
            continue
        n = n2
        now = list(elist)
        history.append((n, now))
        ctx.label(f"edit-{edit[0]}", len(now) == before_len and edit[0] != "grow" and "edit-keeps-length")
        ctx.count("calls-after-edit", 2)
        pn, pe = history[-2]
        ctx.label(
            G.scc_classes(pn, pe) != G.scc_classes(n, now) and "edit-changes-sccs",
            G.is_acyclic(pn, pe) != G.is_acyclic(n, now) and "edit-changes-acyclicity",
        )
        got = {}
        for which in order_names[o1]:
            res = ctx.call(wrappers[which], n, elist, backend="python")
            if elist != now:
                # C14 does not claim that the caller's list stays untouched: a label, and the answer is judged on the
                # list the wrapper was given; later calls see whatever the list contains then
                ctx.label("edges-input-list-modified-by-call")
                elist[:] = now
            try:
                got[which] = judge(which, res, n, now)
            except Violation as v:
                stale_for = None
                for back, (on, oe) in enumerate(reversed(history[:-1]), start=1):
                    try:
                        judge(which, res, on, oe)
                    except Violation:
                        continue
                    stale_for = back
                    break
                suffix = "stale-after-graph-edit" if stale_for else "wrong-after-graph-edit"
                raise Violation(
                    f"{v.bucket}:{suffix}",
                    {"step": step, "edit": edit, "n": n, "edges-now": [list(e) for e in now], "right-for-state-n-edits-ago": stale_for, "verdict-now": v.detail},
                )
        callback_variants(n, now, got)


SUBS = [
    Sub("callback", run_callback, strategy=lambda tier: digraphs(tier, with_edits=True), quick=2500, thorough=6000, workers_quick=4),
    Sub("edges", run_edges, strategy=lambda tier: digraphs(tier, allow_outside=False, with_list_edits=True), quick=1000, thorough=2000, workers_quick=2),
]
