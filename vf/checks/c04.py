"""C04 — MILP answers are integer-feasible and OPTIMAL means proven optimal."""
from __future__ import annotations

import itertools
import os
from fractions import Fraction as Fr
from math import floor

from hypothesis import strategies as st

from ..harness import Inconclusive, Sub, Violation
from ..oracles import lp_exact

PROPERTY = "C04"
META = {
    "level": "exploration",
    "rule": (
        "Generated small MILPs (n<=4 variables, <=4 structural rows with integer data, explicit box rows x_j<=U in ~90% of "
        "cases, every subset of integer variables, min/max) x options (heuristics on/off, lns_iterations 0/1/3/10 with seed, "
        "solution_limit 1/2/3/10, max_nodes default or tiny, warm_start none/oracle-optimal/feasible-non-optimal/infeasible/"
        "fractional/wrong-length). Families: uniform, binary-looking with and without explicit x<=1 rows, and the "
        "constructive 'relaxation inside [0,1]^n but every integer optimum has a coordinate >=2' knapsack-row family. "
        "Oracle: exact enumeration of the integer variables over LP-derived boxes with an exact rational LP for the "
        "continuous remainder. Checks: every returned point (solution and each of solutions) satisfies Ax<=b, x>=0, "
        "integrality (1e-6), objective == c.x, OPTIMAL => objective == exact optimum within gap_tol, INFEASIBLE => no "
        "integer-feasible point, UNBOUNDED => exact relaxation unbounded, FEASIBLE never better than the optimum. "
        "Non-trivial = root relaxation fractional (branching needed) or a warm start/heuristic incumbent in play."
    ),
    "assumptions": ["exact rational LP oracle + integer enumeration", "integer data, so float inputs are exact"],
}


@st.composite
def milps(draw, tier="quick"):
    family = draw(st.sampled_from(["uniform", "uniform", "binary-explicit", "binary-explicit", "binary-implicit", "trap", "mixed-trap", "unboxed", "parallel-objective", "parallel-objective", "binary-knapsack", "binary-knapsack"]))
    if os.environ.get("C04_FAMILY"):  # experiments only: measure one family's hit rate against a seeded change
        family = os.environ["C04_FAMILY"]
    minimize = draw(st.booleans())
    nmax = 5 if tier == "thorough" else 4
    if family == "trap":
        # max c1 x1 + c2 x2, a1 x1 + a2 x2 <= b with a1 > b >= 2 a2, c1/a1 > c2/a2 : LP takes x1=b/a1<1, ILP takes x2=floor(b/a2)>=2
        a2 = draw(st.integers(1, 3))
        bb = draw(st.integers(2 * a2, 3 * a2 + 2))
        a1 = bb + draw(st.integers(1, 4))
        c2 = draw(st.integers(1, 4))
        c1 = (c2 * a1) // a2 + draw(st.integers(1, 3))
        extra = draw(st.integers(0, 2))
        n = 2 + extra
        c = [c1, c2] + [draw(st.integers(0, 1)) for _ in range(extra)]
        A = [[a1, a2] + [draw(st.integers(0, 2)) for _ in range(extra)]]
        b = [bb]
        U = draw(st.integers(2, 4))
        for j in range(n):
            A.append([1 if k == j else 0 for k in range(n)])
            b.append(U)
        # redundant unit rows on x1 (its optimum is 0 anyway), possibly repeated: only x1 is "binary"
        for _ in range(draw(st.sampled_from([0, 0, 1, 2, 3]))):
            A.append([1] + [0] * (n - 1))
            b.append(1)
        for _ in range(draw(st.integers(0, 2))):  # slack rows that do not cut anything
            A.append([draw(st.integers(0, 2)) for _ in range(n)])
            b.append(2 * U * n + draw(st.integers(0, 3)))
        integers = list(range(n)) if draw(st.booleans()) else [0, 1]
        # the family is a maximisation; present it as min of -c half of the time
        if minimize:
            c = [-v for v in c]
    elif family == "mixed-trap":
        # the trap with a CONTINUOUS second variable: max c1 x1 + c2 y, a1 x1 + a2 y <= b, x1 <= 1 (explicit row), x1 integer,
        # a1 > b > a2, c1/a1 > c2/a2: the root LP takes x1 = b/a1 in (0,1) and y = 0 (so the instance "looks binary"),
        # the optimum is x1 = 0, y = b/a2 > 1 - a continuous coordinate above 1 in an instance with explicit binary rows
        a2 = draw(st.integers(1, 3))
        bb = draw(st.integers(a2 + 1, 3 * a2 + 2))
        a1 = bb + draw(st.integers(1, 4))
        c2 = draw(st.integers(1, 4))
        c1 = (c2 * a1) // a2 + draw(st.integers(1, 3))
        extra = draw(st.integers(0, 2))
        n = 2 + extra
        c = [c1, c2] + [draw(st.integers(0, 1)) for _ in range(extra)]
        A = [[a1, a2] + [draw(st.integers(0, 2)) for _ in range(extra)]]
        b = [bb]
        integers = [0] + [j for j in range(2, n) if draw(st.booleans())]
        for j in range(n):
            A.append([1 if k == j else 0 for k in range(n)])
            b.append(1 if j in integers else draw(st.integers(2, 6)))
        for _ in range(draw(st.integers(0, 2))):  # slack rows that do not cut anything
            A.append([draw(st.integers(0, 2)) for _ in range(n)])
            b.append(12 * n + draw(st.integers(0, 3)))
        if minimize:
            c = [-v for v in c]
    elif family == "parallel-objective":
        # the objective is (minus) a constraint row with non-dyadic divisors (3, 5, 7): the LP optimum is the whole
        # face a.x = b, its value is an integer that the float simplex reaches as b +- 1e-15, its vertices are fractional
        n = draw(st.integers(2, 3))
        row = [draw(st.sampled_from([-3, 3, 3, 5, -5, 7, 1, -1, 2])) for _ in range(n)]
        bb = draw(st.integers(1, 12))
        A = [row]
        b = [bb]
        for _ in range(draw(st.integers(0, 2))):
            A.append([draw(st.integers(-3, 5)) for _ in range(n)])
            b.append(draw(st.integers(2, 14)))
        U = draw(st.integers(2, 4))
        for j in range(n):
            A.append([1 if k == j else 0 for k in range(n)])
            b.append(U)
        integers = list(range(n)) if draw(st.booleans()) else [j for j in range(n) if draw(st.booleans())] or [0]
        c = [-v for v in row] if minimize else list(row)  # improving direction is "increase a.x" either way
    elif family == "binary-knapsack":
        # 0/1 programs with 1-2 packing rows, tight capacities and explicit unit rows: the rounding + swap heuristic
        # has to make several successive swaps
        n = draw(st.integers(3, 5))
        A = [[draw(st.integers(0, 5)) for _ in range(n)] for _ in range(draw(st.integers(1, 2)))]
        b = [draw(st.integers(max(1, max(r) - 1), max(2, max(r) - 1, sum(r) // 2 + 1))) for r in A]
        if draw(st.integers(0, 3)) == 0:
            A.append([draw(st.integers(-2, 2)) for _ in range(n)])
            b.append(draw(st.integers(0, 2)))
        for j in range(n):
            A.append([1 if k == j else 0 for k in range(n)])
            b.append(1)
        vals = [draw(st.integers(0, 5)) for _ in range(n)]
        c = [-v for v in vals] if minimize else vals
        integers = list(range(n))
        if draw(st.integers(0, 2)) == 0:  # one continuous variable: LNS sub-problems then return floats, not exact 0/1
            integers.remove(draw(st.integers(0, n - 1)))
    else:
        n = draw(st.integers(1, nmax))
        m = draw(st.integers(1, 4))
        coef = st.integers(-4, 6) if family != "binary-implicit" else st.integers(0, 6)
        A = [[draw(coef) for _ in range(n)] for _ in range(m)]
        b = [draw(st.integers(-3, 14)) for _ in range(m)]
        c = [draw(st.integers(-6, 6)) for _ in range(n)]
        integers = [j for j in range(n) if draw(st.booleans())]
        if family in ("binary-explicit", "binary-implicit") and not integers:
            integers = list(range(n))
        if family == "uniform":
            U = draw(st.integers(1, 4))
            for j in range(n):
                A.append([1 if k == j else 0 for k in range(n)])
                b.append(U)
        elif family == "binary-explicit":
            # half of the cases bound only the integer variables by 1; continuous ones get a wider bound (or the
            # bound 1 as well), so that a continuous coordinate of the optimum can exceed 1 in a "binary" instance
            mixed = draw(st.booleans())
            if mixed and n >= 2 and len(integers) == n:
                integers.remove(draw(st.integers(0, n - 1)))
            for j in range(n):
                A.append([1 if k == j else 0 for k in range(n)])
                b.append(1 if (j in integers or not mixed) else draw(st.sampled_from([2, 3, 5])))
        elif family == "binary-implicit":
            # rows with positive coefficients and small rhs keep the relaxation near [0,1] without explicit x<=1 rows
            for j in range(n):
                A.append([draw(st.integers(1, 3)) if k == j else draw(st.integers(0, 1)) for k in range(n)])
                b.append(draw(st.integers(1, 6)))
        # "unboxed": nothing added
    if draw(st.integers(0, 2)) == 0:
        # extra single-variable rows a*x_j <= b2 (a second, possibly tighter, bound on the same variable)
        for _ in range(draw(st.integers(1, 2))):
            j = draw(st.integers(0, len(c) - 1))
            a = draw(st.integers(1, 3))
            A.append([a if k == j else 0 for k in range(len(c))])
            b.append(draw(st.integers(0, 3 * a)))
    order = draw(st.permutations(range(len(b))))
    A = [A[i] for i in order]
    b = [b[i] for i in order]
    return {
        "family": family,
        "c": c,
        "A": A,
        "b": b,
        "integers": integers,
        "minimize": minimize,
        "heuristics": True if family == "binary-knapsack" else draw(st.booleans()),
        "lns_iterations": draw(st.sampled_from([0, 0, 1, 3, 10])),
        "seed": draw(st.integers(0, 99)),
        "lns_destroy_frac": draw(st.sampled_from([None, None, 0.5, 0.7, 1.0])),
        "solution_limit": draw(st.sampled_from([1, 1, 1, 2, 3, 10])),
        "max_nodes": draw(st.sampled_from([None] * 7 + [1, 2, 5])),
        "warm": "none" if family == "binary-knapsack" and draw(st.integers(0, 3)) else draw(st.sampled_from(["none", "none", "none", "optimal", "feasible", "infeasible", "fractional", "wrong-length", "feasible-but-negative", "feasible-but-fractional", "feasible-but-row-violated", "feasible-mirror-of-root", "feasible-mirror-of-root"])),
        "warm_pick": draw(st.integers(0, 10**6)),
    }


def exact_milp(desc):
    """Returns dict(relax=..., status in {optimal, infeasible, unbounded, unknown}, opt, best, feasible[list of points])."""
    n = len(desc["c"])
    A = [[Fr(v) for v in r] for r in desc["A"]]
    b = [Fr(v) for v in desc["b"]]
    c = [Fr(v) for v in desc["c"]]
    mn = desc["minimize"]
    ints = sorted(desc["integers"])
    cont = [j for j in range(n) if j not in ints]
    relax = lp_exact.lp_simplex(c, A, b, mn)
    out = {"relax": relax[0], "relax_x": relax[2], "relax_val": relax[1], "feasible": []}
    if relax[0] == "infeasible":
        out.update(status="infeasible", opt=None, best=None)
        return out
    # boxes for the integer variables from the exact relaxation
    ranges = []
    for j in ints:
        e = [Fr(1) if k == j else Fr(0) for k in range(n)]
        r = lp_exact.lp_simplex(e, A, b, False)
        if r[0] == "unbounded":
            out.update(status="unbounded" if relax[0] == "unbounded" else "unknown", opt=None, best=None)
            return out
        ranges.append(range(0, floor(r[1]) + 1))
    size = 1
    for r in ranges:
        size *= len(r)
    if size > 50_000:
        out.update(status="unknown", opt=None, best=None)
        return out
    best = None
    best_val = None
    sgn = 1 if mn else -1
    unbounded = False
    for z in itertools.product(*ranges):
        rhs = [b[i] - sum(A[i][j] * z[k] for k, j in enumerate(ints)) for i in range(len(b))]
        if not cont:
            if all(v >= 0 for v in rhs):
                x = [Fr(0)] * n
                for k, j in enumerate(ints):
                    x[j] = Fr(z[k])
                val = sum(ci * xi for ci, xi in zip(c, x))
            else:
                continue
        else:
            sub = lp_exact.lp_simplex([c[j] for j in cont], [[A[i][j] for j in cont] for i in range(len(b))], rhs, mn)
            if sub[0] == "infeasible":
                continue
            if sub[0] == "unbounded":
                unbounded = True
                break
            x = [Fr(0)] * n
            for k, j in enumerate(ints):
                x[j] = Fr(z[k])
            for k, j in enumerate(cont):
                x[j] = sub[2][k]
            val = sub[1] + sum(c[j] * z[k] for k, j in enumerate(ints))
        if len(out["feasible"]) < 400:
            out["feasible"].append((val, x))
        if best_val is None or sgn * val < sgn * best_val:
            best_val, best = val, x
    if unbounded:
        out.update(status="unbounded", opt=None, best=None)
    elif best is None:
        out.update(status="infeasible", opt=None, best=None)
    else:
        out.update(status="optimal", opt=best_val, best=best)
    return out


def warm_start_point(desc, ora):
    n = len(desc["c"])
    kind = desc["warm"]
    pick = desc["warm_pick"]
    if kind == "none":
        return None
    if kind == "wrong-length":
        return [0.0] * (n + 1)
    if kind == "infeasible":
        return [float(100 + (pick % 7))] * n  # violates the boxes / rows in every generated family but 'unboxed'
    if kind == "fractional":
        return [0.5] * n
    if ora["status"] != "optimal":
        return None
    if kind.startswith("feasible-but-"):
        # an almost-feasible point that breaks exactly one clause of feasibility (sign, integrality, a row)
        base = [float(v) for v in (ora["feasible"][pick % len(ora["feasible"])][1] if ora["feasible"] else ora["best"])]
        j = (pick // 7) % n
        if kind == "feasible-but-negative":
            cont = [k for k in range(n) if k not in desc["integers"]]
            j = cont[(pick // 7) % len(cont)] if cont else j
            base[j] = -1.0
        elif kind == "feasible-but-fractional":
            ints = sorted(desc["integers"])
            if not ints:
                return base
            base[ints[(pick // 7) % len(ints)]] += 0.5
        else:
            base[j] += 50.0
        return base
    if kind == "feasible-mirror-of-root":
        # a feasible point whose objective is exactly minus the root relaxation value (sign slips in gap tests)
        if ora["relax_val"] is None:
            return None
        mirror = [x for val, x in ora["feasible"] if val == -ora["relax_val"]]
        if not mirror:
            return None
        return [float(v) for v in mirror[pick % len(mirror)]]
    if kind == "optimal":
        return [float(v) for v in ora["best"]]
    feas = sorted(ora["feasible"], key=lambda t: (t[0], [str(v) for v in t[1]]))
    sgn = 1 if desc["minimize"] else -1
    worse = [x for val, x in feas if sgn * val > sgn * ora["opt"]]
    if not worse:
        return [float(v) for v in ora["best"]]
    return [float(v) for v in worse[pick % len(worse)]]


def check_point(desc, x, where):
    n = len(desc["c"])
    if not isinstance(x, (tuple, list)) or len(x) != n:
        raise Violation("point:shape", {"where": where, "x": repr(x)[:100]})
    for j, v in enumerate(x):
        if not (v >= -1e-6):
            raise Violation("point:negative-variable", {"where": where, "j": j, "x": list(x)})
    for j in desc["integers"]:
        if abs(x[j] - round(x[j])) > 1e-6:
            raise Violation("point:integrality", {"where": where, "j": j, "x": list(x)})
    for i, row in enumerate(desc["A"]):
        lhs = sum(a * v for a, v in zip(row, x))
        if lhs > desc["b"][i] + 1e-6 * (1 + abs(desc["b"][i])):
            raise Violation("point:constraint-violated", {"where": where, "row": i, "lhs": lhs, "b": desc["b"][i], "x": list(x)})


def run(desc, ctx):
    from solvor.milp import solve_milp

    ora = exact_milp(desc)
    ws = warm_start_point(desc, ora)
    kw = dict(minimize=desc["minimize"], heuristics=desc["heuristics"], lns_iterations=desc["lns_iterations"], seed=desc["seed"], solution_limit=desc["solution_limit"])
    if desc["max_nodes"] is not None:
        kw["max_nodes"] = desc["max_nodes"]
    if desc.get("lns_destroy_frac") is not None:
        kw["lns_destroy_frac"] = desc["lns_destroy_frac"]
    if ws is not None:
        kw["warm_start"] = ws
    res = ctx.call(solve_milp, desc["c"], desc["A"], desc["b"], desc["integers"], **kw)
    status = res.status.name
    n = len(desc["c"])
    rx = ora["relax_x"]
    frac_root = rx is not None and any(rx[j].denominator != 1 for j in desc["integers"])
    looks_binary = rx is not None and all(0 <= rx[j] <= 1 for j in desc["integers"])
    ctx.label(
        desc["family"],
        "oracle-" + ora["status"],
        "status-" + status,
        frac_root and "root-fractional",
        looks_binary and frac_root and "looks-binary",
        "warm-" + desc["warm"],
        desc["heuristics"] and "heuristics",
        desc["lns_iterations"] > 0 and "lns",
        desc["solution_limit"] > 1 and "multi-solution",
        desc["max_nodes"] is not None and "tiny-max_nodes",
        len(desc["integers"]) == n and "pure-integer",
        not desc["integers"] and "pure-LP",
    )
    if ora["status"] == "optimal" and looks_binary and any(v >= 2 for j, v in enumerate(ora["best"]) if j in desc["integers"]):
        ctx.label("binary-trap(relaxation-in-[0,1],optimum-outside)")
    ctx.nontrivial(frac_root or (ws is not None and ora["status"] == "optimal"))
    ctx.size("iterations", res.iterations)

    if status in ("OPTIMAL", "FEASIBLE"):
        if res.solution is None:
            raise Violation("verdict:usable-status-without-solution", {"status": status})
        check_point(desc, res.solution, "solution")
        sols = getattr(res, "solutions", None) or ()
        for i, s in enumerate(sols):
            check_point(desc, s, f"solutions[{i}]")
        cx = sum(ci * xi for ci, xi in zip(desc["c"], res.solution))
        if abs(res.objective - cx) > 1e-6 * (1 + abs(cx)):
            raise Violation("objective:not-cx", {"objective": res.objective, "cx": cx})
        if ora["status"] == "infeasible":
            raise Violation("verdict:solution-for-infeasible-instance", {"status": status})
        if ora["status"] == "optimal":
            opt = float(ora["opt"])
            sgn = 1 if desc["minimize"] else -1
            tol = 1e-6 * max(1.0, abs(opt)) + 1e-6
            if sgn * res.objective < sgn * opt - tol:
                raise Violation("objective:better-than-exact-optimum", {"objective": res.objective, "optimum": opt})
            if status == "OPTIMAL" and abs(res.objective - opt) > tol:
                raise Violation("verdict:OPTIMAL-not-optimal", {"objective": res.objective, "optimum": opt, "x": list(res.solution)})
        if ora["status"] == "unbounded" and status == "OPTIMAL":
            raise Violation("verdict:OPTIMAL-on-unbounded-instance", {"objective": res.objective})
    elif status == "INFEASIBLE":
        if ora["status"] in ("optimal", "unbounded"):
            raise Violation("verdict:INFEASIBLE-but-feasible", {"oracle": ora["status"], "opt": str(ora["opt"])})
    elif status == "UNBOUNDED":
        if ora["relax"] != "unbounded":
            raise Violation("verdict:UNBOUNDED-but-relaxation-bounded", {"relaxation": ora["relax"]})
    else:
        raise Inconclusive("status-" + status)


SUBS = [Sub("solve_milp", run, strategy=lambda tier: milps(tier), quick=4000, thorough=12000, workers_quick=4)]
