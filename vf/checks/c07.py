"""C07 — exact cover: selections are exact covers and find_all lists all of them once."""
from __future__ import annotations

import copy

from hypothesis import strategies as st

from .. import budget
from ..harness import Discard, Inconclusive, Sub, Violation
from ..oracles import cover as C

PROPERTY = "C07"
META = {
    "level": "exploration",
    "rule": (
        "Generated 0/1 matrices (<=9x7 quick, <=12x8 thorough; 'tall' family 10..16 (thorough ..20) rows x 4..7 columns) "
        "from four families: uniform random cells with density 0.2..0.6; exact-cover-by-construction (primaries partitioned "
        "into 1-4 blocks, one row per block, plus split / merge / duplicate / sub-block / noise / empty / secondary-only "
        "rows, optionally spoiled into a near miss, rows permuted); 'combi' (rows with 1-3 ones, many overlapping covers); "
        "'tall' (density 0.4..0.6, long cover/uncover sequences); then forced empty rows, duplicate rows, empty columns. "
        "Three families built around secondary columns: 'forced' (every primary column has exactly one candidate row, 3-6 such "
        "rows, 1-3 secondary columns hit by 1-3 of them: unique cover or a clash between possibly non-adjacent rows; up to 11 "
        "columns), 'selector' (random matrix plus a primary column whose 2-3 rows differ only in the secondary columns they "
        "occupy), 'sectrap' (covers and near-covers differing only in secondary usage: with the secondary taken the remaining "
        "primaries are a dead end that needs a real backtrack, with it free they have covers). Secondary "
        "columns none/some/all, given by index (columns omitted) or by name (str, reversed ints, mixed int/str/tuple, explicit "
        "range), list or tuple containers, `secondary` ascending / reversed / shuffled / with repeated names (a few, or padded "
        "to the number of columns and one beyond); find_all on/off; max_solutions in {None,0,1,2,5,1000, m-1, m, m+1} with m the "
        "true number of covers (0 = no cut-off, or an empty list with FEASIBLE); max_iter default, small absolute "
        "(1..30), exactly the number of iterations the unrestricted run needs, or one less. A second sub-check enumerates the "
        "zero-column inputs ([], [[]], [[],[]]); a third one (small_scope) enumerates EVERY 0/1 matrix with <=4 rows x <=4 "
        "columns and 5x2, 6x2 (thorough: also 7x2, 5x3, 6x3, 3x5) with every subset of secondary columns (quick: 4x4 with at most "
        "one secondary column), find_all on and off, and for shapes of at most 9 cells also max_solutions 0 / 1 and every "
        "secondary name listed twice "
        "(blocks of 2048 matrices per case; counter 'matrices'). Oracle: subset DP over the rows with a primary 1 (recursive branching when "
        "more than 12 such rows) + a column-counting validity predicate; both directions for find_all, count/status mapping "
        "for max_solutions, INFEASIBLE iff no cover, MAX_ITER only with a small max_iter, inputs deep-equal afterwards, "
        "second call returns an equal Result. Non-trivial = at least 2 covers, or 0 covers although every primary column "
        "has a candidate row (so at least one backtrack is needed). Distinct = canonical JSON of the case."
    ),
    "assumptions": [
        "reference enumerators (subset DP, recursive branching, itertools definition) agree with each other in vf.selftest",
        "Result.__eq__ (dataclass) compares solution, objective, iterations, evaluations, status",
    ],
}

# Deterministic work limit per solve_exact_cover call (DESIGN §2.4): JUMP|BRANCH events inside solvor/dlx.py.
# Maximum observed on /repo over the calibration runs (quick seeds 1,2,3,7,42 + one thorough run): see ctx.size
# "steps" in the evidence (2.0e3 quick, 3.8e3 thorough); the limit is > 100x that.  A corrupted link ring that loops forever trips any
# finite limit; what a trip means is decided by Sub.hang (set to "violation" by the maintainers of the runner).
STEP_LIMIT = 2_000_000

# max_solutions: None, small constants, the boundary 0, a large value, and values relative to the true number of covers m
# (computed by the reference before solvOR is called): "m", "m-1", "m+1".
KS = [None, 2, 1, 0, "m", None, 5, "m-1", "m+1", 1000, None]
MAX_ITERS = ["default", "abs", "exact", "minus", "default", "default", "default", "abs"]
EXTRA_OPS = ["split", "split", "merge", "dup", "noise", "noise", "sub", "empty", "seconly"]
POST_OPS = ["empty_row", "dup_row", "empty_col"]
FAMILIES = ["planted", "forced", "random", "tall", "sectrap", "planted", "selector", "combi", "random", "tall", "planted", "forced"]


def name_of(scheme, i, n):
    """Column name of column i (of n) under a naming scheme; built at run time, not stored in the case."""
    if scheme in (0, 4):
        return i
    if scheme == 1:
        return f"c{i}"
    if scheme == 2:
        return n - 1 - i  # ints that are valid indices of *other* columns
    return [n - 1 - i, str(i), (i, "x")][i % 3]


def _bits_row(a, ncols, only=None):
    return [1 if (a >> j & 1) and (only is None or j in only) else 0 for j in range(ncols)]


def _forced(draw):
    """Every primary column has exactly one candidate row (a partition of the primaries into 3-6 rows); 1-3 secondary
    columns are hit by 1-3 of those rows each, so the forced selection either is the unique cover or clashes on a
    secondary column (possibly only between rows that are not neighbours in row or column order)."""
    k = draw(st.sampled_from([4, 3, 5, 6]))
    nprim = k + draw(st.sampled_from([0, 1, 0, 2]))
    nsec = draw(st.sampled_from([2, 1, 3]))
    ncols = nprim + nsec
    cols = list(draw(st.permutations(range(ncols))))
    prim, sec = cols[:nprim], cols[nprim:]
    owner = list(range(k)) + draw(st.lists(st.integers(0, k - 1), min_size=nprim - k, max_size=nprim - k))
    rows = [[0] * ncols for _ in range(k)]
    for x, p in enumerate(prim):
        rows[owner[x]][p] = 1
    for s_ in sec:
        hits = draw(st.lists(st.integers(0, k - 1), min_size=1, max_size=3, unique=True))
        for r in hits:
            rows[r][s_] = 1
    for a in draw(st.lists(st.integers(0, (1 << 20) - 1), max_size=2)):  # rows without a primary 1 (never selectable)
        rows.append(_bits_row(a, ncols, only=set(sec)))
    rows = [list(r) for r in draw(st.permutations(rows))]
    return ncols, rows, sorted(sec)


def _selector(draw):
    """A random matrix with 1-2 secondary columns plus a 'selector' primary column whose 2-3 rows differ only in the
    secondary columns they occupy: the same set of open primary columns is then reached with different secondary usage."""
    nr = draw(st.integers(3, 8))
    nc = draw(st.sampled_from([4, 3, 5, 6]))
    thr = draw(st.sampled_from([4, 3, 5]))
    cells = draw(st.lists(st.integers(0, 9), min_size=nr * nc, max_size=nr * nc))
    base = [[1 if cells[i * nc + j] < thr else 0 for j in range(nc)] for i in range(nr)]
    sec = sorted(draw(st.lists(st.integers(0, nc - 1), min_size=1, max_size=2, unique=True)))
    xpos = draw(st.sampled_from([0, 0, 1, 0, 2])) % (nc + 1)
    variants = draw(st.lists(st.lists(st.sampled_from(sec), max_size=2, unique=True).map(sorted), min_size=2, max_size=3, unique_by=tuple))
    rows = [r[:xpos] + [0] + r[xpos:] for r in base]
    sec = [j + (1 if j >= xpos else 0) for j in sec]
    for v in variants:
        row = [0] * (nc + 1)
        row[xpos] = 1
        for j in v:
            row[j + (1 if j >= xpos else 0)] = 1
        rows.insert(draw(st.integers(0, len(rows))), row)
    return nc + 1, rows, sec


def _sectrap(draw):
    """Covers and near-covers that differ only in secondary usage: selector X (rows X+S, X), a block P that is coverable
    either by its own row P+S or by 'bridge' rows {p,q}, a block {q,q2} and a row q2+S.  With S taken by X+S the rest is
    a dead end that needs a real backtrack (no empty column); with S free the same open columns have covers."""
    nbs = draw(st.sampled_from([1, 2]))
    nfree = draw(st.sampled_from([0, 1, 0, 2]))
    nsec = draw(st.sampled_from([1, 2]))
    names = ["X"] + [f"p{i}" for i in range(nbs)] + ["q", "q2"] + [f"f{i}" for i in range(nfree)] + [f"S{i}" for i in range(nsec)]
    R = [["X", "S0"], ["X"], [f"p{i}" for i in range(nbs)] + ["S0"]]
    R += [[f"p{i}", "q"] for i in range(nbs)]
    R += [["q", "q2"], ["q2", "S0"]]
    if nfree:
        R.append([f"f{i}" for i in range(nfree)])
    if nsec > 1:
        flags = draw(st.lists(st.sampled_from([0, 0, 1]), min_size=len(R), max_size=len(R)))
        for r, f in zip(R, flags):
            if f:
                r.append("S1")
    extra = draw(st.sampled_from([0, 0, 1, 2]))
    if extra == 1:
        R.append(["X", "S1" if nsec > 1 else "S0"])
    elif extra == 2:
        R.append(["q"])
    ncols = len(names)
    perm = list(draw(st.permutations(range(ncols)))) if draw(st.sampled_from([True, False])) else list(range(ncols))
    idx = {n: perm[i] for i, n in enumerate(names)}
    rows = [[0] * ncols for _ in R]
    for i, r in enumerate(R):
        for n in r:
            rows[i][idx[n]] = 1
    if draw(st.sampled_from([True, False])):
        rows = [list(r) for r in draw(st.permutations(rows))]
    return ncols, rows, sorted(idx[n] for n in names if n.startswith("S"))


def _sec_arg(draw, ncols, sec):
    """The `secondary=` argument as a list of column indices: the secondary columns in some order, in a visible share of the
    cases with repeated entries (solvOR takes set(secondary), so a repeated name is valid and means nothing new) — a few
    repeats, or padded up to / beyond the number of columns.  None = plain ascending / reversed list (flag sec_rev)."""
    if not sec:
        return None
    mode = draw(st.sampled_from(["plain", "shuffle", "plain", "repeat", "pad", "plain"]))
    if mode == "plain":
        return None
    if mode == "shuffle":
        return list(draw(st.permutations(sec)))
    extra = draw(st.integers(1, 2)) if mode == "repeat" else max(1, ncols - len(sec) + draw(st.integers(0, 1)))
    reps = draw(st.lists(st.sampled_from(sec), min_size=extra, max_size=extra))
    return list(draw(st.permutations(list(sec) + reps)))


def _params(draw, family, ncols, rows, sec):
    return {
        "family": family,
        "ncols": ncols,
        "rows": rows,
        "sec": sec,
        "scheme": draw(st.sampled_from([2, 0, 1, 3, 4, 0])),
        "sec_rev": draw(st.booleans()),
        "sec_arg": _sec_arg(draw, ncols, sec),
        "sec_empty_as_list": draw(st.booleans()),
        "containers": draw(st.integers(0, 3)),
        "find_all": draw(st.sampled_from([True, False])),
        "k": draw(st.sampled_from(KS)),
        "mi": draw(st.sampled_from(MAX_ITERS)),
        "miv": draw(st.integers(1, 30)),
    }


@st.composite
def instances(draw, tier="quick"):
    thorough = tier == "thorough"
    rmax, cmax = (12, 8) if thorough else (9, 7)
    family = draw(st.sampled_from(FAMILIES))
    if family in ("forced", "selector", "sectrap"):
        ncols, rows, sec = {"forced": _forced, "selector": _selector, "sectrap": _sectrap}[family](draw)
        return _params(draw, family, ncols, rows, sec)
    # (Hypothesis favours the first element of sampled_from, so the plain choice is never listed first)
    if family == "tall":
        ncols = draw(st.sampled_from([5, 4, 6, 7]))
    else:
        ncols = draw(st.sampled_from([c for c in (5, 4, 6, 3, 7, 8, 2, 1) if c <= cmax and (c > 1 or family != "combi")]))
    seckind = draw(st.sampled_from(["some", "none", "some", "none", "some", "none", "some", "none", "some", "none", "all"]))
    if seckind == "none":
        sec = []
    elif seckind == "all":
        sec = list(range(ncols))
    else:
        flags = draw(st.lists(st.sampled_from([0, 0, 1]), min_size=ncols, max_size=ncols))
        if not any(flags):
            flags[draw(st.integers(0, ncols - 1))] = 1
        sec = [j for j in range(ncols) if flags[j]]
    prim = [j for j in range(ncols) if j not in sec]
    big = st.integers(0, (1 << 20) - 1)

    if family == "planted" and not prim:
        family = "random"
    if family in ("random", "tall"):
        if family == "tall":  # many rows over few columns: long cover/uncover sequences before a backtrack
            nrows = draw(st.integers(10, 20 if thorough else 16))
            thr = draw(st.sampled_from([5, 4, 6]))
        else:
            nrows = draw(st.integers(1, rmax))
            thr = draw(st.sampled_from([4, 3, 5, 2, 6]))
        cells = draw(st.lists(st.integers(0, 9), min_size=nrows * ncols, max_size=nrows * ncols))
        rows = [[1 if cells[i * ncols + j] < thr else 0 for j in range(ncols)] for i in range(nrows)]
    elif family == "combi":
        extra = 4 if thorough else 2
        sets = draw(st.lists(st.lists(st.integers(0, ncols - 1), min_size=1, max_size=3), min_size=1, max_size=rmax + extra))
        rows = [[1 if j in s else 0 for j in range(ncols)] for s in sets]
    else:
        nb = draw(st.integers(1, min(4, len(prim))))
        pp = list(draw(st.permutations(prim)))
        assign = draw(st.lists(st.integers(0, nb - 1), min_size=len(pp), max_size=len(pp)))
        for b in range(nb):
            assign[b] = b
        secassign = draw(st.lists(st.integers(-1, nb - 1), min_size=len(sec), max_size=len(sec)))
        bprim = [[pp[x] for x in range(len(pp)) if assign[x] == b] for b in range(nb)]
        bsec = [[sec[x] for x in range(len(sec)) if secassign[x] == b] for b in range(nb)]
        rows = [[1 if j in bprim[b] or j in bsec[b] else 0 for j in range(ncols)] for b in range(nb)]
        extras = draw(st.lists(st.tuples(st.sampled_from(EXTRA_OPS), big, big), max_size=rmax - nb))
        for op, a, b2 in extras:
            room = rmax - len(rows)
            if room <= 0:
                break
            if op == "split":
                b = a % nb
                ps = bprim[b]
                if len(ps) < 2 or room < 2:
                    continue
                part = [p for x, p in enumerate(ps) if b2 >> x & 1]
                if not part or len(part) == len(ps):
                    part = ps[:1]
                rest = [p for p in ps if p not in part]
                rows.append([1 if j in part or j in bsec[b] else 0 for j in range(ncols)])
                rows.append([1 if j in rest else 0 for j in range(ncols)])
            elif op == "merge":
                if nb < 2:
                    continue
                b = a % nb
                c = (b + 1 + b2 % (nb - 1)) % nb
                rows.append([1 if rows[b][j] or rows[c][j] else 0 for j in range(ncols)])
            elif op == "dup":
                rows.append(list(rows[a % len(rows)]))
            elif op == "noise":
                rows.append(_bits_row(a & (b2 | a >> 10), ncols))
            elif op == "sub":
                b = a % nb
                rows.append([1 if j == bprim[b][b2 % len(bprim[b])] else 0 for j in range(ncols)])
            elif op == "empty":
                rows.append([0] * ncols)
            else:
                rows.append(_bits_row(a, ncols, only=set(sec)))
        broken = draw(st.sampled_from([0, 0, 1, 0, 2]))
        if broken:  # near miss: spoil one block row, so the planted cover is gone but every column keeps candidates
            b = draw(st.integers(0, nb - 1))
            if broken == 1 and len(bprim[b]) >= 2:
                rows[b][bprim[b][0]] = 0
                rows.append([1 if j == bprim[b][0] or j in bprim[(b + 1) % nb][:1] else 0 for j in range(ncols)])
            elif nb >= 2:
                rows[b][bprim[(b + 1) % nb][0]] = 1
        rows = [list(r) for r in draw(st.permutations(rows))]

    npost = draw(st.sampled_from([0, 1, 0, 2, 0] if family != "planted" else [0, 0, 1, 0]))
    post = draw(st.lists(st.tuples(st.sampled_from(POST_OPS), big, big), min_size=npost, max_size=npost))
    for op, a, b2 in post:
        if op == "empty_row":
            rows[a % len(rows)] = [0] * ncols
        elif op == "dup_row":
            rows[b2 % len(rows)] = list(rows[a % len(rows)])
        else:
            j = a % ncols
            for r in rows:
                r[j] = 0

    return _params(draw, family, ncols, rows, sec)


# ----------------------------------------------------------------------------- validation shared by both sub-checks
def _as_selection(x, what):
    if not isinstance(x, (tuple, list)):
        raise Violation(f"{what}:selection-not-a-sequence", repr(x)[:200])
    return list(x)


def validate(res, *, rows, primary, ncols, ref, find_all, k, small_iter, max_iter, pre=""):
    """Everything C07 says about one Result, given the reference set of covers `ref`."""
    from solvor.types import Status

    m = len(ref)
    status = res.status
    if status not in (Status.OPTIMAL, Status.FEASIBLE, Status.INFEASIBLE, Status.MAX_ITER):
        raise Violation(f"{pre}status:unexpected", repr(status))
    sol = res.solution

    # 1. every returned selection is an exact cover (this holds for partial lists under MAX_ITER too)
    if sol is None:
        sels = []
    elif find_all:
        if not isinstance(sol, (list, tuple)):
            raise Violation(f"{pre}find_all:solution-not-a-list", repr(sol)[:200])
        sels = [_as_selection(s, pre + "find_all") for s in sol]
    else:
        sels = [_as_selection(sol, pre + "single")]
    for s in sels:
        bad = C.violations(s, rows, primary, ncols)
        if bad:
            raise Violation(f"{pre}cover:{bad[0][0]}", {"selection": s, "problems": bad[:4]})
    fs = [frozenset(s) for s in sels]
    if len(set(fs)) != len(fs):
        raise Violation(f"{pre}find_all:duplicate-solution", {"solutions": [sorted(s) for s in sels]})
    for s in fs:  # the two oracles agree on what a cover is; kept as a guard of the harness itself
        if s not in ref:
            raise Violation(f"{pre}find_all:extra-solution", {"selection": sorted(s)})

    # 2. status
    if status == Status.MAX_ITER:
        if not small_iter:
            raise Violation(f"{pre}status:max-iter-with-default-limit", {"iterations": res.iterations})
        if isinstance(res.iterations, int) and res.iterations < max_iter:
            raise Violation(f"{pre}status:max-iter-before-limit", {"iterations": res.iterations, "max_iter": max_iter})
        return "max-iter"
    if status == Status.INFEASIBLE:
        if m:
            raise Violation(f"{pre}status:infeasible-but-cover-exists", {"a_cover": sorted(min(ref, key=sorted)), "covers": m})
        return "infeasible"
    if m == 0:
        # reachable only with solution None and an ok status (anything else was an invalid cover above)
        raise Violation(f"{pre}status:ok-but-no-cover-exists", {"status": status.name, "solution": repr(sol)[:100]})
    if sol is None:
        raise Violation(f"{pre}status:ok-without-solution", {"status": status.name, "covers": m})

    # 3. completeness / counts
    if not find_all:
        return "single"
    if k == 0:
        # max_solutions=0.  Docstring: "Stop after finding this many solutions"; the code tests `if max_solutions and ...`,
        # so 0 behaves like None.  Accepted readings: (a) "no cut-off" = the observed contract: all covers, OPTIMAL — handled
        # by falling through to the k-is-None branch; (b) "a limit of zero": an empty LIST with the cut-off status FEASIBLE
        # (nothing wrong is claimed: covers exist, none were asked for).  Not accepted under any reading: INFEASIBLE or
        # solution None while covers exist (both already rejected above: "INFEASIBLE is reported exactly when no cover
        # exists"), or a non-empty proper subset of the covers.
        if not fs and isinstance(sol, (list, tuple)):
            if status != Status.FEASIBLE:
                raise Violation(f"{pre}status:empty-list-for-max_solutions-0-not-feasible", {"status": status.name, "covers": m})
            return "cut"
        k = None
    if k is None:
        if set(fs) != ref:
            missing = sorted(sorted(s) for s in ref - set(fs))
            raise Violation(f"{pre}find_all:missing-solution", {"missing": missing[:5], "returned": len(fs), "covers": m})
        if status != Status.OPTIMAL:
            raise Violation(f"{pre}status:complete-find_all-not-optimal", status.name)
        return "all"
    want = min(k, m)
    if len(fs) != want:
        raise Violation(f"{pre}max_solutions:count", {"returned": len(fs), "k": k, "covers": m})
    if m < k and status != Status.OPTIMAL:
        raise Violation(f"{pre}status:all-found-below-max_solutions-not-optimal", {"status": status.name, "k": k, "covers": m})
    if m > k and status != Status.FEASIBLE:
        raise Violation(f"{pre}status:cut-off-not-feasible", {"status": status.name, "k": k, "covers": m})
    return "cut" if m > k else "all"


def reference(rows_m, prim, sec):
    if len(C.eligible(rows_m, prim)) <= 12:
        return C.covers_subsets(rows_m, prim, sec)
    return C.covers_recursive(rows_m, prim, sec)


# ----------------------------------------------------------------------------- main sub-check
def run(desc, ctx):
    from solvor import dlx
    from solvor.types import Result

    budget.instrument(dlx)

    def solve_exact_cover(*a, **k):
        with budget.steps(STEP_LIMIT) as s:
            r = dlx.solve_exact_cover(*a, **k)
        ctx.size("steps", s.count)
        return r

    ncols, rows, sec = desc["ncols"], desc["rows"], list(desc["sec"])
    if not rows or any(len(r) != ncols for r in rows) or ncols < 1:
        raise Discard()
    nrows = len(rows)
    scheme, cont = desc["scheme"], desc["containers"]
    primary = [j for j in range(ncols) if j not in sec]

    def build():
        if cont == 0:
            matrix = [list(r) for r in rows]
        elif cont == 1:
            matrix = tuple(tuple(r) for r in rows)
        else:
            matrix = [tuple(r) for r in rows]
        kw = {}
        if scheme != 0:
            names = [name_of(scheme, i, ncols) for i in range(ncols)]
            kw["columns"] = tuple(names) if cont == 3 else names
        order = desc.get("sec_arg") or (sec[::-1] if desc["sec_rev"] else sec)
        secnames = [name_of(scheme, j, ncols) for j in order]
        if secnames:
            kw["secondary"] = tuple(secnames) if cont in (1, 3) else secnames
        elif desc["sec_empty_as_list"]:
            kw["secondary"] = []
        if desc["find_all"]:
            kw["find_all"] = True
        if k is not None:
            kw["max_solutions"] = k
        return matrix, kw

    # the oracle runs first: "m", "m-1", "m+1" place max_solutions at the true number of covers
    rows_m, pm, sm = C.masks(rows, primary)
    ref = reference(rows_m, pm, sm)
    m = len(ref)
    k = desc["k"]
    if isinstance(k, str):
        k = {"m": m, "m-1": m - 1, "m+1": m + 1}[k]
        if k < 0:
            k = 1
    if desc.get("sec_arg") is not None and set(desc["sec_arg"]) != set(sec):
        raise Discard()
    matrix, kw = build()
    mi = desc["mi"]
    small = mi != "default"
    max_iter = 10_000_000
    if mi == "abs":
        max_iter = desc["miv"]
    elif small:
        m0, kw0 = build()
        r0 = ctx.call(solve_exact_cover, m0, **kw0)
        n0 = r0.iterations if isinstance(r0.iterations, int) and r0.iterations >= 1 else 1
        max_iter = n0 if mi == "exact" else max(1, n0 - 1)
    if small:
        kw["max_iter"] = max_iter
    snap_m, snap_kw = copy.deepcopy(matrix), copy.deepcopy(kw)

    res = ctx.call(solve_exact_cover, matrix, **kw)

    # classification of the case
    el = C.eligible(rows_m, pm)
    sa = desc.get("sec_arg")
    empty_rows = sum(1 for r in rows_m if r == 0)
    dup = len(set(rows_m)) < nrows
    colsum = [sum(r[j] for r in rows) for j in range(ncols)]
    empty_prim_col = any(colsum[j] == 0 for j in primary)
    ctx.label(
        "fam-" + desc["family"],
        f"names-{scheme}",
        "sec-none" if not sec else ("sec-all" if not primary else "sec-some"),
        empty_rows and "empty-row",
        dup and "duplicate-rows",
        any(c == 0 for c in colsum) and "empty-column",
        empty_prim_col and "empty-primary-column",
        any(colsum[j] == 0 for j in sec) and "empty-secondary-column",
        any(r and not (r & pm) for r in rows_m) and "row-with-secondaries-only",
        "find_all" if desc["find_all"] else "single",
        f"k-{desc['k']}",
        f"max_iter-{mi}",
        "covers-0" if m == 0 else "covers-1" if m == 1 else "covers-2..5" if m <= 5 else "covers-6+",
        desc["find_all"] and k == 0 and m and "k-zero-with-covers",
        desc["find_all"] and k and (m > k and "k-cuts" or m == k and "k-equals-covers" or m and "k-above-covers"),
        sa is not None and (len(sa) > len(sec) and "secondary-repeated" or "secondary-shuffled"),
        sa is not None and primary and len(sa) >= ncols and "secondary-list-as-long-as-columns",
        len(el) > 12 and "recursive-reference",
    )
    dead_end = m == 0 and bool(primary) and not empty_prim_col
    ctx.label(dead_end and "infeasible-with-backtrack")
    ctx.nontrivial(m >= 2 or dead_end)
    ctx.size("rows", nrows)
    ctx.size("cols", ncols)
    ctx.size("covers", m)
    ctx.size("eligible_rows", len(el))

    if not isinstance(res, Result):
        raise Violation("result:not-a-Result", repr(res)[:200])
    outcome = validate(res, rows=rows, primary=primary, ncols=ncols, ref=ref, find_all=desc["find_all"], k=k, small_iter=small, max_iter=max_iter)
    ctx.label("out-" + outcome, small and outcome != "max-iter" and "small-max_iter-finished")

    # input not modified (same values, same container types)
    if matrix != snap_m or type(matrix) is not type(snap_m) or any(type(a) is not type(b) for a, b in zip(matrix, snap_m)):
        raise Violation("input:matrix-modified", {"before": snap_m, "after": matrix})
    if kw != snap_kw or any(type(kw[x]) is not type(snap_kw[x]) for x in kw):
        raise Violation("input:arguments-modified", {"before": repr(snap_kw), "after": repr(kw)})

    # same answer on the second call with the very same objects
    res2 = ctx.call(solve_exact_cover, matrix, **kw)
    if res2 != res:
        raise Violation(
            "determinism:second-call-differs",
            {"first": [repr(res.solution)[:300], res.status.name, res.iterations], "second": [repr(res2.solution)[:300], res2.status.name, res2.iterations]},
        )
    if matrix != snap_m or kw != snap_kw:
        raise Violation("input:modified-by-second-call", None)

    if outcome == "max-iter":
        raise Inconclusive("MAX_ITER with a small generated max_iter")


# ----------------------------------------------------------------------------- zero-column inputs (exhaustive)
def zero_cases(tier):
    for nrows in (0, 1, 2):
        for cont in (0, 1):
            for find_all in (False, True):
                for k in (None, 0, 1, 2):
                    for cols in (None, "empty"):
                        for secs in (None, "empty"):
                            yield {"zero": True, "nrows": nrows, "containers": cont, "find_all": find_all, "k": k, "columns": cols, "secondary": secs}


def run_zero(desc, ctx):
    """A matrix without columns has exactly one exact cover: the empty selection."""
    from solvor.dlx import solve_exact_cover

    n = desc["nrows"]
    matrix = [[] for _ in range(n)] if desc["containers"] == 0 else tuple(() for _ in range(n))
    kw = {}
    if desc["columns"] == "empty":
        kw["columns"] = []
    if desc["secondary"] == "empty":
        kw["secondary"] = []
    if desc["find_all"]:
        kw["find_all"] = True
    if desc["k"] is not None:
        kw["max_solutions"] = desc["k"]
    snap_m, snap_kw = copy.deepcopy(matrix), copy.deepcopy(kw)
    res = ctx.call(solve_exact_cover, matrix, **kw)
    ctx.label(f"rows-{n}", "find_all" if desc["find_all"] else "single", f"k-{desc['k']}")
    validate(res, rows=[list(r) for r in matrix], primary=[], ncols=0, ref={frozenset()}, find_all=desc["find_all"], k=desc["k"], small_iter=False, max_iter=10_000_000, pre="zero-cols:")
    if matrix != snap_m or kw != snap_kw:
        raise Violation("zero-cols:input-modified", None)
    if ctx.call(solve_exact_cover, matrix, **kw) != res:
        raise Violation("zero-cols:second-call-differs", None)


# ----------------------------------------------------------------------------- small scope, exhaustive
# Every 0/1 matrix of the listed shapes x every subset of secondary columns, find_all on and off, default names.
# One "case" is a block of up to SMALL_BLOCK consecutive matrices (cell (i,j) = bit i*ncols+j of the code), so that the
# per-case overhead of the harness is paid once per block; the number of matrices is in the counter "matrices".
SMALL_BLOCK = 2048
SMALL_EXTRA_CELLS = 9  # shapes with at most this many cells also get the argument-boundary calls (about 8e3 matrices)
SMALL_STEP_LIMIT = 200_000  # per call; the largest count on /repo for these shapes is below 1 000 events (>= 200x margin)
SMALL_SHAPES = {
    "quick": [(r, c) for r in range(1, 5) for c in range(1, 5)] + [(5, 2), (6, 2)],  # 4.6e5 matrices (4x4: <=1 secondary)
    "thorough": [(r, c) for r in range(1, 5) for c in range(1, 5)] + [(5, 2), (6, 2), (7, 2), (5, 3), (6, 3), (3, 5)],  # 4.6e6
}


def small_cases(tier):
    for r, c in SMALL_SHAPES["thorough" if tier == "thorough" else "quick"]:
        total = 1 << (r * c)
        for secmask in range(1 << c):
            if tier != "thorough" and r * c >= 16 and bin(secmask).count("1") > 1:
                continue  # quick tier: 4x4 with at most one secondary column (the thorough tier takes all 16 subsets)
            for start in range(0, total, SMALL_BLOCK):
                yield {"small": True, "nrows": r, "ncols": c, "secmask": secmask, "start": start, "count": min(SMALL_BLOCK, total - start)}


def run_small(desc, ctx):
    from solvor import dlx
    from solvor.types import Status

    budget.instrument(dlx)  # a corrupted link ring must not stall a whole block until the wall-clock backstop

    def solve_exact_cover(matrix, **kw):
        try:
            with budget.steps(SMALL_STEP_LIMIT):
                return dlx.solve_exact_cover(matrix, **kw)
        except budget.StepBudgetExceeded:
            raise Violation("small:does-not-return:step-budget-exceeded", {"matrix": [list(x) for x in matrix], "kwargs": repr(kw), "limit": SMALL_STEP_LIMIT})

    r, c, secmask = desc["nrows"], desc["ncols"], desc["secmask"]
    full = (1 << c) - 1
    pm, sm = full & ~secmask, secmask
    sec = [j for j in range(c) if secmask >> j & 1]
    primary = [j for j in range(c) if not secmask >> j & 1]
    kw = {"secondary": sec} if sec else {}
    ctx.label(f"shape-{r}x{c}", "sec-none" if not sec else "sec-all" if not primary else "sec-some")
    multi = 0
    for code in range(desc["start"], desc["start"] + desc["count"]):
        rows_m = [(code >> (i * c)) & full for i in range(r)]
        ref = C.covers_subsets(rows_m, pm, sm)
        rows = [[m >> j & 1 for j in range(c)] for m in rows_m]
        matrix = [list(x) for x in rows]
        ra = ctx.call(solve_exact_cover, matrix, find_all=True, **kw)
        r1 = ctx.call(solve_exact_cover, matrix, **kw)
        multi += len(ref) >= 2
        # fast path: exactly the reference set / one member of it, documented statuses, input untouched
        sa = ra.solution
        ok = matrix == rows
        if ref:
            ok = ok and ra.status == Status.OPTIMAL and isinstance(sa, list) and len(sa) == len(ref) and {frozenset(x) for x in sa} == ref
            ok = ok and all(len(set(x)) == len(x) for x in sa)
            s1 = r1.solution
            ok = ok and r1.status in (Status.OPTIMAL, Status.FEASIBLE) and isinstance(s1, tuple) and len(set(s1)) == len(s1) and frozenset(s1) in ref
        else:
            ok = ok and ra.status == Status.INFEASIBLE and r1.status == Status.INFEASIBLE
        if not ok:  # slow path: the shared validator names the clause; the detail carries a stand-alone exact_cover case
            as_case = {"family": "small", "ncols": c, "rows": rows, "sec": sec, "scheme": 0, "sec_rev": False, "sec_empty_as_list": False,
                       "containers": 0, "find_all": True, "k": None, "mi": "default", "miv": 1}
            for res, fa in ((ra, True), (r1, False)):
                try:
                    validate(res, rows=rows, primary=primary, ncols=c, ref=ref, find_all=fa, k=None, small_iter=False, max_iter=10_000_000, pre="small:")
                except Violation as v:
                    raise Violation(v.bucket, {"matrix": rows, "secondary": sec, "find_all": fa, "why": v.detail, "exact_cover_case": dict(as_case, find_all=fa)})
            if matrix != rows:
                raise Violation("small:input-modified", {"matrix": rows, "secondary": sec})
            raise Violation("small:fast-and-slow-path-disagree", {"matrix": rows, "secondary": sec})
        if r * c <= SMALL_EXTRA_CELLS:
            # argument boundaries on the smallest shapes: max_solutions 0 and 1, every secondary name listed twice
            extras = [({"max_solutions": 0}, 0), ({"max_solutions": 1}, 1)]
            if sec:
                extras.append(({"secondary": sec + sec[::-1]}, None))
            for more, kk in extras:
                kw2 = dict(kw, find_all=True, **more)
                res = ctx.call(solve_exact_cover, matrix, **kw2)
                try:
                    validate(res, rows=rows, primary=primary, ncols=c, ref=ref, find_all=True, k=kk, small_iter=False, max_iter=10_000_000, pre="small:")
                except Violation as v:
                    raise Violation(v.bucket, {"matrix": rows, "kwargs": repr(kw2), "why": v.detail})
    ctx.count("matrices", desc["count"])
    ctx.nontrivial(multi > 0)
    ctx.size("matrices_with_2+_covers_in_block", multi)


SUBS = [
    Sub("exact_cover", run, strategy=lambda tier: instances(tier), quick=2500, thorough=8000, workers_quick=4, case_timeout=20.0, hang="violation"),
    Sub("zero_columns", run_zero, enumerate=zero_cases, workers_quick=1, workers_thorough=1),
    Sub("small_scope", run_small, enumerate=small_cases, workers_quick=8, workers_thorough=16, case_timeout=120.0),
]
AMPLIFY = [("exact_cover", 15000, 4)]  # thorough-tier coverage-guided amplifier (vf/fuzz.py)
