"""C15 — cut vertices, bridges, k-cores, PageRank and Louvain obey their definitions.

Four sub-checks.  The undirected three share one generator of *listed* graphs: what the
neighbour function returns for every node (one-sided listings, duplicates, self loops,
shuffled), the node iteration order and a label scheme.  The oracles (vf/oracles/graphs_und.py)
work on the symmetrised simple loop-free graph on indices 0..n-1.

Every case is a short call history on ONE live graph (class Live): a mutable dict of neighbour lists, one
neighbour-function object over it, `nodes` handed over as a fresh iterable of a generated kind (list, tuple,
dict-keys view, set, generator, iter(list), range/map) for every call; after the first round of calls 0-2
generated edits (add an edge from both ends / from one end, remove an edge) are applied in place and the same
functions are called again with the same function object, judged against the oracle of the edited graph.
The neighbour function hands out the stored container itself (list / tuple / set / frozenset; or a fresh
generator), in `shared` mode the identical object for nodes with equal neighbourhoods; each call is judged
against the graph the containers describe at the moment of the call.  Label schemes include colliding hashes
(-1/-2, tuples of them, a class with a constant __hash__).
"""
from __future__ import annotations

import functools
import math
from fractions import Fraction

from hypothesis import strategies as st

from ..harness import Inconclusive, Sub, Violation
from ..oracles import graphs_und as G

PROPERTY = "C15"
META = {
    "level": "exploration",
    "rule": (
        "Undirected graphs on <=9 nodes (<=12 thorough) given by neighbour functions: families uniform (random pairs incl. "
        "self loops), blocks (cycles/cliques/paths/single edges glued at cut vertices, several components, isolated nodes), "
        "dense (complete minus a few pairs), shells (clique core + nodes hung onto 0-3 earlier nodes: nested cores) and "
        "forest+chords; every edge is listed from both sides, from one side only, or mixed; optional "
        "duplicate listings and self loops; neighbour lists, node order and index->label assignment are shuffled; labels all "
        "ints, all strs, all tuples, signed ints from -2 (hash(-1)==hash(-2)), tuples (-1,c)/(-2,c) (colliding hashes) or "
        "instances of an orderable class with a constant __hash__; the neighbour function returns the stored container itself "
        "(list/tuple/set/frozenset) or a fresh generator, and in `shared` mode (50%) nodes with equal neighbourhoods hold the "
        "identical container object (twins / 'everybody lists everybody' groups are generated for that); every call is judged "
        "against the graph as the containers describe it at call time (a container changed by solvOR is a label); `nodes` is passed as "
        "list/tuple/dict-keys/set/generator/iter/range-or-map (fresh per call); ~30% of the cases continue with 1-2 in-place "
        "edits of the live graph (add edge both/one-sided, remove edge) and repeat the calls with the same neighbour-function "
        "object, judged against the edited graph (bucket *:stale-after-graph-edit when the old answer is repeated). "
        "Oracle on the symmetrised simple "
        "loop-free graph: cut vertices and bridges by deletion + BFS component count, core numbers by literal repeated "
        "deletion, modularity sum_c[L_c/m - gamma(d_c/2m)^2] in Fractions. PageRank: digraphs with dangling nodes, self "
        "loops, duplicate arcs, damping in [0.05,0.95], tol in {1e-6,1e-9}, max_iter small or ample; exact fixed point in "
        "Fractions (Gaussian elimination); OPTIMAL => L1 distance <= n*tol*d/(1-d)+1e-12 to the multigraph or the "
        "simple-graph fixed point. Non-trivial (undirected) = graph has >=1 cut vertex or bridge and >=1 cycle; "
        "(PageRank) = >=1 dangling node and >=1 directed cycle and status OPTIMAL. Distinct = canonical JSON of the case."
    ),
    "assumptions": [
        "reference definitions in vf/oracles/graphs_und.py (cross-checked against low-link DFS, min-degree peeling, "
        "float power iteration + exact fixed-point verification, pairwise modularity in vf.selftest)",
        "PageRank bound: stopping rule ||p_{k+1}-p_k||_inf < tol and L1-contraction (factor d) of the PageRank map",
    ],
}


@functools.total_ordering
class Key:
    """A user-defined orderable node type whose instances all hash alike (legal: equal objects must hash
    equally, nothing more).  Set/dict code still works through __eq__; code that orders by hash does not."""

    __slots__ = ("v",)

    def __init__(self, v):
        self.v = v

    def __eq__(self, o):
        return isinstance(o, Key) and self.v == o.v

    def __lt__(self, o):
        return self.v < o.v

    def __hash__(self):
        return 7

    def __repr__(self):
        return f"Key({self.v})"


def lab(scheme, i):
    """All labels of one graph are mutually comparable (louvain and bridges() compare nodes).

    0 ints, 1 strs, 2 tuples, 3 signed ints starting at -2 (CPython: hash(-1) == hash(-2)), 4 tuples
    (-1,c)/(-2,c) (pairwise hash collisions), 5 Key objects (every hash equal)."""
    if scheme == 0:
        return i
    if scheme == 1:
        return f"n{i}"
    if scheme == 2:
        return (i // 3, i % 3)
    if scheme == 3:
        return i - 2
    if scheme == 4:
        return (-1 - i % 2, i // 2)
    return Key(i)


# ----------------------------------------------------------------------------- generators
def _blocks(draw, nmax):
    """Blocks glued at cut vertices; returns (n, edges)."""
    n = 0
    edges = []
    nblocks = draw(st.integers(1, 5))
    for _ in range(nblocks):
        kind = draw(st.sampled_from(["edge", "edge", "cycle", "cycle", "clique", "isolated", "path"]))
        size = {"edge": 2, "isolated": 1}.get(kind) or draw(st.integers(3, 5 if kind != "clique" else 4))
        attach = n > 0 and kind != "isolated" and draw(st.integers(0, 4)) > 0  # else: a new component
        new = size - (1 if attach else 0)
        if n + new > nmax:
            break
        vs = ([draw(st.integers(0, n - 1))] if attach else []) + list(range(n, n + new))
        n += new
        if kind in ("edge", "path"):
            edges += [(vs[i], vs[i + 1]) for i in range(len(vs) - 1)]
        elif kind == "cycle":
            edges += [(vs[i], vs[(i + 1) % size]) for i in range(size)]
        elif kind == "clique":
            edges += [(vs[i], vs[j]) for i in range(size) for j in range(i + 1, size)]
    if n == 0:
        n = 1
    return n, edges


@st.composite
def und_graphs(draw, tier="quick", salt=0):
    # The runner seeds worker k of every sub-check identically; `salt` throw-away draws shift the random
    # stream so that the three undirected sub-checks do not all see the very same graphs.
    for _ in range(salt):
        draw(st.integers(0, 255))
    nmax = 12 if tier == "thorough" else 9
    family = draw(st.sampled_from(["uniform", "blocks", "blocks", "dense", "shells", "forest+"]))
    if family == "uniform":
        n = draw(st.one_of(st.integers(0, nmax), st.integers(4, nmax)))
        m = draw(st.integers(0, 2 * n)) if n else 0
        edges = draw(st.lists(st.tuples(st.integers(0, n - 1), st.integers(0, n - 1)), min_size=m, max_size=m)) if n else []
    elif family == "blocks":
        n, edges = _blocks(draw, nmax)
        extra = draw(st.integers(0, 2))
        edges += draw(st.lists(st.tuples(st.integers(0, n - 1), st.integers(0, n - 1)), min_size=extra, max_size=extra))
    elif family == "dense":  # complete graph minus a few pairs: high core numbers, no cut vertices unless n is tiny
        n = draw(st.integers(3, min(nmax, 8)))
        pairs = [(i, j) for i in range(n) for j in range(i + 1, n)]
        gone = set(draw(st.lists(st.sampled_from(pairs), max_size=2 * n)))
        edges = [p for p in pairs if p not in gone]
    elif family == "shells":  # a clique core, then nodes hung onto 0-3 earlier nodes: nested cores, bucket moves
        c = draw(st.integers(2, 5))
        n = draw(st.integers(c, nmax))
        edges = [(i, j) for i in range(c) for j in range(i + 1, c)]
        for v in range(c, n):
            r = draw(st.integers(0, 3))
            edges += [(w, v) for w in set(draw(st.lists(st.integers(0, v - 1), min_size=r, max_size=r)))]
    else:  # random forest (parent pointers, some roots) plus 0-3 chords
        n = draw(st.integers(2, nmax))
        edges = []
        for v in range(1, n):
            p = draw(st.integers(-1 if v > 1 else 0, v - 1))
            if p >= 0:
                edges.append((p, v))
        extra = draw(st.integers(0, 3))
        edges += draw(st.lists(st.tuples(st.integers(0, n - 1), st.integers(0, n - 1)), min_size=extra, max_size=extra))
    edges = [list(e) for e in edges]
    if not draw(st.booleans()):  # half of the graphs have no self loops at all
        edges = [e for e in edges if e[0] != e[1]]
    elif n and draw(st.booleans()):
        k = draw(st.integers(1, 2))
        edges += [[v, v] for v in draw(st.lists(st.integers(0, n - 1), min_size=k, max_size=k))]
    # how each edge is listed: 0 = from both ends, 1 = only in u's list, 2 = only in v's list
    listing = draw(st.sampled_from(["sym", "asym", "mixed", "mixed"]))
    m = len(edges)
    if listing == "sym":
        sides = [0] * m
    elif listing == "asym":
        sides = draw(st.lists(st.integers(1, 2), min_size=m, max_size=m))
    else:
        sides = draw(st.lists(st.integers(0, 2), min_size=m, max_size=m))
    dups = draw(st.lists(st.integers(1, 3), min_size=m, max_size=m)) if m and draw(st.integers(0, 2)) == 0 else [1] * m
    perm = draw(st.permutations(range(n))) if n else []
    adj = [[] for _ in range(n)]
    for (u, v), side, k in zip(edges, sides, dups):
        u, v = perm[u], perm[v]
        if u == v:
            adj[u] += [u] * k
            continue
        if side != 2:
            adj[u] += [v] * k
        if side != 1:
            adj[v] += [u] * max(1, k - 1)  # both-sided duplicates may differ in count per side
    adj = [list(draw(st.permutations(a))) if len(a) > 1 else a for a in adj]
    shared = draw(st.booleans())
    if shared or draw(st.integers(0, 3)) == 0:
        adj = draw_twins(draw, adj)
    return {
        "n": n,
        "scheme": draw(st.integers(0, 5)),
        "shared": shared,
        "family": family,
        "listing": listing,
        "order": list(draw(st.permutations(range(n)))) if n else [],
        "adj": adj,
        "container": draw(st.integers(0, 4)),
        "nodes_kind": draw(st.integers(0, 6)),
        "edits": draw_edits(draw, adj, directed=False),
        "k": draw(st.integers(0, 5)),
        "first": draw(st.sampled_from(["ap", "bridges"])),
        "res": draw(st.one_of(st.integers(2, 24).map(lambda k: k / 8), st.floats(0.2, 3.0, allow_nan=False))),
    }


@st.composite
def digraphs(draw, tier="quick"):
    nmax = 12 if tier == "thorough" else 9
    n = draw(st.one_of(st.integers(0, nmax), st.integers(3, nmax), st.integers(3, nmax)))
    family = draw(st.sampled_from(["uniform", "sinks", "cycle+tails"]))
    arcs = []
    if n:
        pair = st.tuples(st.integers(0, n - 1), st.integers(0, n - 1))
        if family == "cycle+tails":
            c = draw(st.integers(1, n))
            arcs = [(i, (i + 1) % c) for i in range(c)] if c > 1 or draw(st.booleans()) else []
            for v in range(c, n):  # every further node points into or out of the earlier part
                w = draw(st.integers(0, v - 1))
                arcs.append((v, w) if draw(st.booleans()) else (w, v))
            arcs += draw(st.lists(pair, max_size=3))
        else:
            m = draw(st.integers(0, 5 * n // 2))
            arcs = draw(st.lists(pair, min_size=m, max_size=m))
        if family == "sinks":
            sinks = set(draw(st.lists(st.integers(0, n - 1), min_size=1, max_size=max(1, n // 2))))
            arcs = [a for a in arcs if a[0] not in sinks]
    if arcs and draw(st.integers(0, 2)) == 0:
        k = draw(st.integers(1, 3))
        arcs += draw(st.lists(st.sampled_from(arcs), min_size=k, max_size=k))  # duplicate listings
    perm = draw(st.permutations(range(n))) if n else []
    adj = [[] for _ in range(n)]
    for u, v in arcs:
        adj[perm[u]].append(perm[v])
    adj = [list(draw(st.permutations(a))) if len(a) > 1 else a for a in adj]
    damping = draw(st.one_of(st.integers(5, 95).map(lambda k: k / 100), st.sampled_from([0.05, 0.5, 0.85, 0.95]), st.floats(0.05, 0.95)))
    shared = draw(st.booleans())
    if shared and draw(st.booleans()):
        adj = draw_twins(draw, adj)
    return {
        "n": n,
        "scheme": draw(st.integers(0, 5)),
        "shared": shared,
        "family": family,
        "order": list(draw(st.permutations(range(n)))) if n else [],
        "adj": adj,
        "container": draw(st.integers(0, 4)),
        "nodes_kind": draw(st.integers(0, 6)),
        "edits": draw_edits(draw, adj, directed=True),
        "api": draw(st.sampled_from(["callback", "callback", "edges"])),
        "damping": damping,
        "tol": draw(st.sampled_from([1e-6, 1e-9])),
        "max_iter": draw(st.sampled_from([2, 30, 100] + [5000] * 12)),
    }


# ----------------------------------------------------------------------------- building live inputs
NODE_KINDS = ["list", "tuple", "dict-keys", "set", "generator", "iter", "range-or-map"]
CONTAINERS = ["list", "tuple", "generator", "set", "frozenset"]


def apply_edit(adj, e):
    """One edit of the listed graph, on index lists, in place (shared by generators and run functions).

    ["add-both",u,v] list the edge from both ends; ["add-one",u,v] append v to u's list only (for digraphs:
    the arc u->v); ["remove",u,v] delete every listing of the pair from both lists; ["remove-arc",u,v] delete
    v from u's list only."""
    n = len(adj)
    if n == 0:
        return
    op, u, v = e[0], e[1] % n, e[2] % n
    if op == "add-both":
        adj[u].append(v)
        if u != v:
            adj[v].append(u)
    elif op == "add-one":
        adj[u].append(v)
    elif op == "remove":
        adj[u] = [x for x in adj[u] if x != v]
        adj[v] = [x for x in adj[v] if x != u]
    elif op == "remove-arc":
        adj[u] = [x for x in adj[u] if x != v]


def draw_twins(draw, adj):
    """Make some neighbourhoods literally equal (twins: b lists exactly what a lists; or a group S in which
    everybody lists all of S, itself included) — what the 'shared container' mode needs to bite."""
    n = len(adj)
    if n < 2:
        return adj
    adj = [list(a) for a in adj]
    mode = draw(st.sampled_from(["none", "clone", "clone", "everyone"]))
    if mode == "clone":
        for _ in range(draw(st.integers(1, 2))):
            a, b = draw(st.integers(0, n - 1)), draw(st.integers(0, n - 1))
            adj[b] = list(adj[a])
    elif mode == "everyone":
        S = sorted(set(draw(st.lists(st.integers(0, n - 1), min_size=2, max_size=min(n, 5)))))
        for v in S:
            adj[v] = list(S)
    return adj


def draw_edits(draw, adj, directed):
    """0-2 edits (half of the cases none); removals aim at a pair that is currently listed."""
    n = len(adj)
    k = draw(st.sampled_from([0, 0, 0, 1, 1, 2])) if n else 0
    cur = [list(a) for a in adj]
    edits = []
    for _ in range(k):
        op = draw(st.sampled_from(["add-one", "remove-arc", "remove-arc"] if directed else ["add-both", "add-one", "remove", "remove"]))
        listed = [(u, v) for u in range(n) for v in cur[u]]
        if op.startswith("remove") and listed:
            u, v = draw(st.sampled_from(listed))
        else:
            u, v = draw(st.integers(0, n - 1)), draw(st.integers(0, n - 1))
        e = [op, u, v]
        apply_edit(cur, e)
        edits.append(e)
    return edits


class Live:
    """A long-lived graph: ONE mutable dict `store` of neighbour containers (list / tuple / set / frozenset,
    or a list read through a fresh generator), ONE neighbour function object returning the stored container
    itself (the way users write `lambda v: graph[v]`), a fresh `nodes` iterable of the generated kind for every
    call.  In `shared` mode nodes with equal neighbourhoods hold the *identical* container object."""

    def __init__(self, desc):
        n, sch = desc["n"], desc["scheme"]
        self.n, self.scheme = n, sch
        self.L = L = [lab(sch, i) for i in range(n)]
        self.idx = {L[i]: i for i in range(n)}
        self.base = [L[i] for i in desc["order"]]
        self.kind = NODE_KINDS[desc.get("nodes_kind", 0) % len(NODE_KINDS)]
        self.ckind = CONTAINERS[desc.get("container", 0) % len(CONTAINERS)]
        self.shared = bool(desc.get("shared", False))
        self.store = store = {}
        self._fill([list(a) for a in desc["adj"]], fresh=True)
        gen = self.ckind == "generator"

        def neighbors(v):
            c = store[v]
            return (w for w in c) if gen else c

        self.neighbors = neighbors

    def _fill(self, adj, fresh):
        L, ck = self.L, self.ckind
        as_set = ck in ("set", "frozenset")
        made = {}
        for i, a in enumerate(adj):
            labs = [L[j] for j in a]
            key = frozenset(a) if as_set else tuple(a)
            if self.shared and key in made:
                self.store[L[i]] = made[key]
                continue
            old = self.store.get(L[i])
            if not fresh and not self.shared and ck in ("list", "generator"):
                old[:] = labs  # unshared mutable containers are edited in place
                c = old
            elif not fresh and not self.shared and ck == "set":
                old.clear()
                old.update(labs)
                c = old
            else:
                c = {"list": list, "generator": list, "tuple": tuple, "set": set, "frozenset": frozenset}[ck](labs)
            self.store[L[i]] = made[key] = c

    def snapshot(self):
        """The graph as the containers describe it right now (index lists; sorted for set kinds)."""
        idx, as_set = self.idx, self.ckind in ("set", "frozenset")
        out = []
        for i in range(self.n):
            a = [idx[w] for w in self.store[self.L[i]]]
            out.append(sorted(a) if as_set else a)
        return out

    def nodes(self):
        """`nodes: Iterable[S]` — every documented kind, one-shot iterables included; new object per call."""
        b, k = self.base, self.kind
        if k == "list":
            return list(b)
        if k == "tuple":
            return tuple(b)
        if k == "dict-keys":
            return dict.fromkeys(b).keys()
        if k == "set":
            return set(b)
        if k == "generator":
            return (v for v in b)
        if k == "iter":
            return iter(list(b))
        return range(self.n) if self.scheme == 0 else map(lambda v: v, b)

    def edit(self, e):
        adj = self.snapshot()
        apply_edit(adj, e)
        self._fill(adj, fresh=False)

    def call(self, ctx, fn, *a, **kw):
        """fn(nodes, neighbors, ...) on the live objects; returns (result, graph as described at call time).
        If solvOR changed a caller's container that is recorded as a label — the judgement is against the
        description the call received."""
        before = self.snapshot()
        res = ctx.call(fn, self.nodes(), self.neighbors, *a, **kw)
        if self.snapshot() != before:
            ctx.label("solvor-mutated-callers-container")
        return res, before


class View:
    """Oracle quantities of a described graph, recomputed only when the description changed."""

    def __init__(self, n):
        self.n, self.adj, self.memo = n, None, {}

    def at(self, adj):
        if adj != self.adj:
            self.adj, self.memo = adj, {"nb": G.symmetrise(self.n, adj)}
        return self

    def get(self, name):
        m = self.memo
        if name not in m:
            m[name] = {"cut": G.cut_vertices, "bridges": G.bridges, "cores": G.core_numbers}[name](self.n, m["nb"])
        return m[name]


def judge(step, got, prev, area, bucket, detail):
    """A wrong answer that merely repeats the answer given before the graph was edited gets its own bucket."""
    if step and prev is not None and got == prev:
        raise Violation(f"{area}:stale-after-graph-edit", {"step": step, **detail})
    raise Violation(bucket, {"step": step, **detail} if step else detail)


def classify_und(desc, ctx, live):
    """Labels + the DESIGN non-triviality rule (on the initial graph as the containers describe it)."""
    n, adj = desc["n"], live.snapshot()
    nb = G.symmetrise(n, adj)
    cut = G.cut_vertices(n, nb)
    br = G.bridges(n, nb)
    cyc = G.has_cycle(n, nb)
    one_sided = any(u != v and u not in adj[v] for u in range(n) for v in adj[u])
    ncomp = G.n_components(n, nb)
    ids = [id(live.store[l]) for l in live.L]
    ctx.label(
        desc["family"],
        f"labels-{desc['scheme']}",
        "nodes-as-" + live.kind,
        "neighbours-as-" + live.ckind,
        len(set(ids)) < len(ids) and "shared-container-object",
        f"edits-{len(desc.get('edits', []))}",
        one_sided and "asymmetric-listing",
        any(u in adj[u] for u in range(n)) and "self-loop",
        any(len(a) != len(set(a)) for a in adj) and "duplicate-neighbours",
        any(not nb[v] for v in range(n)) and "isolated-node",
        ncomp >= 2 and "components>=2",
        cut and "has-cut-vertex",
        br and "has-bridge",
        cyc and "has-cycle",
        n <= 1 and "n<=1",
        n and not G.edge_list(n, nb) and "edgeless",
    )
    ctx.size("n", n)
    ctx.size("edges", len(G.edge_list(n, nb)))
    ctx.nontrivial(bool((cut or br) and cyc))


# ----------------------------------------------------------------------------- articulation points / bridges
def _check_ap(ctx, live, view, step, prev):
    from solvor.articulation import articulation_points

    idx = live.idx
    res, adj = live.call(ctx, articulation_points)
    cut = view.at(adj).get("cut")
    got = res.solution
    if not isinstance(got, (set, frozenset)):
        raise Violation("ap:not-a-set", repr(got)[:200])
    if any(v not in idx for v in got):
        raise Violation("ap:unknown-node", repr(got)[:200])
    got = {idx[v] for v in got}
    if got - cut:
        judge(step, got, prev, "ap", "ap:spurious", {"got": sorted(got), "want": sorted(cut), "spurious": sorted(got - cut)})
    if cut - got:
        judge(step, got, prev, "ap", "ap:missed", {"got": sorted(got), "want": sorted(cut), "missed": sorted(cut - got)})
    return got


def _check_bridges(ctx, live, view, step, prev):
    from solvor.articulation import bridges

    idx = live.idx
    res, adj = live.call(ctx, bridges)
    br = view.at(adj).get("bridges")
    lst = res.solution
    if not isinstance(lst, list):
        raise Violation("bridges:not-a-list", repr(lst)[:200])
    seen = set()
    for e in lst:
        if not (isinstance(e, tuple) and len(e) == 2 and e[0] in idx and e[1] in idx):
            raise Violation("bridges:malformed-edge", repr(e)[:200])
        if not e[0] < e[1]:  # docstring: "Each edge is a tuple (u, v) with u < v"
            raise Violation("bridges:not-canonical", repr(e))
        key = tuple(sorted((idx[e[0]], idx[e[1]])))
        if key in seen:  # "returned once"
            raise Violation("bridges:duplicate", repr(e))
        seen.add(key)
    if seen - br:
        judge(step, seen, prev, "bridges", "bridges:spurious", {"got": sorted(seen), "want": sorted(br), "spurious": sorted(seen - br)})
    if br - seen:
        judge(step, seen, prev, "bridges", "bridges:missed", {"got": sorted(seen), "want": sorted(br), "missed": sorted(br - seen)})
    return seen


def run_articulation(desc, ctx):
    """Both functions on the same live graph (same neighbour-function object, sibling called right after);
    desc["first"] says which one is called and judged first (so that a defect common to both is reported,
    shrunk and saved for each of them).  Then every generated edit is applied to the live graph and both are
    called again and judged against the oracle of the edited graph."""
    live = Live(desc)
    n = desc["n"]
    classify_und(desc, ctx, live)
    view = View(n)
    order = ("ap", "bridges") if desc.get("first", "ap") == "ap" else ("bridges", "ap")
    prev = {"ap": None, "bridges": None}
    edits = desc.get("edits", [])
    for step in range(len(edits) + 1):
        if step:
            old = view.at(live.snapshot())
            was = (old.get("cut"), old.get("bridges"))
            live.edit(edits[step - 1])
            new = view.at(live.snapshot())
            ctx.label((new.get("cut"), new.get("bridges")) != was and "edit-changes-answer")
        for fn in order:
            if fn == "ap":
                prev["ap"] = _check_ap(ctx, live, view, step, prev["ap"])
            else:
                prev["bridges"] = _check_bridges(ctx, live, view, step, prev["bridges"])


# ----------------------------------------------------------------------------- k-cores
def run_kcore(desc, ctx):
    from solvor.kcore import kcore, kcore_decomposition

    live = Live(desc)
    L, idx, n, k = live.L, live.idx, desc["n"], desc["k"]
    classify_und(desc, ctx, live)
    view = View(n)
    edits = desc.get("edits", [])
    prev_dec = prev_set = prev_want = None
    for step in range(len(edits) + 1):
        if step:
            live.edit(edits[step - 1])

        res, adj = live.call(ctx, kcore_decomposition)
        want = view.at(adj).get("cores")
        top = max(want, default=0)
        if step == 0:
            ctx.label(f"maxcore-{min(top, 4)}{'+' if top >= 4 else ''}", len(set(want)) >= 3 and "distinct-cores>=3", k > top and "k>maxcore", k == 0 and "k=0")
        else:
            ctx.label(want != prev_want and "edit-changes-answer")
        prev_want = want
        ctx.size("maxcore", top)
        got = res.solution
        if not isinstance(got, dict):
            raise Violation("kcore:decomposition-not-a-dict", repr(got)[:200])
        if set(got) != set(L):
            raise Violation("kcore:decomposition-keys", {"got": repr(sorted(got, key=repr)), "n": n})
        dec = [got[L[i]] for i in range(n)]
        bad = {i: [dec[i], want[i]] for i in range(n) if dec[i] != want[i]}
        if bad:
            judge(step, dec, prev_dec, "kcore", "kcore:core-number-wrong", {"node: [got, want]": bad, "described": adj})
        prev_dec = dec

        res, adj = live.call(ctx, kcore, k)
        want = view.at(adj).get("cores")
        s = res.solution
        if not isinstance(s, (set, frozenset)) or any(v not in idx for v in s):
            raise Violation("kcore:kcore-not-a-node-set", repr(s)[:200])
        wset = {i for i in range(n) if want[i] >= k}
        gset = {idx[v] for v in s}
        if gset != wset:
            judge(step, gset, prev_set, "kcore", "kcore:kcore-set-wrong", {"k": k, "got": sorted(gset), "want": sorted(wset), "described": adj})
        prev_set = gset


# ----------------------------------------------------------------------------- Louvain
def run_louvain(desc, ctx):
    from solvor.community import louvain

    live = Live(desc)
    L, idx, n = live.L, live.idx, desc["n"]
    classify_und(desc, ctx, live)
    view = View(n)
    gamma = desc["res"]
    edits = desc.get("edits", [])
    prev = None
    for step in range(len(edits) + 1):
        if step:
            nb0 = view.at(live.snapshot()).memo["nb"]
            live.edit(edits[step - 1])
            ctx.label(view.at(live.snapshot()).memo["nb"] != nb0 and "edit-changes-graph")
        res, adj = live.call(ctx, louvain, resolution=gamma)
        nb = view.at(adj).memo["nb"]
        comms = res.solution
        if not isinstance(comms, list) or not all(isinstance(c, (set, frozenset)) for c in comms):
            raise Violation("louvain:not-a-list-of-sets", repr(comms)[:200])
        if any(len(c) == 0 for c in comms):
            raise Violation("louvain:empty-community", repr(comms)[:300])
        flat = [v for c in comms for v in c]
        if any(v not in idx for v in flat):
            raise Violation("louvain:unknown-node", repr(comms)[:300])
        if len(flat) != len(set(flat)):
            raise Violation("louvain:communities-overlap", repr(comms)[:300])
        if set(flat) != set(L):
            raise Violation("louvain:not-a-cover", {"missing": repr([v for v in L if v not in set(flat)])})
        if step == 0:
            ctx.label(f"communities-{min(len(comms), 4)}{'+' if len(comms) >= 4 else ''}", any(len(c) >= 3 for c in comms) and "community>=3")
        icomms = [[idx[v] for v in c] for c in comms]

        # Which graph does the reported modularity refer to?  community.py builds `adj`/`degree` from the
        # neighbour lists with `w != v` (self loops dropped), `if w not in adj[v]` (a pair counts once however
        # often and from whichever side it is listed) and mirrors every pair: i.e. the SYMMETRISED SIMPLE
        # LOOP-FREE graph with unit weights; m = number of distinct pairs; Q = sum_c [L_c/m - gamma (d_c/2m)^2];
        # an edgeless graph (m = 0, Q undefined) is reported as 0.0.  That is reading (a) = DESIGN's oracle.
        # Readings (b) loops kept (1 to m, 2 to the degree) and (c) multigraph (pair weight = the larger of the
        # two listing counts, loops kept) are the other defensible ones; matching only one of those is accepted
        # but labelled, matching none is the violation.
        q = res.objective
        if not isinstance(q, (int, float)) or q != q:
            raise Violation("louvain:modularity-not-a-number", repr(q))
        simple = {e: 1 for e in G.edge_list(n, nb)}
        loops = {(u, u): 1 for u in range(n) if u in adj[u]}
        multi = {(u, v): max(adj[u].count(v), adj[v].count(u)) for (u, v) in simple}
        multi.update({(u, u): adj[u].count(u) for (u, _) in loops})
        readings = {"simple": simple, "simple+loops": {**simple, **loops}, "multigraph": multi}
        vals = {}
        for name, w in readings.items():
            x = G.modularity(n, w, icomms, gamma)
            vals[name] = 0.0 if x is None else float(x)
        # 1e-9: Q is a sum of <= n terms of magnitude <= ~10 computed in doubles (error ~1e-15); the exact
        # value is rounded once by float(); 1e-9 is far above both and far below any modelling difference.
        cur = (sorted(sorted(c) for c in icomms), q)
        if abs(q - vals["simple"]) <= 1e-9:
            ctx.label(not simple and "modularity-of-edgeless")
        else:
            alt = [k for k, v in vals.items() if abs(q - v) <= 1e-9]
            if not alt:
                judge(step, cur, prev, "louvain", "louvain:modularity-mismatch", {"reported": q, "recomputed": vals, "communities": icomms, "resolution": gamma, "labels": repr([L[i] for c in icomms for i in c])[:200]})
            ctx.label("modularity-alt-reading:" + alt[0])
        prev = cur


# ----------------------------------------------------------------------------- PageRank
def run_pagerank(desc, ctx):
    from solvor.pagerank import pagerank, pagerank_edges
    from solvor.types import Status

    n = desc["n"]
    d, tol, max_iter = desc["damping"], desc["tol"], desc["max_iter"]
    api = desc["api"]
    live = Live(desc if api != "edges" else {**desc, "scheme": 0})
    L = live.L
    adj = live.snapshot()
    dangling = [u for u in range(n) if not adj[u]]
    cyc = G.has_directed_cycle(n, adj)
    edits = desc.get("edits", [])
    ids = [id(live.store[l]) for l in L]
    ctx.label(
        desc["family"],
        f"api-{api}",
        f"labels-{live.scheme}",
        api != "edges" and "nodes-as-" + live.kind,
        api != "edges" and "neighbours-as-" + live.ckind,
        api != "edges" and len(set(ids)) < len(ids) and "shared-container-object",
        f"edits-{len(edits)}",
        dangling and "dangling",
        n and len(dangling) == n and "all-dangling",
        cyc and "directed-cycle",
        any(u in adj[u] for u in range(n)) and "self-loop",
        any(len(a) != len(set(a)) for a in adj) and "duplicate-arcs",
        f"tol-{tol:g}",
        n <= 1 and "n<=1",
    )
    ctx.size("n", n)
    prev = None
    for step in range(len(edits) + 1):
        if step:
            before = [sorted(a) for a in live.snapshot()]
            live.edit(edits[step - 1])
            ctx.label([sorted(a) for a in live.snapshot()] != before and "edit-changes-graph")
        if api == "edges":
            adj = live.snapshot()
            edges = [(u, v) for u in desc["order"] for v in adj[u]]
            res = ctx.call(pagerank_edges, n, edges, damping=d, max_iter=max_iter, tol=tol, backend="python")
        else:
            res, adj = live.call(ctx, pagerank, damping=d, max_iter=max_iter, tol=tol)
        dangling = [u for u in range(n) if not adj[u]]
        dup = any(len(a) != len(set(a)) for a in adj)

        p = res.solution
        if not isinstance(p, dict) or set(p) != set(L):
            raise Violation("pagerank:keys", repr(p)[:300])
        vec = [p[L[i]] for i in range(n)]
        if any(not isinstance(x, float) or x != x or x < 0 for x in vec):
            raise Violation("pagerank:negative-or-nan-score", {"scores": vec})
        # |sum - 1| <= 1e-9: the map preserves the sum exactly in real arithmetic (dangling mass is handed
        # out uniformly); rounding contributes ~n*eps per iteration, <= 5000*12*1.1e-16 < 1e-11.
        if n and abs(math.fsum(vec) - 1.0) > 1e-9:
            raise Violation("pagerank:sum-not-1", {"sum": math.fsum(vec), "scores": vec, "dangling": dangling})
        if n == 0:
            return

        if res.status == Status.MAX_ITER:
            # ||p_{k+1}-p_k||_inf <= ||.||_1 <= 2 d^k, so  k >= log(tol/2)/log(d)  iterations always suffice.
            need = math.log(tol / 2) / math.log(d) + 2
            if max_iter >= need:
                raise Violation("pagerank:max-iter-despite-contraction", {"max_iter": max_iter, "enough": need, "iterations": res.iterations})
            raise Inconclusive("pagerank:MAX_ITER(small max_iter)")
        if res.status != Status.OPTIMAL:
            raise Violation("pagerank:unexpected-status", repr(res.status))

        # OPTIMAL: the stopping rule gives ||p_{k+1}-p_k||_inf < tol, hence ||.||_1 < n*tol; the PageRank map is
        # an L1-contraction with factor d, so  ||p_{k+1}-p*||_1 <= d/(1-d) * ||p_{k+1}-p_k||_1 < n*tol*d/(1-d).
        # (+1e-12 for rounding.)  NOT an L-infinity residual bound: that is not implied (DESIGN §5, oracle mistake i).
        bound = n * tol * d / (1 - d) + 1e-12
        dist = {}
        for name, multi in (("multigraph", True), ("simple", False)):
            if name == "simple" and not dup:
                continue
            star = G.pagerank_exact(n, adj, d, multi)
            dist[name] = float(sum(abs(Fraction(x) - s) for x, s in zip(vec, star)))
        if step == 0:
            ctx.nontrivial(bool(dangling) and cyc)
        ok = [k for k, v in dist.items() if v <= bound]
        if not ok:
            judge(step, vec, prev, "pagerank", "pagerank:far-from-fixed-point", {"l1_distance": dist, "bound": bound, "damping": d, "tol": tol, "iterations": res.iterations, "scores": vec})
        if dup:
            ctx.label("duplicates-read-as-" + "/".join(ok))
        ctx.count("l1/bound<=0.01", dist[ok[0]] <= bound / 100)
        prev = vec


SUBS = [
    Sub("articulation_bridges", run_articulation, strategy=lambda tier: und_graphs(tier, 0), quick=1200, thorough=6000, workers_quick=4),
    Sub("kcore", run_kcore, strategy=lambda tier: und_graphs(tier, 1), quick=1000, thorough=6000, workers_quick=4),
    Sub("pagerank", run_pagerank, strategy=lambda tier: digraphs(tier), quick=1000, thorough=5000, workers_quick=4),
    Sub("louvain", run_louvain, strategy=lambda tier: und_graphs(tier, 2), quick=1000, thorough=6000, workers_quick=4),
]
