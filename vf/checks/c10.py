"""C10 — solve_hungarian returns a matching of min(rows, cols) pairs whose reported objective is the sum of
the chosen entries and is the optimum over all such matchings (minimize and maximize).

Three sub-checks share one property function:

* `hungarian`        Hypothesis-generated matrices decided by permutation enumeration (<= 5040 matchings);
* `hungarian_large`  8..9 on the longer side, decided by the reference min-cost flow (C09 oracle);
* `tie_exhaustive`   every matrix over a 3-value palette {-1,0,1} for all shapes <= 3x3 (thorough: also 2x4, 4x2,
                     2x5, 5x2, every 0/1 4x4 matrix and every {0,1} / {-1,1} 3x4 and 4x3 matrix), minimize and maximize.
"""
from __future__ import annotations

from fractions import Fraction

from hypothesis import strategies as st

from ..harness import Sub, Violation
from ..oracles import assign as A

PROPERTY = "C10"
META = {
    "level": "exploration",
    "rule": (
        "r x c cost matrices given as integer numerators over den in {1,4}: shapes square / rows>cols / cols>rows / 1xN / "
        "Nx1 chosen by construction (<=6 quick, <=7 thorough by enumeration; longer side 8 quick, 8-9 thorough with the "
        "flow oracle); entry families: ints in [-9,9], non-negative, all-negative, dyadic k/4, 3-value palette (heavy ties), "
        "additive a_i+b_j(+sparse noise: every matching (nearly) optimal), then optionally constant rows/columns; ints or "
        "floats, lists or tuples; minimize / maximize. Plus exhaustive enumeration of all {-1,0,1} matrices of small shapes. "
        "Oracle: optimum by enumeration of all max!/(max-min)! matchings when <=5040, else reference min-cost flow; a subset "
        "DP is evaluated on every case as a second opinion (disagreement = harness error) and counts optimal matchings. "
        "All data are dyadic with small magnitude, so every float operation in solvOR and every comparison here is exact. "
        "Non-trivial = >=2 distinct optimal matchings, or a rectangular matrix, or a negative entry. Distinct = canonical "
        "JSON of the case."
    ),
    "assumptions": [
        "reference optimum (enumeration / min-cost flow / subset DP, cross-checked in vf.selftest and per case)",
        "dyadic data of magnitude < 2^10: float sums and differences are exact, so == is justified",
    ],
}

# Work bound (DESIGN 2.4): JUMP|BRANCH events inside solvor/hungarian.py.  Maximum observed over 3000 random matrices
# up to 9x9 on /repo: 4158 (n=9).  Limit = >100x that.  The property does not claim termination, so a case that
# exceeds it is *inconclusive* ("step-budget"), deterministically and within a fraction of a second.
STEP_LIMIT = 500_000

FAMILIES = ["int", "int", "nonneg", "neg", "dyadic", "dyadic", "palette", "palette", "additive"]


def _dims(draw, shape, hi_max, small_min=1):
    """(r, c) of the requested shape class, by construction."""
    if shape == "square":
        n = draw(st.integers(max(1, small_min), hi_max))
        return n, n
    if shape in ("1xN", "Nx1"):
        n = draw(st.integers(2, hi_max))
        return (1, n) if shape == "1xN" else (n, 1)
    big = draw(st.integers(max(2, small_min + 1), hi_max))
    small = draw(st.integers(small_min, big - 1))
    return (big, small) if shape == "tall" else (small, big)


@st.composite
def matrices(draw, tier="quick", large=False):
    if large:
        # P(big, small) > 5040 needs big >= 8 and small >= 5
        hi = 9 if tier == "thorough" else 8
        shape = draw(st.sampled_from(["square", "tall", "wide"]))
        big = draw(st.integers(8, hi))
        if shape == "square":
            r = c = big
        else:
            small = draw(st.integers(5, big - 1))
            r, c = (big, small) if shape == "tall" else (small, big)
    else:
        hi = 7 if tier == "thorough" else 6
        shape = draw(st.sampled_from(["square", "square", "tall", "tall", "wide", "wide", "1xN", "Nx1"]))
        r, c = _dims(draw, shape, hi, small_min=2 if shape in ("tall", "wide") else 1)
    fam = draw(st.sampled_from(FAMILIES))
    den = 1
    if fam == "int":
        el = st.integers(-9, 9)
    elif fam == "nonneg":
        el = st.integers(0, 9)
    elif fam == "neg":
        el = st.integers(-9, -1)
    elif fam == "dyadic":
        den = 4
        el = st.integers(-36, 36)
    elif fam == "palette":
        den = draw(st.sampled_from([1, 1, 4]))
        lim = 9 * den
        pal = draw(st.lists(st.integers(-lim, lim), min_size=3, max_size=3))
        el = st.sampled_from(pal)
    if fam == "additive":
        den = draw(st.sampled_from([1, 4]))
        a = draw(st.lists(st.integers(-4 * den, 4 * den), min_size=r, max_size=r))
        b = draw(st.lists(st.integers(-4 * den, 4 * den), min_size=c, max_size=c))
        noise = draw(st.lists(st.lists(st.sampled_from([0, 0, 0, 0, 1, -1]), min_size=c, max_size=c), min_size=r, max_size=r))
        k = [[a[i] + b[j] + noise[i][j] for j in range(c)] for i in range(r)]
    else:
        k = draw(st.lists(st.lists(el, min_size=c, max_size=c), min_size=r, max_size=r))
    const = draw(st.sampled_from(["none", "none", "none", "rows", "cols", "both"]))
    lim = 9 * den
    if const in ("rows", "both"):
        for i in draw(st.lists(st.integers(0, r - 1), min_size=1, max_size=max(1, r // 2), unique=True)):
            v = draw(st.integers(-lim, lim))
            k[i] = [v] * c
    if const in ("cols", "both"):
        for j in draw(st.lists(st.integers(0, c - 1), min_size=1, max_size=max(1, c // 2), unique=True)):
            v = draw(st.integers(-lim, lim))
            for i in range(r):
                k[i][j] = v
    # Hypothesis' booleans lean towards False (measured 30/70); XOR with a parity of the data evens min/max out
    parity = (sum(sum(row) for row in k) + r) % 2 == 1
    return {
        "family": fam,
        "k": k,
        "den": den,
        "minimize": draw(st.booleans()) != parity,
        "explicit_kw": draw(st.booleans()),
        "as_float": draw(st.booleans()),
        "tuples": draw(st.sampled_from([0, 0, 1, 2])),
        "xflow": draw(st.integers(0, 3)) == 0,
    }


# ----------------------------------------------------------------------------- exhaustive small scope
def _scopes(tier):
    pal3 = [-1, 0, 1]
    out = [((r, c), pal3) for r in range(1, 4) for c in range(1, 4)]
    if tier == "thorough":
        out += [((2, 4), pal3), ((4, 2), pal3), ((2, 5), pal3), ((5, 2), pal3), ((4, 4), [0, 1])]
        # 3x4 / 4x3 over three values would be 2 x 2 x 531441 cases (measured: 7 of the 10 minutes); two 2-value palettes,
        # one of them straddling the padding value 0, keep the scope exhaustive and small
        out += [(sh, pal) for sh in ((3, 4), (4, 3)) for pal in ([0, 1], [-1, 1])]
    return out


def tie_cases(tier):
    for (r, c), pal in _scopes(tier):
        for code in range(len(pal) ** (r * c)):
            for mn in (True, False):
                yield {"shape": [r, c], "pal": pal, "code": code, "minimize": mn}


def _decode(desc):
    r, c = desc["shape"]
    pal = desc["pal"]
    code = desc["code"]
    b = len(pal)
    k = []
    for _ in range(r):
        row = []
        for _ in range(c):
            code, d = divmod(code, b)
            row.append(pal[d])
        k.append(row)
    return k


# ----------------------------------------------------------------------------- the property
def run(desc, ctx):
    from solvor.hungarian import solve_hungarian

    exhaustive = "code" in desc
    k = _decode(desc) if exhaustive else desc["k"]
    den = desc.get("den", 1)
    mn = desc["minimize"]
    r, c = len(k), len(k[0])
    exact = [[Fraction(x, den) for x in row] for row in k]
    if den == 1 and not desc.get("as_float", False):
        vals = [[int(x) for x in row] for row in k]
    else:
        vals = [[x / den for x in row] for row in k]  # k/4 with |k| <= 36: exact in binary floating point
    tp = desc.get("tuples", 0)
    if tp == 1:
        vals = [tuple(row) for row in vals]
    elif tp == 2:
        vals = tuple(tuple(row) for row in vals)

    import solvor.hungarian as H

    from .. import budget

    budget.instrument(H)  # idempotent
    with budget.steps(STEP_LIMIT) as work:
        if mn and not desc.get("explicit_kw", True):
            res = ctx.call(solve_hungarian, vals)
        else:
            res = ctx.call(solve_hungarian, vals, minimize=mn)
    ctx.size("steps", work.count)

    # ---- oracle
    nm = A.n_matchings(r, c)
    dp_val, n_opt = A.dp_opt(exact, mn)
    if nm <= A.ENUM_LIMIT:
        want, n_enum = A.enum_opt(exact, mn)
        if (want, n_enum) != (dp_val, n_opt):
            raise AssertionError(f"oracles disagree (enum {want, n_enum} vs dp {dp_val, n_opt}) on {k} den={den} min={mn}")
        ctx.label("oracle-enum")
    else:
        want = None
        ctx.label("oracle-flow")
    if want is None or desc.get("xflow", False):
        fl = A.flow_opt(exact, mn)
        if fl != dp_val:
            raise AssertionError(f"oracles disagree (flow {fl} vs dp {dp_val}) on {k} den={den} min={mn}")
        want = fl
        ctx.count("flow_oracle_runs")

    # ---- classification
    flat = [x for row in k for x in row]
    neg = any(x < 0 for x in flat)
    if r == c:
        shape = "1x1" if r == 1 else "square"
    elif r == 1:
        shape = "1xN"
    elif c == 1:
        shape = "Nx1"
    else:
        shape = "tall(rows>cols)" if r > c else "wide(cols>rows)"
    const_row = c >= 2 and any(len(set(row)) == 1 for row in k)
    const_col = r >= 2 and any(len({k[i][j] for i in range(r)}) == 1 for j in range(c))
    ctx.label(
        shape,
        "minimize" if mn else "maximize",
        neg and "negative-entry",
        neg and all(x < 0 for x in flat) and "all-negative",
        den == 4 and any(x % 4 for x in flat) and "dyadic-fraction",
        len(set(flat)) <= 3 and r * c >= 4 and "<=3-distinct-values",
        len(set(flat)) == 1 and r * c >= 2 and "constant-matrix",
        const_row and "constant-row",
        const_col and "constant-col",
        n_opt >= 2 and "multi-optimal",
        n_opt == nm and nm >= 2 and "all-matchings-optimal",
        r != c and neg and "rect+negative",
        r != c and not mn and "rect+maximize",
        r != c and not mn and neg and "rect+maximize+negative",
        f"maxdim-{max(r, c)}",
    )
    if not exhaustive:
        ctx.label("fam-" + desc["family"], desc.get("as_float") and den == 1 and "ints-as-float", tp and "tuple-rows")
    ctx.size("rows", r)
    ctx.size("cols", c)
    ctx.size("matchings", nm)
    ctx.nontrivial(n_opt >= 2 or r != c or neg)

    # ---- comparison
    info = {"matrix": [[str(x) for x in row] for row in exact], "minimize": mn}
    sol = res.solution
    if not isinstance(sol, (list, tuple)):
        raise Violation("assign:solution-not-a-sequence", {**info, "solution": repr(sol)[:200]})
    sol = list(sol)
    bad = A.is_matching(sol, r, c)
    if bad is not None:
        raise Violation("assign:" + bad, {**info, "solution": repr(sol)[:200], "rows": r, "cols": c})
    chosen = sum((exact[i][j] for i, j in enumerate(sol) if j != -1), Fraction(0))
    obj = res.objective
    if isinstance(obj, bool) or not isinstance(obj, (int, float)) or obj != obj or obj in (float("inf"), float("-inf")):
        raise Violation("assign:objective-not-a-finite-number", {**info, "objective": repr(obj)})
    # exact comparison: all entries are multiples of 1/4 below 2^6 in magnitude, at most 9 summands
    if Fraction(obj) != chosen:
        raise Violation("assign:objective-vs-sum-of-chosen", {**info, "solution": sol, "objective": obj, "sum_chosen": str(chosen)})
    if chosen != want:
        raise Violation(
            "assign:not-optimal",
            {**info, "solution": sol, "value": str(chosen), "optimum": str(want), "optimal_matchings": n_opt},
        )


SUBS = [
    Sub("hungarian", run, strategy=lambda tier: matrices(tier), quick=3000, thorough=6000, workers_quick=8, case_timeout=20.0, hang="violation"),
    Sub("hungarian_large", run, strategy=lambda tier: matrices(tier, large=True), quick=300, thorough=1500, workers_quick=4, case_timeout=20.0, hang="violation"),
    Sub("tie_exhaustive", run, enumerate=tie_cases, workers_quick=2, case_timeout=20.0, hang="violation"),
]
