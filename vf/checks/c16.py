"""C16 — solve_knapsack / solve_bin_pack: feasible, faithfully scored, labelled right.

Numbers travel through the case description as integer numerators over a small
denominator ("vden"/"wden"/"den"): 1 = integers, 8 = dyadic (exact in binary
floating point), 10/100 = decimal tenths/hundredths (not exact; only the clauses
that survive rounding are asserted for them, see below).  What is handed to
solvOR is `num` (int) or `num / den` (float); the oracle works on the exact
rationals in `fractions.Fraction`.
"""
from __future__ import annotations

from fractions import Fraction

from hypothesis import strategies as st

from ..harness import Sub, Violation
from ..oracles import packing as P

PROPERTY = "C16"
META = {
    "level": "exploration",
    "rule": (
        "knapsack: n<=10 (thorough 14) items; integer class (weights 0-9, capacity 0-20, values ints or tenths), huge-integer "
        "class (~6%: capacity 100000, 100001 or up to 400000, n<=6/8, weights 0-3 next to capacity-sized ones placed so that "
        "all light items plus one heavy item fit exactly / miss by one), dyadic "
        "class (k/8 weights, capacity <=10, values ints, k/8 or tenths), dyadic-fine class (k/8 + e/1024: subsets that "
        "overshoot the capacity by less than one unit of a x1000 grid, the greedy-fallback territory), hundredths class "
        "(k/100, 25% drawn from the values whose x1000 product truncates one too low) and a small dyadic class with "
        "capacity 100-200 (non-round scale factor); families uniform / zero capacity with weightless items / a subset "
        "exactly filling the capacity / value ties and equal densities / many zero weights / density-greedy trap (one "
        "item of best ratio above half the capacity against a pair filling it exactly; weights up to capacity-1 there); "
        "minimize and maximize; ints or floats, lists or tuples. Oracle: all 2^n subsets in exact rationals. Indices "
        "distinct and in range, weight <= capacity+1e-9, objective = sum of values (1e-9) always; OPTIMAL => value == "
        "exact optimum asserted whenever all weights and the capacity are integer-valued, otherwise the gap is a "
        "statistic (counters decimal:*). Non-trivial (maximize) = exact optimum differs from greedy-by-density; "
        "(minimize) = some item of positive value fits, so maximising instead would be visible. "
        "bin packing: n<=9 (thorough 12) sizes, integer or dyadic (k/8) plus a small tenths class; families uniform, "
        "near cap/2-cap/3-cap/4, the 4-4-3-3-3-3/10 pattern scaled (+extras, perturbed), perfect packings (each of 1-3 "
        "bins cut into 1-4 parts), items equal to the capacity and zeros, ascending complements (k=4..5/6 items of size "
        "a then k of size cap-a-e, up to 2 fillers, n<=12/14, OPT=k, decreasing variants only: plain any-fit in the given "
        "order breaks the 11/9 bound there, any-fit on the sorted list is optimal); given/shuffled/increasing order; four "
        "algorithms in 28 spellings (incl. the pure-underscore forms) + the default. Oracle: exact minimum by decision search in rationals. Every item "
        "has one bin index, loads <= capacity(1+1e-9), bins exactly 0..k-1, k == objective, k >= ceil(total/capacity) "
        "(exact rationals), decreasing variants 9k <= 11 OPT + 6 (asserted on integer/dyadic data, a statistic for "
        "tenths), OPTIMAL => k == OPT (tenths: against the more lenient of the decimal and the binary reading). "
        "Non-trivial = OPT >= 2 and the given order is not already non-increasing (FFD order != FF order). Distinct = "
        "canonical JSON of the case."
    ),
    "assumptions": [
        "reference subset enumeration / bin-packing decision search (cross-checked against a 2-D DP table, an include/exclude "
        "recursion and set-partition enumeration in vf.selftest)",
        "num/8 is exact in binary floating point, so the dyadic classes mean what they say",
    ],
}

SLACK = Fraction(1, 10**9)  # the code's own 1e-9 (knapsack.py: total_weight > capacity + 1e-9)


def _num(k, den, as_float):
    if den == 1 and not as_float:
        return k
    return k / den  # exact for den in {1, 8}; the correctly rounded decimal for 10/100


# ============================================================================= knapsack
# hundredths whose product with 1000 lands just below the integer (2.01*1000 = 2009.999...): the decimal inputs
# for which a truncating scale-to-integer step can lose a unit.  Computed from float arithmetic, not from solvOR.
FRAGILE_HUNDREDTHS = [k for k in range(1, 1001) if int(k / 100 * 1000) != 10 * k]


def _chance(draw, pct):
    """True with probability ~pct/100.  Hypothesis over-samples the ends of an integer range, so the draw is
    scrambled first; a shrunk case (draw -> 0) lands on False for pct <= 11."""
    return (draw(st.integers(0, 99)) * 37 + 11) % 100 < pct


def _size_n(draw, nmax, nmin=1):
    """n in nmin..nmax, the empty instance in ~3% of the cases."""
    return 0 if _chance(draw, 3) else draw(st.integers(nmin, nmax))


def _huge_int_case(draw, tier):
    """Integer data of large magnitude: capacity 100000..400000 (the statement's "exact for integer weights and
    capacity" has no size limit), a few very light items (0..3) next to heavy ones placed so that "all the light
    items plus one heavy item" fits exactly, by one unit, or misses by one unit.  Any implementation that coarsens
    the capacity axis (cells wider than 1) misjudges exactly these.  solvOR's DP is capacity-sized here (~0.13 us per
    cell and light item, a heavy item only touches capacity - weight cells), hence n <= 6 (thorough 8) and a ~6% share."""
    nmax = 8 if tier == "thorough" else 6
    if _chance(draw, 16):  # the boundary of any "table of at most 100000 cells" rule
        cap = draw(st.sampled_from([100000, 100001]))
    else:  # spread over the whole range (st.integers alone piles up just above the lower bound); shrinks to 111002
        k = (draw(st.integers(0, 299)) * 37 + 11) % 300
        cap = min(400000, 100002 + 1000 * k + draw(st.integers(0, 999)))
    n = draw(st.integers(2, nmax))
    n_light = draw(st.integers(max(1, n - 3), n - 1))  # mostly several light items and 1-3 heavy ones
    light = [0 if _chance(draw, 10) else draw(st.integers(1, 3)) for _ in range(n_light)]
    ls = sum(light)
    heavy = []
    for _ in range(n - n_light):
        kind = draw(st.sampled_from(["fill", "fill", "fill", "part", "part", "fill+1", "fill-1", "half", "cap"]))
        d = draw(st.integers(0, 3))
        if kind == "fill":  # together with every light item: exactly the capacity
            w = cap - ls
        elif kind == "fill+1":  # one unit too heavy for that: one light unit must stay out
            w = cap - ls + 1
        elif kind == "fill-1":
            w = cap - ls - 1
        elif kind == "half":  # two of these fit exactly / almost
            w = cap // 2 + d - 1
        elif kind == "cap":
            w = cap - d
        else:  # fills the capacity together with a subset of the light items
            w = cap - sum(x for x in light if draw(st.booleans()))
        heavy.append(min(cap, max(1, w)))
    weights = light + heavy
    # light items are worth little, heavy ones a lot or a little: the optimum needs the right mix
    hv = draw(st.sampled_from([1, 2, 5, 10, 20]))
    same = draw(st.booleans())  # equally valuable heavy items: the light items decide which one is right
    values = [0 if _chance(draw, 10) else draw(st.integers(1, 3)) for _ in light]
    values += [hv if same else draw(st.sampled_from([1, 2, 5, 10, 20])) for _ in heavy]
    perm = list(draw(st.permutations(range(n))))
    return {
        "cls": "int-huge",
        "family": "huge",
        "vden": 1,
        "values": [values[i] for i in perm],
        "wden": 1,
        "weights": [weights[i] for i in perm],
        "cap": cap,
        "minimize": _chance(draw, 10),
        "as_float": draw(st.booleans()),
        "tuples": draw(st.booleans()),
    }


@st.composite
def knap_cases(draw, tier="quick"):
    nmax = 14 if tier == "thorough" else 10
    r = draw(st.integers(0, 99))
    cls = "int" if r < 44 else "int-huge" if r < 50 else "dyadic" if r < 72 else "dyadic-fine" if r < 84 else "hundredths" if r < 96 else "dyadic-big"
    if cls == "int-huge":
        return _huge_int_case(draw, tier)
    family = draw(st.sampled_from(["uniform", "zero-cap", "exact-fill", "ties", "zero-weights", "trap"]))
    # wden: denominator of weights/capacity; wmax/cmax: largest numerators (dyadic-fine: in eighths, see fine())
    if cls == "int":
        wden, wmax, cmax = 1, 9, 20
    elif cls == "dyadic":
        wden, wmax, cmax = 8, 40, 80
    elif cls == "dyadic-fine":  # k/8 + e/1024: sums exceed the capacity by less than one unit of the scaled grid
        wden, wmax, cmax = 1024, 40, 80
        if family in ("zero-cap", "zero-weights"):  # covered by the other classes; this one is about near-misses
            family = "exact-fill"
    elif cls == "hundredths":
        wden, wmax, cmax = 100, 500, 1000
    else:  # capacity 100..200 in eighths: scale factor 100000/capacity is not a round number
        wden = 8
        cmax = draw(st.integers(801, 1600))
        wmax = cmax
        nmax = 4
        if family == "zero-cap":
            family = "uniform"
    n = draw(st.integers(3, max(3, nmax))) if family == "trap" else _size_n(draw, nmax)
    pzero = 40 if family in ("zero-weights", "zero-cap") else 10

    def fine(k):  # numerator over 1024 of k/8 plus a few 1/1024
        return k * 128 + draw(st.sampled_from([0, 0, 1, 1, 2, 3]))

    def one_weight():
        if _chance(draw, pzero):
            return 0
        if cls == "dyadic-fine":
            return max(1, fine(draw(st.integers(0, wmax))))
        if cls == "hundredths" and draw(st.integers(0, 3)) == 0:
            return draw(st.sampled_from([k for k in FRAGILE_HUNDREDTHS if k <= wmax]))
        return draw(st.integers(1, wmax))

    weights = [one_weight() for _ in range(n)]
    if cls == "dyadic-big":
        cap = cmax
    elif cls == "dyadic-fine":
        cap = fine(draw(st.integers(0, cmax)))
    elif cls == "hundredths" and draw(st.integers(0, 3)) == 0:
        cap = draw(st.sampled_from(FRAGILE_HUNDREDTHS))
    else:
        cap = 0 if _chance(draw, 4) else draw(st.integers(1, cmax))
    if family == "trap" and cap < 4:
        cap = fine(draw(st.integers(1, cmax))) if cls == "dyadic-fine" else draw(st.integers(4, cmax))
    climit = cmax * 128 + 3 if cls == "dyadic-fine" else cmax
    if family == "zero-cap":
        cap = 0
    elif family == "exact-fill" and n:
        pick = draw(st.lists(st.booleans(), min_size=n, max_size=n))
        tot = 0
        # dyadic-fine, half of the time: the capacity is the sum of the k/8 parts only, so the chosen subset
        # overshoots it by a few 1/1024 — less than one unit of any scaled integer grid (fallback territory)
        trunc = cls == "dyadic-fine" and draw(st.booleans())
        filled = []
        for i in range(n):
            if pick[i] and tot + weights[i] <= climit:
                if trunc and weights[i]:
                    weights[i] = weights[i] // 128 * 128 + 1
                tot += weights[i] // 128 * 128 if trunc else weights[i]
                filled.append(i)
        cap = tot
    vden = draw(st.sampled_from([1, 10] if cls == "int" else [1, 8, 10]))
    vmax = 20 * vden
    if family == "ties" and n:
        if draw(st.booleans()):
            base = draw(st.lists(st.integers(0, vmax), min_size=1, max_size=2))
            values = [draw(st.sampled_from(base)) for _ in range(n)]
        else:  # equal density: value proportional to weight (weightless items get a free value)
            c = draw(st.integers(1, 3))
            g = 128 if cls == "dyadic-fine" else 1
            values = [min(10**6, (w // g) * c) if w else draw(st.integers(0, 3)) for w in weights]
    elif family == "trap":
        # density greedy takes item 0 (a bit more than half the capacity, best ratio) and then nothing big fits;
        # items 1 and 2 together fill the capacity exactly and are worth more
        values = [draw(st.integers(0, vmax)) for _ in range(n)]
        a = draw(st.integers(cap // 2 + 1, cap - 1))
        b = draw(st.integers(1, cap - 1))
        d = draw(st.integers(1, 3))
        weights[0], weights[1], weights[2] = a, b, cap - b
        # value numerators proportional to weight numerators (values need not be small, only exact enough)
        values[0], values[1], values[2] = a * d + 1, b * d, (cap - b) * d
        perm = list(draw(st.permutations(range(n))))
        weights = [weights[i] for i in perm]
        values = [values[i] for i in perm]
    else:
        values = [draw(st.integers(0, vmax)) for _ in range(n)]
        if family == "exact-fill" and n and trunc:
            for i in filled:  # make the overshooting subset the one a scaled DP wants
                values[i] += vmax
    return {
        "cls": cls,
        "family": family,
        "vden": vden,
        "values": values,
        "wden": wden,
        "weights": weights,
        "cap": cap,
        "minimize": draw(st.sampled_from([False, False, True])),
        "as_float": draw(st.booleans()),
        "tuples": draw(st.booleans()),
    }


def run_knapsack(desc, ctx):
    from solvor.knapsack import solve_knapsack
    from solvor.types import Status

    vden, wden, fl = desc["vden"], desc["wden"], desc["as_float"]
    n = len(desc["values"])
    values = [_num(k, vden, fl) for k in desc["values"]]
    weights = [_num(k, wden, fl) for k in desc["weights"]]
    cap = _num(desc["cap"], wden, fl)
    minimize = desc["minimize"]
    if desc["tuples"]:
        values, weights = tuple(values), tuple(weights)
    # pv/pw/pcap: exact rationals of what was actually passed (feasibility and scoring are judged on these);
    # fv/fw/fcap: the instance as meant (k/den) — the same numbers for den 1 and 8; optimality is judged on these.
    pv = [Fraction(x) for x in values]
    pw = [Fraction(x) for x in weights]
    pcap = Fraction(cap)
    fv = [Fraction(k, vden) for k in desc["values"]]
    fw = [Fraction(k, wden) for k in desc["weights"]]
    fcap = Fraction(desc["cap"], wden)
    if wden in (1, 8) and (pw != fw or pcap != fcap) or vden in (1, 8) and pv != fv:
        raise AssertionError("dyadic data not exact")
    integer_data = fcap.denominator == 1 and all(x.denominator == 1 for x in fw)

    res = ctx.call(solve_knapsack, values, weights, cap, minimize=minimize)

    opt, _, n_opt = P.knapsack_best(fv, fw, fcap, minimize)
    greedy = P.greedy_density_value(fv, fw, fcap)
    ctx.label(desc["cls"], "fam-" + desc["family"], "minimize" if minimize else "maximize", f"vden-{vden}")
    ctx.label(integer_data and "integer-weights-and-capacity", n == 0 and "n=0", desc["cap"] == 0 and "cap=0")
    ctx.label(any(k == 0 for k in desc["weights"]) and "has-zero-weight", n_opt > 1 and "several-optima")
    ctx.label(desc["cap"] == 0 and any(w == 0 and v > 0 for w, v in zip(fw, fv)) and "cap=0-with-free-valuable-item")
    ctx.label(f"status-{getattr(res.status, 'name', res.status)}")
    ctx.size("knap-n", n)
    if minimize:
        ctx.nontrivial(any(v > 0 and w <= fcap for v, w in zip(fv, fw)))
    else:
        max_opt = opt
        ctx.label(greedy != max_opt and "greedy-suboptimal")
        ctx.nontrivial(greedy != max_opt)

    sel = res.solution
    if not isinstance(sel, (tuple, list)):
        raise Violation("knapsack:solution-not-a-sequence", repr(sel)[:200])
    for i in sel:
        if isinstance(i, bool) or not isinstance(i, int) or not 0 <= i < n:
            raise Violation("knapsack:index-out-of-range", {"solution": repr(sel)[:200], "n": n})
    if len(set(sel)) != len(sel):
        raise Violation("knapsack:index-repeated", {"solution": list(sel)})
    tw = sum((pw[i] for i in sel), Fraction(0))
    if tw > pcap + SLACK:
        raise Violation("knapsack:over-capacity", {"solution": list(sel), "weight": str(tw), "capacity": str(pcap)})
    obj = res.objective
    if isinstance(obj, bool) or not isinstance(obj, (int, float)) or obj != obj:
        raise Violation("knapsack:objective-not-a-number", repr(obj))
    # values <= 20, n <= 14: float summation error < 1e-12; the clause tolerance is the code's 1e-9
    pvsum = sum((pv[i] for i in sel), Fraction(0))
    if abs(Fraction(obj) - pvsum) > SLACK:
        raise Violation("knapsack:objective-vs-sum-of-values", {"solution": list(sel), "objective": obj, "sum": str(pvsum)})
    tv = sum((fv[i] for i in sel), Fraction(0))  # exact value of the chosen set in the instance as meant
    if res.status == Status.OPTIMAL:
        better = tv > opt if minimize else tv < opt  # "a subset within capacity has a better value"
        if integer_data:
            if better:
                raise Violation(
                    "knapsack:optimal-claimed-not-optimal",
                    {"solution": list(sel), "value": str(tv), "optimum": str(opt), "minimize": minimize},
                )
            if tv != opt:
                raise AssertionError(f"oracle inconsistency: feasible value {tv} beats 'optimum' {opt}")
        else:
            ctx.count("decimal:OPTIMAL-claims")
            if better:
                ctx.count("decimal:OPTIMAL-claims-with-gap")
                ctx.label("decimal-optimal-claim-with-gap")
                ctx.size("decimal:max-relative-gap", float(abs(opt - tv) / abs(opt)) if opt else 0.0)
    else:
        ctx.count("knapsack:non-OPTIMAL-status")
        if integer_data:  # allowed by the statement, but the scale factor is 1 there: worth seeing in the evidence
            ctx.count("knapsack:non-OPTIMAL-status-on-integer-data")
            ctx.label("integer-data-not-labelled-OPTIMAL")
        if not integer_data and (tv > opt if minimize else tv < opt):
            ctx.count("decimal:FEASIBLE-with-gap")


# ============================================================================= bin packing
# Every form the parser accepts (case-insensitive, "_" == "-", ff/bf aliases), including the pure-underscore forms
# of the decreasing variants.
SPELLINGS = {
    "first-fit": ["first-fit", "ff", "First_Fit", "FIRST-FIT", "FF", "first_fit"],
    "best-fit": ["best-fit", "bf", "best_fit", "Best-Fit", "BF"],
    "first-fit-decreasing": [
        "first-fit-decreasing", "ff-decreasing", "first_fit_decreasing", "ff_decreasing", "FF_Decreasing",
        "First-Fit_DECREASING", "FIRST_FIT_DECREASING", "first_fit-decreasing", "FF-DECREASING",
    ],
    "best-fit-decreasing": [
        "best-fit-decreasing", None, "bf-decreasing", "best_fit_decreasing", "bf_decreasing", "BEST_FIT_DECREASING",
        "Best_Fit-Decreasing", "best-fit_decreasing", "BF_Decreasing",
    ],
}  # fmt: skip


@st.composite
def pack_cases(draw, tier="quick"):
    nmax = 12 if tier == "thorough" else 9
    r = draw(st.integers(0, 99))
    den = 1 if r < 48 else 8 if r < 92 else 10
    family = draw(st.sampled_from(["uniform", "half-third", "pattern", "perfect", "full-zero", "asc-complements"]))
    algo = None
    if family == "asc-complements":
        # k items of size a, then k items of size cap-a-e (> cap/2), in that ascending order, plus up to k fillers
        # <= e.  OPT = k (the big items exclude each other, big+small+filler share a bin) and any-fit on the
        # *sorted* list finds it, while plain first/best-fit in the given order needs about 1.5k bins, beyond
        # 11/9 k + 6/9 from k = 4 on: the one place where "decreasing" that did not sort shows.  n up to 12 (14).
        if den == 10:
            den = 8
        k = draw(st.integers(4, 6 if tier == "thorough" else 5))
        half = draw(st.integers(5, 30))  # cap = 2*half or 2*half+1
        cap = 2 * half + draw(st.integers(0, 1))
        e = draw(st.integers(0, 2))
        lo = cap // 3 + 1 if draw(st.integers(0, 3)) else 1  # mostly cap/3 < a < cap/2: two small ones per bin
        hi = max(1, (cap - 1) // 2 - e)  # cap - a - e > cap/2
        a = draw(st.integers(min(lo, hi), hi))
        fillers = [draw(st.integers(0, e)) for _ in range(draw(st.integers(0, 2)))]
        sizes = [a] * k + [cap - a - e] * k
        where = draw(st.sampled_from(["front", "back", "middle"]))
        sizes = fillers + sizes if where == "front" else sizes + fillers if where == "back" else [a] * k + fillers + [cap - a - e] * k
        algo = draw(st.sampled_from(["first-fit-decreasing", "best-fit-decreasing"]))
    elif family == "uniform":
        cap = draw(st.integers(1, 20 if den == 1 else 20 * den if den == 8 else 30))
        n = _size_n(draw, nmax)
        sizes = [draw(st.integers(0, cap)) for _ in range(n)]
    elif family == "half-third":
        cap = draw(st.integers(12, 60))
        n = draw(st.integers(1, nmax))
        sizes = []
        for _ in range(n):
            div = draw(st.sampled_from([2, 2, 3, 3, 3, 4]))
            d = draw(st.integers(-2, 2))
            sizes.append(min(cap, max(0, cap // div + d)))
    elif family == "pattern":
        s = draw(st.integers(1, 8))
        cap = 10 * s
        sizes = [4 * s, 4 * s, 3 * s, 3 * s, 3 * s, 3 * s]
        extra = draw(st.lists(st.integers(0, 3 * s), max_size=nmax - 6))
        sizes += extra
        if draw(st.integers(0, 3)) == 0:  # a perturbed copy
            j = draw(st.integers(0, 5))
            sizes[j] = max(0, sizes[j] + draw(st.integers(-1, 1)))
    elif family == "perfect":
        cap = draw(st.integers(2, 40))
        bins = draw(st.integers(1, 4 if tier == "thorough" else 3))
        sizes = []
        for _ in range(bins):
            cuts = sorted(draw(st.lists(st.integers(1, cap - 1), max_size=3)))
            parts = [b - a for a, b in zip([0] + cuts, cuts + [cap])]
            sizes += parts
        sizes = sizes[:nmax]
    else:
        cap = draw(st.integers(1, 24))
        n = _size_n(draw, nmax)
        sizes = [draw(st.sampled_from([0, 0, cap, cap, max(0, cap - 1), draw(st.integers(0, cap))])) for _ in range(n)]
    if len(sizes) > 1 and family != "asc-complements":
        order = draw(st.sampled_from(["given", "shuffled", "increasing"]))
        if order == "shuffled":
            sizes = list(draw(st.permutations(sizes)))
        elif order == "increasing":
            sizes = sorted(sizes)
    if algo is None:
        algo = draw(st.sampled_from(sorted(SPELLINGS)))
    spelling = draw(st.sampled_from(SPELLINGS[algo]))
    return {
        "family": family,
        "den": den,
        "sizes": sizes,
        "cap": cap,
        "algo": algo,
        "spelling": spelling,
        "as_float": draw(st.booleans()),
        "tuples": draw(st.booleans()),
    }


def run_bin_pack(desc, ctx):
    from solvor.bin_pack import solve_bin_pack
    from solvor.types import Status

    den, fl = desc["den"], desc["as_float"]
    n = len(desc["sizes"])
    sizes = [_num(k, den, fl) for k in desc["sizes"]]
    cap = _num(desc["cap"], den, fl)
    if desc["tuples"]:
        sizes = tuple(sizes)
    algo, spelling = desc["algo"], desc["spelling"]
    if spelling is None:
        res = ctx.call(solve_bin_pack, sizes, cap)
    else:
        res = ctx.call(solve_bin_pack, sizes, cap, algorithm=spelling)
    decreasing = algo.endswith("decreasing")

    # The instance as *meant* (k/den) — identical to what was passed for den 1 and 8.  For tenths the
    # meant rationals are used for OPT and the ceil bound (a float placement is always a placement of
    # the meant instance: meant sizes differ by >= 0.1, float fuzz is ~1e-16), the passed floats for loads.
    ms = [Fraction(k, den) for k in desc["sizes"]]
    mcap = Fraction(desc["cap"], den)
    ps = [Fraction(x) for x in sizes]
    pcap = Fraction(cap)
    exact = den in (1, 8)
    if exact and (ps != ms or pcap != mcap):
        raise AssertionError("dyadic data not exact")
    opt = P.bin_pack_opt(ms, mcap)
    lb = P.ceil_div(sum(ms, Fraction(0)), mcap)
    # tenths only: the floats passed are a slightly different instance (0.1+0.2 > 0.3 as floats); claims are held
    # against the more lenient of the two readings, the dyadic/integer classes have one reading only
    opt_passed = opt if exact else P.bin_pack_opt(ps, pcap)
    opt_hi, opt_lo = max(opt, opt_passed), min(opt, opt_passed)
    lb = lb if exact else min(lb, P.ceil_div(sum(ps, Fraction(0)), pcap))
    ffd = P.first_fit_decreasing(ms, mcap)
    presorted = all(desc["sizes"][i] >= desc["sizes"][i + 1] for i in range(n - 1))
    ctx.label("fam-" + desc["family"], algo, f"den-{den}", spelling not in (algo,) and "alt-spelling", spelling is None and "default-algorithm")
    ctx.label(spelling is not None and "_" in spelling and "-" not in spelling and "underscore-only-spelling")
    ctx.label(any(k == 0 for k in desc["sizes"]) and "has-zero-size", any(k == desc["cap"] for k in desc["sizes"]) and "item==capacity")
    ctx.label(n == 0 and "n=0", opt > lb and "OPT>ceil-bound", ffd > opt and "FFD-hard", f"OPT-{min(opt, 4)}{'+' if opt >= 4 else ''}")
    ctx.label(f"status-{getattr(res.status, 'name', res.status)}")
    ctx.size("pack-n", n)
    ctx.size("pack-OPT", opt)
    ctx.nontrivial(opt >= 2 and not presorted)

    a = res.solution
    if not isinstance(a, (tuple, list)):
        raise Violation("binpack:solution-not-a-sequence", repr(a)[:200])
    if len(a) != n:
        raise Violation("binpack:not-every-item-assigned-once", {"n": n, "len": len(a)})
    for b in a:
        if isinstance(b, bool) or not isinstance(b, int) or b < 0:
            raise Violation("binpack:bin-index-not-a-natural", {"assignment": repr(a)[:200]})
    used = sorted(set(a))
    k = len(used)
    if used != list(range(k)):
        raise Violation("binpack:bins-not-0..k-1", {"assignment": list(a)})
    obj = res.objective
    if isinstance(obj, bool) or not isinstance(obj, (int, float)) or obj != k:
        raise Violation("binpack:objective-vs-bins-used", {"objective": repr(obj), "bins": k, "assignment": list(a)})
    loads = [Fraction(0)] * k
    for i, b in enumerate(a):
        loads[b] += ps[i]
    for b in range(k):
        if loads[b] > pcap * (1 + SLACK):
            raise Violation("binpack:bin-over-capacity", {"bin": b, "load": str(loads[b]), "capacity": str(pcap), "assignment": list(a)})
    if k < lb:
        raise Violation("binpack:below-ceil-total-over-capacity", {"k": k, "bound": lb, "assignment": list(a)})
    if k < opt_lo:
        if exact:  # loads were verified exactly (the 1e-9 slack cannot matter on k/8 data): impossible
            raise AssertionError(f"oracle inconsistency: verified packing with {k} bins below 'optimum' {opt}")
        raise Violation("binpack:fewer-bins-than-possible", {"k": k, "opt": opt_lo, "assignment": list(a)})
    ctx.label(k > opt and "k>OPT")
    if decreasing:
        if 9 * k > 11 * opt + 6:
            if exact:
                raise Violation("binpack:decreasing-bound-11/9", {"k": k, "opt": opt, "algorithm": algo, "assignment": list(a)})
            ctx.count("tenths:decreasing-bound-exceeded")  # statistic only: float fuzz may reject an exact fit
    if res.status == Status.OPTIMAL:
        ctx.count("binpack:OPTIMAL-claims")
        if k > opt_hi:
            raise Violation("binpack:optimal-claimed-not-minimal", {"k": k, "opt": opt_hi, "assignment": list(a)})
        if k != opt:
            ctx.count("tenths:OPTIMAL-only-under-the-float-reading")


SUBS = [
    Sub("knapsack", run_knapsack, strategy=lambda tier: knap_cases(tier), quick=1500, thorough=5000, workers_quick=4),
    Sub("bin_pack", run_bin_pack, strategy=lambda tier: pack_cases(tier), quick=1200, thorough=5000, workers_quick=4),
]
