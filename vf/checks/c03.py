"""C03 — LP verdicts and optima are exact (simplex; interior point when it says OPTIMAL)."""
from __future__ import annotations

from fractions import Fraction as Fr

from hypothesis import strategies as st

from ..harness import Inconclusive, Sub, Violation
from ..oracles import lp_exact

PROPERTY = "C03"
META = {
    "level": "exploration",
    "rule": (
        "Generated LPs min/max c.x, Ax<=b, x>=0 with n<=5, m<=6 (+box rows; thorough n<=7, m<=9), integer and quarter "
        "coefficients, built by labelled constructions: free random, degenerate vertex (k>n rows tight at an integer "
        "point), scaled-duplicate/redundant/parallel rows, negative right-hand sides (phase 1) feasible and infeasible, zero "
        "rows (b>=0 and b<0), zero columns (c of either sign -> unbounded), ratio-test ties, optional boxes. Oracle: exact "
        "rational LP (Bland simplex on Fractions, cross-checked with vertex enumeration in vf.selftest; vertex enumeration is "
        "also run directly on small cases). solve_lp: status == exact verdict, point feasible within 1e-6(1+|b|), objective == "
        "c.x == optimum within 1e-6 relative; MAX_ITER accepted only as the stated escape. solve_lp_interior: no exception, "
        "OPTIMAL => exact verdict optimal, point feasible 1e-5, objective within 1e-5(1+|opt|+|x|_1); FEASIBLE => x>=0 and "
        "||(Ax-b)+||_2 <= 0.01. Non-trivial = phase 1 needed, or verdict infeasible/unbounded, or a degenerate/tied "
        "construction. Distinct = canonical JSON."
    ),
    "assumptions": ["exact rational LP oracle (two implementations cross-checked)", "data are dyadic so float inputs are exact"],
}

Q = [x / 4 for x in range(-36, 37)]


@st.composite
def lps(draw, tier="quick"):
    nmax, mmax = (7, 9) if tier == "thorough" else (5, 6)
    n = draw(st.integers(1, nmax))
    m = draw(st.integers(1, mmax))
    coef = st.one_of(st.integers(-9, 9), st.integers(-3, 3), st.just(0), st.sampled_from(Q))
    A = [[draw(coef) for _ in range(n)] for _ in range(m)]
    b = [draw(st.one_of(st.integers(-6, 12), st.integers(0, 12))) for _ in range(m)]
    c = [draw(st.integers(-6, 6)) for _ in range(n)]
    tags = []
    kinds = draw(st.lists(st.sampled_from(["degenerate", "dup", "redundant", "zero-row", "zero-col", "box", "box", "neg-rhs", "tie", "free-ray"]), max_size=3, unique=True))
    if "degenerate" in kinds:
        xs = [draw(st.integers(0, 3)) for _ in range(n)]
        k = draw(st.integers(min(m, n + 1), m)) if m >= 1 else 0
        for i in range(k):
            b[i] = sum(Fr(A[i][j]) * xs[j] for j in range(n))
            b[i] = float(b[i])
        tags.append("degenerate-vertex")
    if "dup" in kinds and m >= 1:
        i = draw(st.integers(0, m - 1))
        s = draw(st.sampled_from([1, 2, 0.5, 3]))
        A.append([a * s for a in A[i]])
        b.append(b[i] * s)
        tags.append("scaled-duplicate-row")
    if "redundant" in kinds and m >= 1:
        i = draw(st.integers(0, m - 1))
        A.append(list(A[i]))
        b.append(b[i] + draw(st.integers(0, 3)))
        tags.append("redundant-parallel-row")
    if "tie" in kinds and m >= 1:
        # same ratio b_i/a_ij in a second row for column j: ties in the ratio test
        i = draw(st.integers(0, m - 1))
        s = draw(st.sampled_from([2, 3]))
        row = [a * s for a in A[i]]
        j = draw(st.integers(0, n - 1))
        for jj in range(n):
            if jj != j:
                row[jj] = draw(st.integers(-3, 3))
        A.append(row)
        b.append(b[i] * s)
        tags.append("ratio-tie")
    if "neg-rhs" in kinds:
        i = draw(st.integers(0, len(b) - 1))
        b[i] = -abs(b[i]) - draw(st.integers(0, 3))
        if draw(st.booleans()):  # make "-x_j <= -k" style rows so feasibility is common
            j = draw(st.integers(0, n - 1))
            A[i] = [(-1 if jj == j else 0) for jj in range(n)]
        tags.append("negative-rhs")
    if "zero-row" in kinds:
        i = draw(st.integers(0, len(b) - 1))
        A[i] = [0] * n
        b[i] = draw(st.sampled_from([0, 2, -1]))
        tags.append("zero-row")
    if "zero-col" in kinds:
        j = draw(st.integers(0, n - 1))
        for r in A:
            r[j] = 0
        tags.append("zero-column")
    minimize = draw(st.booleans())
    ip_max_iter = draw(st.sampled_from([None, None, None, None, 7, 40]))
    if "free-ray" in kinds and n >= 2 and "box" not in kinds:
        # an unconstrained variable with an improving objective (unbounded ray) while the origin is infeasible:
        # iterates of an infeasible-start method diverge; the iteration budget decides where they are cut off
        z = draw(st.integers(0, n - 1))
        for r in A:
            r[z] = 0
        c[z] = -draw(st.integers(1, 3)) if minimize else draw(st.integers(1, 3))
        j = draw(st.sampled_from([k for k in range(n) if k != z]))
        A.append([(-1 if k == j else 0) for k in range(n)])
        b.append(-draw(st.integers(1, 3)))
        ip_max_iter = draw(st.one_of(st.none(), st.integers(8, 48), st.integers(8, 48)))
        tags.append("free-ray-origin-infeasible")
    if "box" in kinds:
        U = draw(st.integers(1, 6))
        for j in range(n):
            A.append([1 if jj == j else 0 for jj in range(n)])
            b.append(U)
        tags.append("boxed")
    order = draw(st.permutations(range(len(b))))
    A = [A[i] for i in order]
    b = [b[i] for i in order]
    return {
        "c": c,
        "A": A,
        "b": b,
        "minimize": minimize,
        "ip_max_iter": ip_max_iter,
        "tags": tags,
        "max_iter": draw(st.sampled_from([None] * 9 + [1, 3])),
    }


def exact(desc):
    A = [[Fr(v) for v in r] for r in desc["A"]]
    b = [Fr(v) for v in desc["b"]]
    c = [Fr(v) for v in desc["c"]]
    return A, b, c, lp_exact.lp_simplex(c, A, b, desc["minimize"])


def classify(desc, ref, ctx):
    ctx.label(*desc["tags"], "ref-" + ref[0], "minimize" if desc["minimize"] else "maximize", any(v < 0 for v in desc["b"]) and "phase1")
    ctx.size("n", len(desc["c"]))
    ctx.size("m", len(desc["b"]))
    ctx.nontrivial(any(v < 0 for v in desc["b"]) or ref[0] != "optimal" or any(t in desc["tags"] for t in ("degenerate-vertex", "ratio-tie", "scaled-duplicate-row")))


def check_point(tag, desc, x, tol_rel):
    A, b = desc["A"], desc["b"]
    n = len(desc["c"])
    if not isinstance(x, (tuple, list)) or len(x) != n:
        raise Violation(f"{tag}:solution-shape", repr(x)[:100])
    for j, v in enumerate(x):
        if not (v >= -tol_rel):
            raise Violation(f"{tag}:negative-variable", {"j": j, "x": v})
    for i, row in enumerate(A):
        lhs = sum(a * v for a, v in zip(row, x))
        if not (lhs <= b[i] + tol_rel * (1 + abs(b[i]))):
            raise Violation(f"{tag}:constraint-violated", {"row": i, "lhs": lhs, "b": b[i]})


def run_simplex(desc, ctx):
    from solvor.simplex import solve_lp

    A, b, c, ref = exact(desc)
    classify(desc, ref, ctx)
    if len(desc["c"]) <= 3 and len(desc["b"]) <= 6:  # second, independent oracle on the small ones
        ref2 = lp_exact.lp_vertices(c, A, b, desc["minimize"])
        if ref2[0] != ref[0] or (ref[0] == "optimal" and ref2[1] != ref[1]):
            raise RuntimeError(f"oracles disagree: {ref} vs {ref2}")
    kw = {} if desc["max_iter"] is None else {"max_iter": desc["max_iter"]}
    res = ctx.call(solve_lp, desc["c"], desc["A"], desc["b"], minimize=desc["minimize"], **kw)
    status = res.status.name
    if status == "MAX_ITER":
        ctx.label("MAX_ITER")
        if desc["max_iter"] is None:
            ctx.label("MAX_ITER-at-default-limit")
        raise Inconclusive("MAX_ITER (stated escape)")
    want = {"optimal": "OPTIMAL", "infeasible": "INFEASIBLE", "unbounded": "UNBOUNDED"}[ref[0]]
    if status != want:
        raise Violation(f"simplex:verdict-{status}-but-{want}", {"exact": str(ref[1])})
    if status == "OPTIMAL":
        x = res.solution
        check_point("simplex", desc, x, 1e-6)
        cx = sum(ci * xi for ci, xi in zip(desc["c"], x))
        opt = float(ref[1])
        if abs(res.objective - cx) > 1e-6 * (1 + abs(cx)):
            raise Violation("simplex:objective-not-cx", {"objective": res.objective, "cx": cx})
        if abs(res.objective - opt) > 1e-6 * (1 + abs(opt)):
            raise Violation("simplex:objective-not-optimal", {"objective": res.objective, "optimum": opt})


def run_interior(desc, ctx):
    from solvor.interior_point import solve_lp_interior

    A, b, c, ref = exact(desc)
    classify(desc, ref, ctx)
    kw = {} if desc.get("ip_max_iter") is None else {"max_iter": desc["ip_max_iter"]}
    ctx.label(kw and "ip-max_iter-set")
    res = ctx.call(solve_lp_interior, desc["c"], desc["A"], desc["b"], minimize=desc["minimize"], **kw)  # any exception = crash bucket
    status = res.status.name
    ctx.label("ip-" + status)
    x = res.solution
    if status == "OPTIMAL":
        if ref[0] != "optimal":
            raise Violation(f"interior:OPTIMAL-but-{ref[0]}", {"objective": res.objective})
        check_point("interior", desc, x, 1e-5)
        opt = float(ref[1])
        tol = 1e-5 * (1 + abs(opt) + sum(abs(v) for v in x))
        cx = sum(ci * xi for ci, xi in zip(desc["c"], x))
        if abs(res.objective - cx) > tol:
            raise Violation("interior:objective-not-cx", {"objective": res.objective, "cx": cx})
        if abs(res.objective - opt) > tol:
            raise Violation("interior:OPTIMAL-objective-not-optimal", {"objective": res.objective, "optimum": opt})
    elif status == "FEASIBLE":
        if not isinstance(x, (tuple, list)) or len(x) != len(desc["c"]):
            raise Violation("interior:solution-shape", repr(x)[:100])
        if any(not (v >= 0) for v in x):
            raise Violation("interior:FEASIBLE-negative-variable", {"x": list(x)})
        viol = sum(max(0.0, sum(a * v for a, v in zip(row, x)) - bi) ** 2 for row, bi in zip(desc["A"], desc["b"])) ** 0.5
        if not (viol <= 0.01 + 1e-9):
            raise Violation("interior:FEASIBLE-residual-above-0.01", {"residual": viol})
        if ref[0] == "infeasible":
            ctx.label("ip-FEASIBLE-on-infeasible(within-0.01)")
    elif status not in ("MAX_ITER", "INFEASIBLE", "UNBOUNDED"):
        raise Violation("interior:unexpected-status", {"status": status})


SUBS = [
    Sub("solve_lp", run_simplex, strategy=lambda tier: lps(tier), quick=2000, thorough=8000, workers_quick=8),
    Sub("solve_lp_interior", run_interior, strategy=lambda tier: lps(tier), quick=1000, thorough=4000, workers_quick=8),
]
