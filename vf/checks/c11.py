"""C11 — shortest-path solvers return true shortest distances and real paths.

Five sub-checks, one oracle module (vf/oracles/graphs_sp.py, exact Fractions):

  dijkstra_astar   dijkstra / astar (h = lambda * true distance to the goal set, weight 1) /
                   dijkstra_edges(backend="python") on weighted digraphs, goal as value or predicate,
                   max_cost / max_iter limits
  bfs_dfs          bfs / dfs / bfs_edges / dfs_edges(backend="python") on unweighted digraphs
  bellman_ford     bellman_ford(backend="python"), negative weights, negative cycles reachable or not
  floyd_warshall   floyd_warshall(backend="python"), directed and undirected, negative cycle present/absent
  astar_grid       astar_grid on grids with obstacles, 4/8 neighbours, all built-in heuristics, costs maps

All weights are multiples of 1/2 of small magnitude, so every partial sum a solver can form is an
exactly representable float and distances are compared with `==` on Fractions.  Only the grid check
has irrational numbers (sqrt 2); there the oracle is exact in Q(sqrt 2) and the comparison uses 1e-9
(costs are < 200 and are sums of < 40 terms: accumulated rounding error < 40 * 200 * 2^-52 ~ 2e-12).
"""
from __future__ import annotations

import math
from fractions import Fraction

from hypothesis import strategies as st

from ..harness import Inconclusive, Sub, Violation
from ..oracles import graphs_sp as G

PROPERTY = "C11"
META = {
    "level": "exploration",
    "rule": (
        "Generated: weighted digraphs with n<=8 nodes (quick; <=10 thorough), node labels of ten kinds (ints, strs, tuples, "
        "mixed, frozensets, huge/negative ints, exotic hashables: None, '', (), 0, frozenset(), b'', -1/-2 and tuples of them "
        "(equal hashes), 2**70, a class whose instances all share one hash; all-colliding labels; negative ints), parallel edges with different weights, self loops, zero weights, cycles; "
        "weights from {0,1,2,3,5,0.5,2.5} (bellman_ford/floyd_warshall also {-0.5,-1,-2,-2.5,-3}); families: uniform, dense, "
        "parallel-heavy, backbone (arborescence + extras), detour (heavy direct edge vs cheap multi-hop route), greedy-trap "
        "(route starting with one heavy edge beats a longer route of light edges only - wrong frontier orders settle the "
        "target too early), ladder (two disjoint routes of different hop count, bfs/dfs), potential-shifted (negative edges, no "
        "negative cycle), planted negative cycle attached in/out/both/not at all, reversed-order Hamiltonian chain; goal as "
        "value, as predicate matching 1..3 nodes or none, or a label not in the graph; max_cost and max_iter limits; astar "
        "heuristic = lambda * exact distance to the goal set (inf on dead ends), lambda in {0,1/4,1/2,3/4,1}; grids <=6x6 "
        "(<=8x8 thorough) with random obstacles, start/goal anywhere (blocked, identical), 4/8 neighbours, the five heuristic "
        "names, blocked as int or set, costs maps, weights 1/0.5/1.5/2, plus barrier families (blocked wall / expensive band "
        "with one or two gaps between start and goal). Oracle: exact synchronous Bellman-Ford DP, min-plus "
        "matrix squaring, closure on the reachable sub-graph for negative-cycle reachability, BFS layers, label-correcting "
        "search in Q(sqrt2) for grids. MAX_ITER is accepted only when the limit can really run out before the goal is taken "
        "from the frontier: bfs: max_iter < #{nodes no deeper than the nearest goal}; dijkstra/astar: max_iter < #{nodes no "
        "farther than the goal}; goal unreachable, dfs, grid, past max_cost: max_iter <= #nodes reachable from the start. "
        "Families added later: bushy (bfs/dfs: hub with 4-8 successors, goals at depth 1 and 2, small max_iter) and a power-of-two "
        "scale 2^-40..2^12 on all weights of bellman_ford/floyd_warshall cases (tiny negative cycles; same oracle, exact). Non-trivial = the (nearest) target has >=2 simple paths of "
        "different cost, or a negative edge lies on an optimal path, or a negative cycle exists that is not reachable from "
        "the source (floyd_warshall: some pair with two simple paths of different cost, or a negative cycle with n>=2); "
        "grid: two simple routes of different cost from start to goal. Call histories: about a third of the cases carry one "
        "generated in-place edit (add / remove / re-weight an edge, shortcut to the target, cut or raise an edge on an optimal "
        "route; grids: block a cell of the returned path or rewrite a cell); the query is asked, the caller's adjacency dict / "
        "edge list / grid is edited in place, and the query is asked again through the SAME neighbour-function, heuristic, "
        "start, goal, list and grid objects; every answer is judged against the oracle for what those objects hold at the "
        "moment of the call; a wrong second answer that is right through fresh objects gets the bucket suffix "
        ":stale-after-graph-edit. A call that modifies its arguments is only labelled (arguments-mutated). "
        "Distinct = canonical JSON of the case."
    ),
    "assumptions": [
        "reference shortest paths on Fractions (three-way cross-check DP / min-plus closure / brute-force simple paths in vf.selftest)",
        "dyadic weights: float sums are exact; sqrt2 grid costs compared with 1e-9",
        "grid move relation as pinned by the repository tests: price of a move = costs.get(value of the entered cell, 1), times sqrt2 on diagonals; diagonal moves never blocked by corners",
    ],
}

W_POS = [0, 1, 2, 3, 5, 0.5, 2.5]
W_NEG = [-1, -2, -3, -0.5, -2.5]
LAMBDAS = [0, Fraction(1, 4), Fraction(1, 2), Fraction(3, 4), 1]


class Collide:
    """Hashable label whose instances all share one hash value but are equal only to themselves-by-key."""

    __slots__ = ("k",)

    def __init__(self, k):
        self.k = k

    def __hash__(self):
        return 7

    def __eq__(self, other):
        return isinstance(other, Collide) and other.k == self.k

    def __repr__(self):
        return f"Collide({self.k})"


def _exotic():
    # Pairwise UNEQUAL hashables (no 0/False/0.0 or 1/True/1.0 mixing: those are equal dict keys).  None and falsy
    # values; equal hashes on distinct labels: hash(-1) == hash(-2), (-1, 0)/(-2, 0), (0, -1)/(0, -2),
    # hash("") == hash(b"") == hash(0) == 0, all Collide instances; a huge int; bytes.  Built afresh on every call.
    return [None, -1, -2, "", Collide(0), (), 0, Collide(1), (-1, 0), (-2, 0), frozenset(), b"", 2**70, (0, -1), (0, -2), b"\x00", Collide(2)]


def lab(scheme, i):
    if scheme == 0:
        return i
    if scheme == 1:
        return f"n{i}"
    if scheme == 2:
        return (i // 3, i % 3)
    if scheme == 3:
        return [i, f"n{i}", (i, "x")][i % 3]
    if scheme == 4:
        return frozenset({i, -1})
    if scheme == 6:  # exotic hashables, None first
        return _exotic()[i]
    if scheme == 7:  # every label collides with every other one in hash
        return Collide(i)
    if scheme == 8:  # exotic hashables, rotated (so that other members meet on small graphs)
        t = _exotic()
        return t[(i + 7) % len(t)]
    if scheme == 9:  # negative ints: -1/-2 collide
        return -1 - i
    return (i - 3) * 1000000007


def _finite(x):
    return isinstance(x, (int, float)) and not isinstance(x, bool) and math.isfinite(x)


def _exact(x):
    """Objective as an exact number, or None when it is not a finite real."""
    return Fraction(x) if _finite(x) else None


# ----------------------------------------------------------------------------- strategies
# Hypothesis favours the first element of sampled_from and short lists; the interesting choice is
# therefore listed first and edge counts are drawn explicitly (st.lists alone averages ~5 elements).
SCHEMES = [6, 3, 7, 8, 1, 9, 2, 4, 5, 0]


def _sizes(tier):
    if tier == "thorough":
        return [6, 7, 8, 5, 4, 9, 10, 8, 7, 3, 6, 5, 2, 1]
    return [6, 7, 8, 5, 4, 8, 7, 3, 6, 5, 2, 1]


def _edge_list(draw, n, lo, hi, weights):
    m = draw(st.integers(lo, hi))
    e = draw(st.lists(st.tuples(st.integers(0, n - 1), st.integers(0, n - 1), st.sampled_from(weights)), min_size=m, max_size=m))
    return [list(x) for x in e]


EDIT_OPS = ["shortcut", "cut", "raise", "add", "remove", "reweight"]


def _edit(n, weights):
    """One in-place edit of the graph between two identical queries (see "call histories" below)."""
    return st.fixed_dictionaries({
        "op": st.sampled_from(EDIT_OPS), "u": st.integers(0, n - 1), "v": st.integers(0, n - 1),
        "w": st.sampled_from(weights), "ws": st.sampled_from([0, 0.5, 1]), "k": st.integers(0, 63),
    })


def _backbone(draw, n, weights):
    """Random arborescence rooted at order[0]: every node becomes reachable from the root."""
    order = list(draw(st.permutations(range(n))))
    out = []
    for i in range(1, n):
        out.append([order[draw(st.integers(0, i - 1))], order[i], draw(st.sampled_from(weights))])
    return order[0], out


def _goal(draw, n, allow_none=False):
    kinds = ["value", "pred-multi", "pred", "value", "pred-multi", "value", "pred", "value", "absent", "pred-none", "value", "pred"]
    if allow_none:
        kinds.append("none")
    kind = draw(st.sampled_from(kinds))
    node = st.integers(0, n - 1).map(lambda x: n - 1 - x)
    if kind == "value":
        return {"as": "value", "ts": [draw(node)]}
    if kind == "pred":
        return {"as": "pred", "ts": [draw(node)]}
    if kind == "pred-multi":
        ts = draw(st.lists(node, min_size=2, max_size=3, unique=True)) if n >= 2 else [0]
        return {"as": "pred", "ts": sorted(ts)}
    if kind == "absent":
        return {"as": "value", "ts": [n]}
    if kind == "none":
        return {"as": "none", "ts": []}
    return {"as": "pred", "ts": []}


@st.composite
def weighted_cases(draw, tier="quick"):
    fam = draw(st.sampled_from(["backbone", "greedy-trap", "detour", "dense", "parallel", "uniform", "greedy-trap", "backbone"]))
    n = draw(st.sampled_from(_sizes(tier)))
    if fam == "greedy-trap" and n < 5:
        fam = "detour"
    s = draw(st.integers(0, n - 1))
    goal = _goal(draw, n)
    if fam == "dense":
        edges = _edge_list(draw, n, n, 4 * n, W_POS)
    elif fam == "uniform":
        edges = _edge_list(draw, n, 0, 2 * n + 2, W_POS)
    else:
        root, edges = _backbone(draw, n, W_POS)
        edges += _edge_list(draw, n, n // 2, 2 * n, W_POS)
        if draw(st.integers(0, 4)) > 0:
            s = root
    if fam == "parallel" and edges:
        extra = draw(st.lists(st.tuples(st.integers(0, len(edges) - 1), st.sampled_from(W_POS)), min_size=2, max_size=8))
        edges += [[edges[i][0], edges[i][1], w] for i, w in extra]
    if fam == "detour" and n >= 3:
        # heavy direct edge s->t against a cheap route through k intermediate nodes
        order = draw(st.permutations(range(n)))
        k = draw(st.integers(1, min(4, n - 2)))
        chain = list(order[: k + 2])
        s = chain[0]
        t = chain[-1]
        cheap = st.sampled_from([0, 0.5, 1])
        for a, b in zip(chain, chain[1:]):
            edges.append([a, b, draw(cheap)])
        edges.append([s, t, draw(st.sampled_from([2, 2.5, 3, 5]))])
        if goal["ts"] and goal["ts"][0] < n:
            goal = {"as": goal["as"], "ts": sorted(set([t] + goal["ts"][1:]))}
    if fam == "greedy-trap":
        # Route A starts with a heavy edge and is cheap afterwards; route B consists of light edges only
        # but is longer in total.  A search that orders its frontier by anything but the path cost
        # (last edge, hop count, f of the wrong node) walks down B and settles the target too early.
        order = list(draw(st.permutations(range(n))))
        s, t, rest = order[0], order[1], order[2:]
        na = draw(st.integers(1, min(2, len(rest) - 2)))
        nb_ = draw(st.integers(2, len(rest) - na))
        ra = [s] + rest[:na] + [t]
        rb = [s] + rest[na : na + nb_] + [t]
        edges = edges[: draw(st.integers(0, min(len(edges), n)))] if draw(st.booleans()) else []
        edges.append([ra[0], ra[1], draw(st.sampled_from([2, 2.5, 3, 5]))])
        for a, b in zip(ra[1:], ra[2:]):
            edges.append([a, b, draw(st.sampled_from([0, 0.5, 0]))])
        for a, b in zip(rb, rb[1:]):
            edges.append([a, b, draw(st.sampled_from([1, 0.5, 2, 1]))])
        if goal["ts"] and goal["ts"][0] < n:
            goal = {"as": goal["as"], "ts": sorted(set([t] + goal["ts"][1:]))}
    if len(edges) > 1:
        edges = [list(e) for e in draw(st.permutations(edges))]
    return {
        "family": fam,
        "n": n,
        "scheme": draw(st.sampled_from(SCHEMES)),
        "edges": edges,
        "s": s,
        "goal": goal,
        "lam": draw(st.sampled_from([4, 2, 0, 1, 3])),
        "max_cost": draw(st.one_of(st.none(), st.none(), st.sampled_from([2, 1, 3, 0.5, 4, 6, 0, 10]))),
        "max_iter": draw(st.one_of(st.none(), st.none(), st.none(), st.integers(0, n + 1))),
        "nb": draw(st.sampled_from(["list", "raw", "gen", "tuple"])),
        "edges_api": draw(st.booleans()),
        "edit": draw(st.one_of(st.none(), _edit(n, W_POS))),
    }


@st.composite
def _bushy_case(draw, tier="quick"):
    """Wide fan-out under a small iteration limit: s -> [hub, a, ...], hub -> 4..8 successors; goals (usually a predicate)
    sit at depth 1 (behind the hub in s's list) AND among the hub's successors.  Expanding the hub makes the frontier
    longer than max_iter while the shallow goal still waits in it."""
    n = draw(st.sampled_from([8, 9, 10, 7]))
    order = list(draw(st.permutations(range(n))))
    s = order[0]
    k1 = draw(st.integers(2, 3))
    level1 = order[1 : 1 + k1]
    rest = order[1 + k1 :]
    fan = draw(st.integers(min(4, len(rest)), len(rest)))
    level2 = rest[:fan]
    if draw(st.integers(0, 2)) == 0:
        level1 = list(draw(st.permutations(level1)))
    hub = level1[0] if draw(st.integers(0, 3)) > 0 else draw(st.sampled_from(level1))
    pairs = [[s, v] for v in level1] + [[hub, v] for v in level2]
    pairs += [e[:2] for e in _edge_list(draw, n, 0, 3, [1])]
    shallow = draw(st.sampled_from([v for v in level1 if v != hub]))
    deep = draw(st.lists(st.sampled_from(level2), min_size=1, max_size=2, unique=True))
    kind = draw(st.sampled_from(["pred", "pred", "pred", "value", "deep-only"]))
    if kind == "pred":
        goal = {"as": "pred", "ts": sorted([shallow] + deep)}
    elif kind == "value":
        goal = {"as": "value", "ts": [shallow]}
    else:
        goal = {"as": "pred", "ts": sorted(deep)}
    lo, hi = k1 + 1, max(k1 + 1, k1 + fan - 2)
    max_iter = draw(st.one_of(st.integers(lo, hi), st.integers(lo, hi), st.integers(1, 2 * n)))
    return {
        "family": "bushy",
        "n": n,
        "scheme": draw(st.sampled_from(SCHEMES)),
        "pairs": pairs,
        "s": s,
        "goal": goal,
        "max_iter": max_iter,
        "nb": draw(st.sampled_from(["list", "raw", "gen", "tuple"])),
        "edges_api": False,
        "edit": draw(st.one_of(st.none(), st.none(), _edit(n, [1]))),
    }


@st.composite
def unweighted_cases(draw, tier="quick"):
    n = draw(st.sampled_from(_sizes(tier)))
    fam = draw(st.sampled_from(["backbone", "bushy", "ladder", "dense", "uniform", "backbone", "bushy"]))
    if fam == "bushy":
        return draw(_bushy_case(tier))
    if fam == "ladder" and n < 4:
        fam = "uniform"
    s = draw(st.integers(0, n - 1))
    lo, hi = (n, 3 * n) if fam == "dense" else (n // 2 if fam == "backbone" else 0, n if fam == "ladder" else 2 * n)
    pairs = [e[:2] for e in _edge_list(draw, n, lo, hi, [1])]
    ladder_t = None
    if fam == "ladder":
        # two node-disjoint routes s->t with different hop counts (the short one may be found late)
        order = list(draw(st.permutations(range(n))))
        s, ladder_t, rest = order[0], order[1], order[2:]
        q = draw(st.integers(1, len(rest)))
        p_ = draw(st.integers(0, min(q - 1, len(rest) - q)))
        for route in ([s] + rest[:p_] + [ladder_t], [s] + rest[p_ : p_ + q] + [ladder_t]):
            pairs += [[a, b] for a, b in zip(route, route[1:])]
        pairs = [list(x) for x in draw(st.permutations(pairs))]
    if fam == "backbone":
        root, bb = _backbone(draw, n, [1])
        pairs += [e[:2] for e in bb]
        if draw(st.integers(0, 3)) > 0:
            s = root
        if len(pairs) > 1:
            pairs = [list(p) for p in draw(st.permutations(pairs))]
    goal = _goal(draw, n, allow_none=True)
    if ladder_t is not None and goal["ts"] and goal["ts"][0] < n:
        goal = {"as": goal["as"], "ts": sorted(set([ladder_t] + goal["ts"][1:]))}
    return {
        "family": fam,
        "n": n,
        "scheme": draw(st.sampled_from(SCHEMES)),
        "pairs": pairs,
        "s": s,
        "goal": goal,
        "max_iter": None if goal["as"] == "none" else draw(st.one_of(st.none(), st.none(), st.none(), st.integers(0, n + 1))),
        "nb": draw(st.sampled_from(["list", "raw", "gen", "tuple"])),
        "edges_api": draw(st.booleans()),
        "edit": draw(st.one_of(st.none(), _edit(n, [1]))),
    }


@st.composite
def signed_graph(draw, tier="quick"):
    """n, edges (with negatives), family, suggested source — shared by bellman_ford and floyd_warshall."""
    fam = draw(st.sampled_from(["signed", "potential", "planted", "chain", "signed-backbone", "planted", "nonneg"]))
    n = draw(st.sampled_from(_sizes(tier)))
    hint_s = None
    if fam == "nonneg":
        hint_s, edges = _backbone(draw, n, W_POS)
        edges += _edge_list(draw, n, 0, 2 * n + 2, W_POS)
    elif fam == "signed":
        edges = _edge_list(draw, n, 0, 2 * n + 2, W_POS + W_POS + W_NEG)
    elif fam == "signed-backbone":
        hint_s, edges = _backbone(draw, n, W_POS + W_NEG)
        edges += _edge_list(draw, n, 0, n + 2, W_POS + W_POS + W_NEG)
    elif fam == "potential":
        # reduced weights w + p(v) - p(u): negative edges, every cycle keeps its non-negative base weight
        hint_s, base = _backbone(draw, n, W_POS)
        base += _edge_list(draw, n, 0, 2 * n + 2, W_POS)
        p = draw(st.lists(st.sampled_from([0, 0.5, 1, 1.5, 2, 3, 4]), min_size=n, max_size=n))
        edges = [[u, v, w + p[v] - p[u]] for u, v, w in base]
    elif fam == "planted":
        if draw(st.booleans()):
            hint_s, base = _backbone(draw, n, W_POS)
        else:
            base = []
        base += _edge_list(draw, n, 0, 2 * n, W_POS)
        k = draw(st.integers(1, min(3, n)))
        cyc = list(draw(st.permutations(range(n))))[:k]
        attach = draw(st.sampled_from(["out", "in", "both", "none"]))
        inside = set(cyc)
        keep = []
        for u, v, w in base:
            a, b = u in inside, v in inside
            if a == b:
                keep.append([u, v, w])
            elif b and attach in ("in", "both"):  # outside -> cycle
                keep.append([u, v, w])
            elif a and attach in ("out", "both"):  # cycle -> outside
                keep.append([u, v, w])
        ws = draw(st.lists(st.sampled_from([0, 1, 0.5, 2]), min_size=k, max_size=k))
        total = sum(ws)
        # make the planted cycle total -0.5, -1 or -2.5 by lowering its last edge
        ws[-1] = ws[-1] - total - draw(st.sampled_from([0.5, 1, 2.5]))
        keep += [[cyc[i], cyc[(i + 1) % k], ws[i]] for i in range(k)]
        edges = keep
    else:  # chain: Hamiltonian path whose edges are listed last-hop first
        order = list(draw(st.permutations(range(n))))
        cw = st.sampled_from([0, 0.5, 1, -1, -0.5]) if draw(st.booleans()) else st.sampled_from([0, 0.5, 1])
        chain = [[a, b, draw(cw)] for a, b in zip(order, order[1:])]
        chain.reverse()
        extra = _edge_list(draw, n, 0, n, [2, 3, 5, 2.5])
        edges = chain + extra if draw(st.booleans()) else extra + chain
        hint_s = order[0]
    if fam != "chain" and len(edges) > 1:
        edges = [list(e) for e in draw(st.permutations(edges))]
    return n, edges, fam, hint_s


# All weights of a case are multiplied by 2**scale (exact in floats and in the Fraction oracle).  Scaling by a positive
# power of two never changes a status or a path and scales every distance exactly, so the scaled instance is judged by
# the same oracle; tiny magnitudes expose absolute tolerances (a negative cycle of total weight -2**-35 is a negative cycle).
SCALES = [0, -34, 0, -40, 0, 12, -34]


def _scaled(desc):
    """(edges, edit, heavy) of a bellman_ford / floyd_warshall case with the scale applied."""
    e = desc.get("scale", 0) or 0
    edit = desc.get("edit")
    if e == 0:
        return [(u, v, w) for u, v, w in desc["edges"]], edit, 5
    f = 2.0 ** e
    if edit is not None:
        edit = dict(edit, w=edit["w"] * f, ws=edit["ws"] * f)
    return [(u, v, w * f) for u, v, w in desc["edges"]], edit, 5 * f


@st.composite
def bf_cases(draw, tier="quick"):
    n, edges, fam, hint_s = draw(signed_graph(tier))
    s = draw(st.integers(0, n - 1))
    if hint_s is not None and draw(st.integers(0, 3)) > 0:
        s = hint_s
    node = st.integers(0, n - 1).map(lambda x: n - 1 - x)
    return {
        "family": fam,
        "n": n,
        "edges": edges,
        "s": s,
        "target": draw(st.one_of(node, st.none(), node)),
        "tuples": draw(st.booleans()),
        "edit": draw(st.one_of(st.none(), _edit(n, W_POS + W_NEG))),
        "scale": draw(st.sampled_from(SCALES)),
    }


@st.composite
def fw_cases(draw, tier="quick"):
    n, edges, fam, _ = draw(signed_graph(tier))
    return {"family": fam, "n": n, "edges": edges, "directed": draw(st.sampled_from([True, True, False])), "tuples": draw(st.booleans()),
            "edit": draw(st.one_of(st.none(), _edit(n, W_POS + W_NEG))), "scale": draw(st.sampled_from(SCALES))}


HEURISTICS = ["auto", "manhattan", "octile", "euclidean", "chebyshev"]
COSTS = [None, [[2, 2.5]], None, [], [[2, 3], [3, 1.5]], [[0, 2]], [[2, 0.5]], [[1, 5], [2, 2]], [[0, 1.5], [2, 1], [3, 4]]]
BLOCKED = [1, [1], 1, [1, 3], [], 7, [2, 1]]
PALETTES = [[0, 0, 1], [0, 0, 0, 1, 2, 3], [0, 0, 0, 0, 1], [0, 1], [0, 2, 3, 1], [0, 0, 2]]


@st.composite
def grid_cases(draw, tier="quick"):
    dims = [5, 6, 4, 3, 7, 8, 2, 1] if tier == "thorough" else [5, 6, 4, 3, 2, 1]
    fam = draw(st.sampled_from(["random", "wall", "band", "random"]))
    rows = draw(st.sampled_from(dims))
    cols = draw(st.sampled_from(dims))
    if cols < 3 or rows < 2:
        fam = "random"
    palette = draw(st.sampled_from(PALETTES if fam == "random" else [[0, 0, 0, 0, 0, 1], [0], [0, 0, 0, 2, 3], [0, 0, 1]]))
    cells = draw(st.lists(st.sampled_from(palette), min_size=rows * cols, max_size=rows * cols))
    grid = [cells[r * cols : (r + 1) * cols] for r in range(rows)]
    blocked = draw(st.sampled_from(BLOCKED))
    costs = draw(st.sampled_from(COSTS))
    if fam == "random":
        start = (draw(st.integers(0, rows - 1)), draw(st.integers(0, cols - 1)))
        others = sorted(((r, c) for r in range(rows) for c in range(cols) if (r, c) != start), key=lambda p: (-abs(p[0] - start[0]) - abs(p[1] - start[1]), p))
        if not others or draw(st.sampled_from([False] * 11 + [True])):
            goal = start
        else:  # farthest cell first: that is where Hypothesis' bias towards index 0 should go
            goal = others[draw(st.integers(0, len(others) - 1))]
    else:
        # a barrier column between start and goal with one or two gaps: blocked cells ("wall") or
        # expensive terrain ("band"); a search misled by its heuristic takes the wrong gap / ploughs through
        wc = draw(st.integers(1, cols - 2))
        gaps = draw(st.lists(st.integers(0, rows - 1), min_size=1, max_size=2, unique=True))
        for r in range(rows):
            grid[r][wc] = 0 if r in gaps else (1 if fam == "wall" else 2)
        if fam == "wall":
            blocked = draw(st.sampled_from([1, [1], [1, 3]]))
        else:
            costs = draw(st.sampled_from([[[2, 2.5]], [[2, 3]], [[2, 5], [3, 1.5]], [[2, 2], [0, 1]]]))
            blocked = draw(st.sampled_from([1, [1], 7]))
        start = (draw(st.integers(0, rows - 1)), draw(st.integers(0, wc - 1)))
        goal = (draw(st.integers(0, rows - 1)), draw(st.integers(wc + 1, cols - 1)))
        if draw(st.booleans()):
            start, goal = goal, start
    if draw(st.integers(0, 3)) > 0:
        # usually open up start and goal (blocked start/goal stay in as a class of their own)
        for r, c in (start, goal):
            grid[r][c] = 0
    if fam != "random" and draw(st.booleans()):  # horizontal barrier: transpose everything
        grid = [[grid[r][c] for r in range(rows)] for c in range(cols)]
        start, goal = (start[1], start[0]), (goal[1], goal[0])
        rows, cols = cols, rows
    return {
        "family": fam,
        "grid": grid,
        "start": list(start),
        "goal": list(goal),
        "directions": draw(st.sampled_from([8, 4])),
        "heuristic": draw(st.sampled_from(HEURISTICS)),
        "blocked": blocked,
        "costs": costs,
        "weight": draw(st.sampled_from([None, 1.0, None, 1, None, 1.5, 2.0, 0.5])),
        "max_iter": draw(st.one_of(st.none(), st.none(), st.none(), st.none(), st.integers(0, rows * cols + 1))),
        "rows_as": draw(st.sampled_from(["list", "tuple"])),
        "edit": draw(st.one_of(st.none(), st.fixed_dictionaries({
            "op": st.sampled_from(["block-on-path", "set", "block-on-path"]), "r": st.integers(0, 7), "c": st.integers(0, 7),
            "val": st.sampled_from([1, 0, 2, 3]), "k": st.integers(0, 63)}))),
    }


# ----------------------------------------------------------------------------- calling solvOR
# Deterministic work limit (DESIGN §2.4).  C11 does not claim termination, so a case that exceeds it
# is *inconclusive* ("step-budget"), never an alarm; the limit only keeps a looping solver (e.g. a
# parent-pointer cycle in path reconstruction) from eating the wall budget.  Largest count observed
# on the unchanged tree: 6 092 events (thorough tier, n = 10) -> the limit is about 160x that.
STEP_LIMIT = 1_000_000
_instrumented = False


def _instrument():
    global _instrumented
    if _instrumented:
        return
    import importlib
    import types

    from .. import budget

    for name in ("solvor.dijkstra", "solvor.a_star", "solvor.bfs", "solvor.bellman_ford", "solvor.floyd_warshall", "solvor.utils.helpers"):
        m = importlib.import_module(name)
        # the @with_rust_backend wrapper hides the Python body: expose __wrapped__ through a shim module
        shim = types.ModuleType(m.__name__)
        for k, v in vars(m).items():
            v = getattr(v, "__wrapped__", v)
            if isinstance(v, types.FunctionType) and v.__module__ == m.__name__:
                setattr(shim, k, v)
        budget.instrument(shim)
    _instrumented = True


def _call(ctx, fn, *a, **kw):
    from .. import budget

    _instrument()
    with budget.steps(STEP_LIMIT) as s:
        res = ctx.call(fn, *a, **kw)
    ctx.size("steps", s.count)
    return res


# ----------------------------------------------------------------------------- shared judging
class Env:
    """Index graph + label table of one case."""

    def __init__(self, n, scheme, edges, s, extra_labels=1):
        self.n = n
        self.edges = [(u, v, w) for u, v, w in edges]
        self.s = s
        self.scheme = scheme
        self.L = [lab(scheme, i) for i in range(n + extra_labels)]
        self.idx = {self.L[i]: i for i in range(n)}
        self.cheap = G.cheapest(self.edges)

    def to_index(self, area, path):
        out = []
        for x in path:
            try:
                out.append(self.idx[x])
            except (KeyError, TypeError):
                raise Violation(f"{area}:path-has-unknown-node", {"node": repr(x)})
        return out


def judge_path(area, res, env, goals, want, *, optimal_status="OPTIMAL", max_cost=None, max_iter=None, reach_n=None, any_path=False):
    """Compare one single-pair result with the oracle.  Returns the name of an allowed escape or None.

    want: exact distance from env.s to the nearest node of `goals` (None = unreachable).
    any_path: the solver only promises *a* path (dfs): genuineness and a truthful cost are checked.
    """
    stn = res.status.name
    if stn == "MAX_ITER":
        # each iteration expands a distinct node reachable from the start, so the limit can only be
        # hit when it is <= their number
        if max_iter is not None and max_iter <= reach_n:
            return "max_iter"
        raise Violation(f"{area}:MAX_ITER-without-reachable-limit", {"max_iter": max_iter, "reachable": reach_n})
    beyond = want is not None and max_cost is not None and want > max_cost
    if want is None:
        if stn != "INFEASIBLE":
            raise Violation(f"{area}:unreachable-but-{stn}", {"solution": repr(res.solution)[:200], "objective": repr(res.objective)})
        return None
    if stn == "INFEASIBLE":
        if beyond:
            return "max_cost-infeasible"
        raise Violation(f"{area}:reachable-but-INFEASIBLE", {"distance": str(want)})
    if stn != optimal_status and not beyond:
        raise Violation(f"{area}:status-{stn}-expected-{optimal_status}", {"distance": str(want)})
    path = res.solution
    if not isinstance(path, list) or not path:
        raise Violation(f"{area}:path-not-a-nonempty-list", {"solution": repr(path)[:200]})
    ip = env.to_index(area, path)
    if ip[0] != env.s:
        raise Violation(f"{area}:path-start", {"path": ip, "s": env.s})
    if ip[-1] not in goals:
        raise Violation(f"{area}:path-end", {"path": ip, "goals": sorted(goals)})
    for a, b in zip(ip, ip[1:]):
        if (a, b) not in env.cheap:
            raise Violation(f"{area}:path-uses-missing-edge", {"path": ip, "step": [a, b]})
    obj = _exact(res.objective)
    if obj is None:
        raise Violation(f"{area}:objective-not-finite", {"objective": repr(res.objective)})
    if beyond or any_path:
        # max_cost is undocumented: past the limit any genuine path with a truthful cost is accepted
        if obj not in G.walk_cost_choices(ip, env.edges):
            raise Violation(f"{area}:path-cost-vs-objective" + ("(beyond-max_cost)" if beyond else ""), {"path": ip, "objective": str(obj)})
        if obj < want:
            raise Violation(f"{area}:cost-below-oracle-optimum", {"objective": str(obj), "shortest": str(want)})
        return "max_cost-path" if beyond else None
    if obj != want:
        raise Violation(f"{area}:distance", {"objective": str(obj), "shortest": str(want), "path": ip})
    total = sum((env.cheap[(a, b)] for a, b in zip(ip, ip[1:])), Fraction(0))
    if total != obj:
        raise Violation(f"{area}:path-cost-vs-objective", {"path": ip, "cheapest-parallel-sum": str(total), "objective": str(obj)})
    return None


def _neighbors(style, adj):
    if style == "gen":
        return lambda x: (p for p in adj.get(x, ()))
    if style == "tuple":
        return lambda x: tuple(adj.get(x, ()))
    if style == "raw":  # the caller's own list object, as in the documented `lambda n: graph[n]`
        return lambda x: adj.get(x, [])
    return lambda x: list(adj.get(x, ()))


def _goal_arg(env, goal, none_means_all=False):
    """(argument for solvOR, set of goal indices inside the graph).  none_means_all: bfs/dfs read a goal VALUE of
    None as "explore everything", so a target node that is labelled None is handed over as a predicate there."""
    ts = goal["ts"]
    inside = {t for t in ts if t < env.n}
    if goal["as"] == "none":
        return None, inside
    # labels are built afresh: equal to, but not the same objects as, the ones the neighbour function yields
    if goal["as"] == "value" and not (none_means_all and lab(env.scheme, ts[0]) is None):
        return lab(env.scheme, ts[0]), inside
    labels = [lab(env.scheme, t) for t in ts]
    return (lambda x: x in labels), inside


def _nearest(dist, goals):
    c = [dist[t] for t in goals if dist[t] is not None]
    return min(c) if c else None


def _goal_labels(ctx, goal, s, n):
    ts = goal["ts"]
    if goal["as"] == "value":
        ctx.label("goal-value", ts[0] >= n and "goal-absent", ts[0] == s and "goal-is-start")
    elif goal["as"] == "pred":
        ctx.label("goal-predicate", len(ts) > 1 and "goal-predicate-multi", not ts and "goal-predicate-none")
    else:
        ctx.label("goal-None")


# ----------------------------------------------------------------------------- call histories (round 2)
# A case may carry one generated edit.  The query is then asked twice through the SAME objects (neighbour
# function over one mutable adjacency dict / one edge-list object / one grid, same start and goal objects):
# solve, edit the graph in place, solve again.  Every answer is judged against the oracle for what the caller's
# object contains at the moment of that call.  A wrong second answer is re-asked through fresh objects holding
# the same edited graph: right there => the first answer leaked into the second (bucket + ":stale-after-graph-edit");
# wrong there too => an ordinary failure on the edited graph (plain bucket).
# C11 does not say that arguments stay untouched, so a call that modifies the caller's list / dict / grid is only
# labelled and counted ("arguments-mutated"), and the next call is judged against the modified content.
def _plan_edit(edit, E, tight, s, t0, unit=False, heavy=5):
    """Generated edit -> primitive operation on the edge list E = [(u, v, w)]:
    ("append", e) | ("delete", i) | ("replace", i, e).  `tight` = indices of edges on some optimal route."""
    op, k = edit["op"], edit["k"]
    if unit:
        op = {"raise": "cut", "reweight": "remove"}.get(op, op)
    if op == "shortcut":
        return ("append", (s, t0 if t0 is not None else edit["v"], 1 if unit else edit["ws"]))
    if op in ("cut", "raise") and tight:
        i = tight[k % len(tight)]
        return ("delete", i) if op == "cut" else ("replace", i, (E[i][0], E[i][1], heavy))
    if op != "add" and E:
        i = k % len(E)
        if op in ("cut", "remove"):
            return ("delete", i)
        return ("replace", i, (E[i][0], E[i][1], edit["w"] if op == "reweight" else heavy))
    return ("append", (edit["u"], edit["v"], 1 if unit else edit["w"]))


def _apply_to_list(lst, prim, make):
    if prim[0] == "append":
        lst.append(make(prim[1]))
    elif prim[0] == "delete":
        del lst[prim[1]]
    else:
        lst[prim[1]] = make(prim[2])


def _adj_edges(adj, idx, weighted):
    """Edge list held by the adjacency dict right now + where each edge sits: [(u,v,w)], [(label, position)]."""
    E, loc = [], []
    for key, lst in adj.items():
        for pos, item in enumerate(lst):
            if weighted:
                E.append((idx[key], idx[item[0]], item[1]))
            else:
                E.append((idx[key], idx[item], 1))
            loc.append((key, pos))
    return E, loc


def _apply_to_adj(adj, L, loc, prim, weighted):
    item = (lambda e: (L[e[1]], e[2])) if weighted else (lambda e: L[e[1]])
    if prim[0] == "append":
        adj[L[prim[1][0]]].append(item(prim[1]))
    elif prim[0] == "delete":
        key, pos = loc[prim[1]]
        del adj[key][pos]
    else:
        key, pos = loc[prim[1]]
        adj[key][pos] = item(prim[2])


def _copy_adj(adj):
    return {k: list(v) for k, v in adj.items()}


def _note_mutation(ctx, before, after, what):
    if before != after:
        ctx.label("arguments-mutated")
        ctx.count(f"arguments-mutated:{what}")


def _second_opinion(v, redo):
    """v: Violation raised by a call made after an in-place edit; redo(): the same query through fresh objects."""
    try:
        redo()
    except Violation:
        raise v from None
    raise Violation(v.bucket + ":stale-after-graph-edit", v.detail) from None


def _tight_edges(E, ds, togo, want):
    """Indices of edges lying on some optimal route (ds: distances from the source, togo: to the target set)."""
    if want is None:
        return []
    return [i for i, (a, b, c) in enumerate(E) if ds[a] is not None and togo[b] is not None and ds[a] + G.fr(c) + togo[b] == want]


def _route_labels(ctx, res):
    """Measures the label generator: does a returned route carry None before its end / two nodes of equal hash?"""
    path = res.solution
    if isinstance(path, list) and len(path) >= 2:
        ctx.label(any(x is None for x in path[:-1]) and "route-has-None-before-end", len({hash(x) for x in path}) < len(path) and "route-has-equal-hashes")


def _finish(ctx, escapes):
    esc = [e for e in escapes if e]
    for e in esc:
        ctx.count(f"escape:{e}")
    if "max_iter" in esc:
        raise Inconclusive("MAX_ITER with max_iter <= reachable nodes")


# ----------------------------------------------------------------------------- dijkstra / astar
def _judge_all_distances(area, res, n, dist):
    sol = res.solution
    if not isinstance(sol, dict):
        raise Violation(f"{area}:all-distances-not-a-dict", repr(sol)[:200])
    for v in range(n):
        got = sol.get(v, float("inf"))
        if dist[v] is None:
            if got != float("inf"):
                raise Violation(f"{area}:all-distances-unreachable-node-has-distance", {"node": v, "got": repr(got)})
        elif _exact(got) != dist[v]:
            raise Violation(f"{area}:all-distances", {"node": v, "got": repr(got), "shortest": str(dist[v])})
    if any(k not in range(n) for k in sol):
        raise Violation(f"{area}:all-distances-unknown-node", repr(sorted(sol, key=repr))[:200])


def run_weighted(desc, ctx):
    from solvor.a_star import astar
    from solvor.dijkstra import dijkstra, dijkstra_edges

    n, s, scheme = desc["n"], desc["s"], desc["scheme"]
    env = Env(n, scheme, desc["edges"], s)
    L, idx = env.L, env.idx
    adj = {L[i]: [] for i in range(n)}
    for u, v, w in env.edges:
        adj[L[u]].append((L[v], w))
    nb = _neighbors(desc["nb"], adj)  # ONE function object for the whole history
    goal_arg, goals = _goal_arg(env, desc["goal"])
    start = lab(scheme, s)
    dist, _ = G.sssp(n, env.edges, s)
    want = _nearest(dist, goals)
    reach_n = sum(d is not None for d in dist)
    mc, mi = desc["max_cost"], desc["max_iter"]
    edit = desc.get("edit")
    kw = {}
    if mc is not None:
        kw["max_cost"] = mc
    if mi is not None:
        kw["max_iter"] = mi

    # labels / non-triviality (initial graph)
    pairs = set(env.cheap)
    ctx.label(desc["family"], f"labels-{scheme}", f"neighbors-{desc['nb']}")
    _goal_labels(ctx, desc["goal"], s, n)
    ctx.label(
        len(pairs) < len(env.edges) and "parallel-edges",
        any(u == v for u, v in pairs) and "self-loop",
        any(w == 0 for *_, w in env.edges) and "zero-weight",
        any(isinstance(w, float) for *_, w in env.edges) and "half-weights",
        want is None and "unreachable",
        mc is not None and "max_cost",
        mc is not None and want is not None and want > mc and "max_cost-below-distance",
        mc is not None and want is not None and want == mc and "max_cost-equals-distance",
        mi is not None and "max_iter",
        mi is not None and mi <= reach_n and "max_iter-small",
    )
    two = False
    if want is not None:
        for t in sorted(goals):
            if dist[t] is not None and len(G.simple_path_costs(n, env.edges, s, t, want=2, cap=1500)) >= 2:
                two = True
                break
    ctx.label(two and "two-path-lengths")
    ctx.nontrivial(two)
    ctx.size("n", n)
    ctx.size("edges", len(env.edges))

    lam = LAMBDAS[desc["lam"]]
    ctx.label(f"lambda-{lam}")
    hval = {}
    hfun = lambda x: hval[x]  # noqa: E731  (ONE heuristic object; its table follows the graph)

    def solve(adj_, nb_, start_, goal_, hval_, hfun_, escapes):
        """dijkstra, then astar, each judged against the graph adj_ holds at the moment of the call."""
        for name in ("dijkstra", "astar"):
            E, _ = _adj_edges(adj_, idx, True)
            env_ = Env(n, scheme, E, s)
            d_, _ = G.sssp(n, E, s)
            want_ = _nearest(d_, goals)
            reach_ = sum(x is not None for x in d_)
            if want_ is not None and (mc is None or want_ <= mc):
                # nodes are settled in non-decreasing distance (astar, consistent h: non-decreasing f <= distance of the
                # goal), so the goal is popped among the first #{dist <= distance(goal)} nodes
                reach_ = sum(1 for x in d_ if x is not None and x <= want_) - 1
            snap = _copy_adj(adj_)
            if name == "dijkstra":
                res = _call(ctx, dijkstra, start_, goal_, nb_, **kw)
            else:
                # h = lambda * exact distance to the nearest goal; inf where the goal set cannot be
                # reached (admissible, and consistent: a dead end only has dead-end successors)
                togo = G.dist_to_set(n, E, sorted(goals))
                hval_.clear()
                for i in range(n):
                    if lam == 0:
                        hval_[L[i]] = 0.0
                    elif togo[i] is None:
                        hval_[L[i]] = float("inf")
                    else:
                        hval_[L[i]] = float(lam * togo[i])  # denominators <= 8: exact
                res = _call(ctx, astar, start_, goal_, nb_, hfun_, **kw)
            _note_mutation(ctx, snap, adj_, name)
            escapes.append(judge_path(name, res, env_, goals, want_, max_cost=mc, max_iter=mi, reach_n=reach_))
            _route_labels(ctx, res)

    escapes = []
    solve(adj, nb, start, goal_arg, hval, hfun, escapes)
    if edit is not None:
        E, loc = _adj_edges(adj, idx, True)
        ds, _ = G.sssp(n, E, s)
        w0 = _nearest(ds, goals)
        prim = _plan_edit(edit, E, _tight_edges(E, ds, G.dist_to_set(n, E, sorted(goals)), w0), s, min(goals) if goals else None)
        _apply_to_adj(adj, L, loc, prim, True)
        E2, _ = _adj_edges(adj, idx, True)
        w1 = _nearest(G.sssp(n, E2, s)[0], goals)
        ctx.label("history", f"edit-{edit['op']}", w1 != w0 and "edit-changes-answer")
        frozen = _copy_adj(adj)

        def redo():
            a2 = _copy_adj(frozen)
            hv2 = {}
            solve(a2, _neighbors(desc["nb"], a2), lab(scheme, s), _goal_arg(env, desc["goal"])[0], hv2, lambda x: hv2[x], [])

        try:
            solve(adj, nb, start, goal_arg, hval, hfun, escapes)
        except Violation as v:
            _second_opinion(v, redo)

    if desc["edges_api"] and mc is None and mi is None:
        elist = [(u, v, w) for u, v, w in env.edges]  # ONE list object for both calls
        ts = desc["goal"]["ts"]
        single = desc["goal"]["as"] == "value" and ts[0] < n
        ctx.label("dijkstra_edges-target" if single else "dijkstra_edges-all")

        def ask(lst):
            cur = [tuple(e) for e in lst]
            d_, _ = G.sssp(n, cur, s)
            snap = list(lst)
            if single:
                res = _call(ctx, dijkstra_edges, n, lst, s, target=ts[0], backend="python")
            else:
                res = _call(ctx, dijkstra_edges, n, lst, s, backend="python")
            _note_mutation(ctx, snap, lst, "dijkstra_edges")
            if single:
                judge_path("dijkstra_edges", res, Env(n, 0, cur, s), {ts[0]}, d_[ts[0]])
            else:
                _judge_all_distances("dijkstra_edges", res, n, d_)

        ask(elist)
        if edit is not None:
            cur = [tuple(e) for e in elist]
            ds, _ = G.sssp(n, cur, s)
            t0 = ts[0] if single else None
            togo = G.dist_to_set(n, cur, [t0]) if single else [None] * n
            prim = _plan_edit(edit, cur, _tight_edges(cur, ds, togo, ds[t0] if single else None), s, t0)
            _apply_to_list(elist, prim, tuple)
            frozen = list(elist)
            try:
                ask(elist)
            except Violation as v:
                _second_opinion(v, lambda: ask(list(frozen)))

    _finish(ctx, escapes)


# ----------------------------------------------------------------------------- bfs / dfs
def _judge_explore_all(name, res, want_set, shown):
    try:
        got = set(res.solution)
    except TypeError:
        raise Violation(f"{name}:explore-all-not-iterable", repr(res.solution)[:200])
    if got != want_set:
        raise Violation(f"{name}:explore-all-reachable-set", {"got": repr(sorted(got, key=repr))[:300], "want": shown})


def run_unweighted(desc, ctx):
    from solvor.bfs import bfs, bfs_edges, dfs, dfs_edges

    n, s, scheme = desc["n"], desc["s"], desc["scheme"]
    unit = [(u, v, 1) for u, v in desc["pairs"]]
    env = Env(n, scheme, unit, s)
    L, idx = env.L, env.idx
    adj = {L[i]: [] for i in range(n)}
    for u, v in desc["pairs"]:
        adj[L[u]].append(L[v])
    nb = _neighbors(desc["nb"], adj)  # ONE function object for the whole history
    goal_arg, goals = _goal_arg(env, desc["goal"], True)
    explore = desc["goal"]["as"] == "none"
    start = L[s]
    hops = G.bfs_hops(n, desc["pairs"], s)
    R = {v for v in range(n) if hops[v] is not None}
    want = _nearest(hops, goals)
    mi = desc["max_iter"]
    edit = desc.get("edit")
    kw = {} if mi is None else {"max_iter": mi}

    ctx.label(desc["family"], f"labels-{scheme}", f"neighbors-{desc['nb']}")
    _goal_labels(ctx, desc["goal"], s, n)
    ctx.label(want is None and not explore and "unreachable", mi is not None and "max_iter", mi is not None and mi <= len(R) and "max_iter-small",
              len(set(map(tuple, desc["pairs"]))) < len(desc["pairs"]) and "parallel-edges", any(u == v for u, v in desc["pairs"]) and "self-loop")
    two = False
    if want is not None:
        for t in sorted(goals):
            if hops[t] is not None and len(G.simple_path_costs(n, unit, s, t, want=2, cap=1500)) >= 2:
                two = True
                break
    ctx.label(two and "two-path-lengths")
    ctx.nontrivial(two)
    ctx.size("n", n)
    ctx.size("edges", len(unit))

    def solve(adj_, nb_, start_, goal_, escapes):
        for name, fn in (("bfs", bfs), ("dfs", dfs)):
            E, _ = _adj_edges(adj_, idx, False)
            h_ = G.bfs_hops(n, E, s)
            R_ = {v for v in range(n) if h_[v] is not None}
            w_ = _nearest(h_, goals)
            wf = None if w_ is None else Fraction(w_)
            snap = _copy_adj(adj_)
            res = _call(ctx, fn, start_, None, nb_) if explore else _call(ctx, fn, start_, goal_, nb_, **kw)
            _note_mutation(ctx, snap, adj_, name)
            if explore:
                _judge_explore_all(name, res, {L[v] for v in R_}, sorted(R_))
            elif name == "bfs":
                # FIFO order: every node shallower than the nearest goal is dequeued before it and no deeper node is,
                # so a reachable goal at depth d is dequeued among the first #{hops <= d} nodes whatever the neighbour
                # order: MAX_ITER is legitimate only for max_iter < that number (unreachable goal: <= #reachable)
                bound = len(R_) if w_ is None else sum(1 for v in R_ if h_[v] <= w_) - 1
                escapes.append(judge_path("bfs", res, Env(n, scheme, E, s), goals, wf, max_iter=mi, reach_n=bound))
                _route_labels(ctx, res)
            else:
                escapes.append(judge_path("dfs", res, Env(n, scheme, E, s), goals, wf, optimal_status="FEASIBLE", any_path=True, max_iter=mi, reach_n=len(R_)))
                if w_ is not None and res.status.name == "FEASIBLE":
                    ctx.label(_exact(res.objective) > wf and "dfs-path-longer-than-shortest")

    escapes = []
    solve(adj, nb, start, goal_arg, escapes)
    if edit is not None:
        E, loc = _adj_edges(adj, idx, False)
        hs = G.bfs_hops(n, E, s)
        w0 = _nearest(hs, goals)
        ds = [None if x is None else Fraction(x) for x in hs]
        tight = _tight_edges(E, ds, G.dist_to_set(n, E, sorted(goals)), None if w0 is None else Fraction(w0))
        prim = _plan_edit(edit, E, tight, s, min(goals) if goals else None, unit=True)
        _apply_to_adj(adj, L, loc, prim, False)
        E2, _ = _adj_edges(adj, idx, False)
        h2 = G.bfs_hops(n, E2, s)
        changed = (h2 != hs) if explore else (_nearest(h2, goals) != w0)
        ctx.label("history", f"edit-{edit['op']}", changed and "edit-changes-answer")
        frozen = _copy_adj(adj)

        def redo():
            a2 = _copy_adj(frozen)
            solve(a2, _neighbors(desc["nb"], a2), lab(scheme, s), _goal_arg(env, desc["goal"], True)[0], [])

        try:
            solve(adj, nb, start, goal_arg, escapes)
        except Violation as v:
            _second_opinion(v, redo)

    if desc["edges_api"] and mi is None:
        plist = [(u, v) for u, v in desc["pairs"]]  # ONE list object for all calls
        ts = desc["goal"]["ts"]
        single = desc["goal"]["as"] == "value" and ts[0] < n
        ctx.label("edges-api-target" if single else "edges-api-all")

        def ask(lst):
            for name, fn in (("bfs_edges", bfs_edges), ("dfs_edges", dfs_edges)):
                cur = [(e[0], e[1], 1) for e in lst]
                h_ = G.bfs_hops(n, cur, s)
                snap = list(lst)
                if single:
                    t = ts[0]
                    res = _call(ctx, fn, n, lst, s, target=t, backend="python")
                    _note_mutation(ctx, snap, lst, name)
                    ht = None if h_[t] is None else Fraction(h_[t])
                    if name == "bfs_edges":
                        judge_path(name, res, Env(n, 0, cur, s), {t}, ht)
                    else:
                        judge_path(name, res, Env(n, 0, cur, s), {t}, ht, optimal_status="FEASIBLE", any_path=True)
                else:
                    res = _call(ctx, fn, n, lst, s, backend="python")
                    _note_mutation(ctx, snap, lst, name)
                    R_ = sorted(v for v in range(n) if h_[v] is not None)
                    try:
                        got = sorted(res.solution)
                    except TypeError:
                        raise Violation(f"{name}:explore-all-not-sortable", repr(res.solution)[:200])
                    if got != R_:
                        raise Violation(f"{name}:explore-all-reachable-set", {"got": got, "want": R_})

        ask(plist)
        if edit is not None:
            cur = [(e[0], e[1], 1) for e in plist]
            hs = G.bfs_hops(n, cur, s)
            ds = [None if x is None else Fraction(x) for x in hs]
            t0 = ts[0] if single else None
            togo = G.dist_to_set(n, cur, [t0]) if single else [None] * n
            prim = _plan_edit(edit, cur, _tight_edges(cur, ds, togo, ds[t0] if single else None), s, t0, unit=True)
            _apply_to_list(plist, prim, lambda e: (e[0], e[1]))
            frozen = list(plist)
            try:
                ask(plist)
            except Violation as v:
                _second_opinion(v, lambda: ask(list(frozen)))

    _finish(ctx, escapes)


# ----------------------------------------------------------------------------- bellman_ford
def _neg_on_optimal(n, edges, dist_s, dist_all_to_t, t):
    """Some negative edge (u,v,w) lies on a shortest s->t path: d(s,u) + w + d(v,t) == d(s,t)."""
    if dist_s[t] is None:
        return False
    for u, v, w in edges:
        if w < 0 and dist_s[u] is not None and dist_all_to_t[v] is not None and dist_s[u] + G.fr(w) + dist_all_to_t[v] == dist_s[t]:
            return True
    return False


def _judge_bf(res, n, edges, s, target):
    dist, neg = G.sssp(n, edges, s)
    if neg != G.neg_cycle_reachable(n, edges, s):
        raise AssertionError("oracle self-inconsistency: negative-cycle reachability")  # harness error
    stn = res.status.name
    if neg:
        if stn != "UNBOUNDED":
            raise Violation(f"bellman_ford:negative-cycle-reachable-but-{stn}", {"objective": repr(res.objective)})
        return
    if stn == "UNBOUNDED":
        raise Violation("bellman_ford:UNBOUNDED-without-reachable-negative-cycle", {"negative-cycle-elsewhere": G.neg_cycle_anywhere(n, edges)})
    if target is not None:
        judge_path("bellman_ford", res, Env(n, 0, edges, s), {target}, dist[target])
        return
    if stn != "OPTIMAL":
        raise Violation(f"bellman_ford:all-distances-status-{stn}", None)
    _judge_all_distances("bellman_ford", res, n, dist)


def _copy_edge_list(lst):
    return [tuple(e) if isinstance(e, tuple) else list(e) for e in lst]


def run_bf(desc, ctx):
    from solvor.bellman_ford import bellman_ford

    n, s, target = desc["n"], desc["s"], desc["target"]
    edges, edit, heavy = _scaled(desc)
    make = tuple if desc["tuples"] else list
    arg = [make(e) for e in edges]  # ONE list object for both calls
    ctx.label(f"scale-2^{desc.get('scale', 0) or 0}")
    env = Env(n, 0, edges, s)
    dist, neg = G.sssp(n, edges, s)
    neg_any = G.neg_cycle_anywhere(n, edges)

    has_neg_edge = any(w < 0 for *_, w in edges)
    ctx.label(desc["family"], has_neg_edge and "negative-edge", neg and "negcycle-reachable", neg_any and not neg and "negcycle-unreachable",
              target is None and "all-distances", target is not None and "target", target == s and "target-is-source",
              len(env.cheap) < len(edges) and "parallel-edges", any(u == v for u, v, _ in edges) and "self-loop")
    nontriv = neg_any and not neg
    if not neg:
        ts = range(n) if target is None else [target]
        back = {}
        for t in ts:
            if dist[t] is None or t == s:
                continue
            if len(G.simple_path_costs(n, edges, s, t, want=2, cap=800)) >= 2:
                nontriv = True
                ctx.label("two-path-lengths")
            if has_neg_edge:
                if t not in back:
                    back[t] = G.dist_to_set(n, edges, [t]) if not neg_any else _dist_to_target_within(n, edges, s, t)
                if _neg_on_optimal(n, edges, dist, back[t], t):
                    nontriv = True
                    ctx.label("negative-edge-on-optimal-path")
            if nontriv and target is None:
                break
        ctx.label(target is not None and dist[target] is None and "unreachable")
        ctx.size("rounds-needed", _rounds_needed(n, edges, s))
    ctx.nontrivial(nontriv)
    ctx.size("n", n)
    ctx.size("edges", len(edges))

    kw = {} if target is None else {"target": target}

    def ask(lst):
        cur = [tuple(e) for e in lst]  # what the caller's list holds at the moment of the call
        snap = _copy_edge_list(lst)
        res = _call(ctx, bellman_ford, s, lst, n, backend="python", **kw)
        _note_mutation(ctx, snap, lst, "bellman_ford")
        _judge_bf(res, n, cur, s, target)
        return res

    ask(arg)
    if edit is not None:
        cur = [tuple(e) for e in arg]
        ds, ng = G.sssp(n, cur, s)
        tight = [] if ng else [i for i, (a, b, c) in enumerate(cur) if a != b and ds[a] is not None and ds[b] is not None and ds[a] + G.fr(c) == ds[b]]
        prim = _plan_edit(edit, cur, tight, s, target, heavy=heavy)
        _apply_to_list(arg, prim, make)
        after = [tuple(e) for e in arg]
        d2, ng2 = G.sssp(n, after, s)
        ctx.label("history", f"edit-{edit['op']}", ((ng, ds) != (ng2, d2) if target is None or ng or ng2 else ds[target] != d2[target]) and "edit-changes-answer",
                  ng != ng2 and "edit-flips-negative-cycle")
        frozen = _copy_edge_list(arg)
        try:
            ask(arg)
        except Violation as v:
            _second_opinion(v, lambda: ask(_copy_edge_list(frozen)))


def _dist_to_target_within(n, edges, s, t):
    """Distances to t inside the sub-graph reachable from s (which has no negative cycle here)."""
    R = G.reach(n, edges, s)
    sub = [(u, v, w) for u, v, w in edges if u in R and v in R]
    return G.dist_to_set(n, sub, [t])


def _rounds_needed(n, edges, s):
    """Number of in-order relaxation sweeps until nothing changes (measures the chain family)."""
    INF = None
    d = [INF] * n
    d[s] = Fraction(0)
    rounds = 0
    for _ in range(n + 1):
        ch = False
        for u, v, w in edges:
            if d[u] is not None and (d[v] is None or d[u] + G.fr(w) < d[v]):
                d[v] = d[u] + G.fr(w)
                ch = True
        if not ch:
            break
        rounds += 1
    return rounds


# ----------------------------------------------------------------------------- floyd_warshall
def _judge_fw(res, n, edges, directed):
    D, neg = G.apsp(n, edges, directed)
    stn = res.status.name
    if neg:
        if stn != "UNBOUNDED":
            raise Violation(f"floyd_warshall:negative-cycle-present-but-{stn}", None)
        return
    if stn == "UNBOUNDED":
        raise Violation("floyd_warshall:UNBOUNDED-without-negative-cycle", None)
    if stn != "OPTIMAL":
        raise Violation(f"floyd_warshall:status-{stn}", None)
    M = res.solution
    try:
        ok_shape = len(M) == n and all(len(row) == n for row in M)
    except TypeError:
        ok_shape = False
    if not ok_shape:
        raise Violation("floyd_warshall:matrix-shape", repr(M)[:200])
    for i in range(n):
        for j in range(n):
            got = M[i][j]
            if D[i][j] is None:
                if got != float("inf"):
                    raise Violation("floyd_warshall:unreachable-pair-has-distance", {"pair": [i, j], "got": repr(got)})
            elif _exact(got) != D[i][j]:
                raise Violation("floyd_warshall:distance", {"pair": [i, j], "got": repr(got), "shortest": str(D[i][j])})


def run_fw(desc, ctx):
    from solvor.floyd_warshall import floyd_warshall

    n, directed = desc["n"], desc["directed"]
    edges, edit, heavy = _scaled(desc)
    make = tuple if desc["tuples"] else list
    arg = [make(e) for e in edges]  # ONE list object for both calls
    ctx.label(f"scale-2^{desc.get('scale', 0) or 0}")
    D, neg = G.apsp(n, edges, directed)
    eff = edges if directed else edges + [(v, u, w) for u, v, w in edges]

    ctx.label(desc["family"], "directed" if directed else "undirected", any(w < 0 for *_, w in edges) and "negative-edge",
              neg and "negcycle-present", len(G.cheapest(edges)) < len(edges) and "parallel-edges", any(u == v for u, v, _ in edges) and "self-loop")
    nontriv = neg and n >= 2
    if not neg:
        budget = 12
        for i in range(n):
            for j in range(n):
                if i != j and D[i][j] is not None and budget > 0 and not nontriv:
                    budget -= 1
                    if len(G.simple_path_costs(n, eff, i, j, want=2, cap=300)) >= 2:
                        nontriv = True
                        ctx.label("two-path-lengths")
        ctx.label(any(D[i][j] is None for i in range(n) for j in range(n)) and "some-pair-unreachable")
        direct = G.cheapest(eff)
        inter = any(D[i][j] is not None and i != j and ((i, j) not in direct or direct[(i, j)] > D[i][j]) for i in range(n) for j in range(n))
        ctx.label(inter and "needs-intermediate-node")
    ctx.nontrivial(nontriv)
    ctx.size("n", n)
    ctx.size("edges", len(edges))

    kw = {} if directed and desc["tuples"] else {"directed": directed}

    def ask(lst):
        cur = [tuple(e) for e in lst]
        snap = _copy_edge_list(lst)
        res = _call(ctx, floyd_warshall, n, lst, backend="python", **kw)
        _note_mutation(ctx, snap, lst, "floyd_warshall")
        _judge_fw(res, n, cur, directed)

    ask(arg)
    if edit is not None:
        cur = [tuple(e) for e in arg]
        D1, ng = G.apsp(n, cur, directed)
        tight = [] if ng else [i for i, (a, b, c) in enumerate(cur) if a != b and D1[a][b] == G.fr(c)]
        prim = _plan_edit(edit, cur, tight, edit["u"], edit["v"], heavy=heavy)
        _apply_to_list(arg, prim, make)
        D2, ng2 = G.apsp(n, [tuple(e) for e in arg], directed)
        ctx.label("history", f"edit-{edit['op']}", (D1, ng) != (D2, ng2) and "edit-changes-answer", ng != ng2 and "edit-flips-negative-cycle")
        frozen = _copy_edge_list(arg)
        try:
            ask(arg)
        except Violation as v:
            _second_opinion(v, lambda: ask(_copy_edge_list(frozen)))


# ----------------------------------------------------------------------------- astar_grid
def _admissible(directions, h_name):
    """(directions, heuristic) pairs whose heuristic never overestimates when every enterable cell
    costs >= 1: everything on 4 neighbours (all four are <= manhattan); on 8 neighbours all but
    manhattan (a diagonal step costs sqrt2 but lowers manhattan by 2)."""
    if h_name == "auto":
        return True
    return not (directions == 8 and h_name == "manhattan")


def _grid_round(desc, ctx, garg, blocked_arg, costs, first):
    """One astar_grid call on the caller's objects, judged against what they hold at the moment of the call.
    Returns (escape or None, path cells or None)."""
    from solvor.a_star import astar_grid

    grid = [list(r) for r in garg]
    rows, cols = len(grid), len(grid[0])
    start, goal = tuple(desc["start"]), tuple(desc["goal"])
    directions, h_name = desc["directions"], desc["heuristic"]
    b = desc["blocked"]
    blocked_set = {blocked_arg} if isinstance(blocked_arg, int) else set(blocked_arg)
    cmap = dict(costs) if costs else {}
    weight, mi = desc["weight"], desc["max_iter"]

    free_vals = {grid[r][c] for r in range(rows) for c in range(cols) if grid[r][c] not in blocked_set}
    cheap_cell = any(cmap.get(v, 1) < 1 for v in free_vals)
    admissible = _admissible(directions, h_name) and not cheap_cell
    w1 = weight is None or weight == 1
    start_blocked = grid[start[0]][start[1]] in blocked_set
    goal_blocked = grid[goal[0]][goal[1]] in blocked_set
    dist = G.grid_dist(grid, blocked_set, cmap, directions, start)
    mv = G.grid_moves(grid, blocked_set, cmap, directions)
    want = dist.get(goal)
    reach_n = len(dist)

    if first:
        ctx.label(desc["family"], f"dirs-{directions}", f"h-{h_name}", admissible and "admissible", not admissible and "inadmissible-validity-only",
                  not w1 and "weight-not-1", start_blocked and "start-blocked", goal_blocked and "goal-blocked", start == goal and "start-is-goal",
                  want is None and "unreachable", costs and "costs-map", cheap_cell and "cost-below-1", mi is not None and "max_iter",
                  mi is not None and mi <= reach_n and "max_iter-small", isinstance(b, int) and "blocked-int", not isinstance(b, int) and "blocked-set")
        two = want is not None and not start_blocked and G.two_route_costs(lambda u: mv[u], start, goal, cap=600)
        ctx.label(two and "two-route-costs")
        if want is not None and start != goal:
            dr, dc = abs(start[0] - goal[0]), abs(start[1] - goal[1])
            free = (Fraction(dr + dc), Fraction(0)) if directions == 4 else (Fraction(max(dr, dc) - min(dr, dc)), Fraction(min(dr, dc)))
            ctx.label(G.q2_less(free, want) and "detour-forced")
        ctx.nontrivial(two)
        ctx.size("cells", rows * cols)

    kw = {"directions": directions, "heuristic": h_name}
    if directions == 4 and h_name == "auto" and rows % 2:
        kw = {}  # exercise the defaults too
    if not (isinstance(b, int) and b == 1 and cols % 2):
        kw["blocked"] = blocked_arg
    if costs is not None:
        kw["costs"] = costs
    if weight is not None:
        kw["weight"] = weight
    if mi is not None:
        kw["max_iter"] = mi
    snap = (grid, set(blocked_set), dict(cmap))
    res = _call(ctx, astar_grid, garg, start, goal, **kw)
    _note_mutation(ctx, snap, ([list(r) for r in garg], {blocked_arg} if isinstance(blocked_arg, int) else set(blocked_arg), dict(costs) if costs else {}), "astar_grid")
    stn = res.status.name

    if stn == "MAX_ITER":
        if mi is not None and mi <= reach_n:
            return "max_iter", None
        raise Violation("astar_grid:MAX_ITER-without-reachable-limit", {"max_iter": mi, "reachable": reach_n})
    if start_blocked:
        # leaving a blocked start cell is not specified: only the genuineness of a returned path is checked
        if stn == "INFEASIBLE":
            return None, None
        want_exact = False
    else:
        if goal_blocked and goal != start:
            want = None  # no move ever enters a blocked cell
        if want is None:
            if stn != "INFEASIBLE":
                raise Violation(f"astar_grid:unreachable-but-{stn}", {"solution": repr(res.solution)[:200]})
            return None, None
        if stn == "INFEASIBLE":
            raise Violation("astar_grid:reachable-but-INFEASIBLE", {"distance": G.q2_float(want)})
        want_exact = w1 and admissible
    if stn not in ("OPTIMAL", "FEASIBLE"):
        raise Violation(f"astar_grid:status-{stn}", None)
    if want_exact and stn != "OPTIMAL":
        raise Violation(f"astar_grid:status-{stn}-expected-OPTIMAL", None)
    path = res.solution
    if not isinstance(path, list) or not path:
        raise Violation("astar_grid:path-not-a-nonempty-list", repr(path)[:200])
    try:
        cells = [(int(p[0]), int(p[1])) for p in path]
        assert all(len(p) == 2 for p in path)
    except Exception:
        raise Violation("astar_grid:path-cell-format", repr(path)[:200])
    if cells[0] != start:
        raise Violation("astar_grid:path-start", {"path": cells})
    if cells[-1] != goal:
        raise Violation("astar_grid:path-end", {"path": cells})
    total = (Fraction(0), Fraction(0))
    for a, c in zip(cells, cells[1:]):
        step = next((ab for v, ab in mv.get(a, ()) if v == c), None)
        if step is None:
            raise Violation("astar_grid:path-uses-illegal-move", {"from": a, "to": c, "path": cells})
        total = (total[0] + step[0], total[1] + step[1])
    obj = res.objective
    if not _finite(obj):
        raise Violation("astar_grid:objective-not-finite", repr(obj))
    # 1e-9: see the module docstring
    if abs(obj - G.q2_float(total)) > 1e-9:
        raise Violation("astar_grid:path-cost-vs-objective", {"objective": obj, "path-cost": G.q2_float(total), "path": cells})
    if want is not None and obj < G.q2_float(want) - 1e-9:
        raise Violation("astar_grid:cost-below-oracle-optimum", {"objective": obj, "shortest": G.q2_float(want)})
    if want_exact and abs(obj - G.q2_float(want)) > 1e-9:
        raise Violation("astar_grid:distance", {"objective": obj, "shortest": G.q2_float(want), "path": cells})
    if not want_exact and want is not None:
        ctx.label(obj > G.q2_float(want) + 1e-9 and "suboptimal-allowed")
    return None, cells


def run_grid(desc, ctx):
    grid = desc["grid"]
    b = desc["blocked"]
    blocked_arg = b if isinstance(b, int) else set(b)
    costs = None if desc["costs"] is None else {k: v for k, v in desc["costs"]}
    garg = [tuple(r) for r in grid] if desc["rows_as"] == "tuple" else [list(r) for r in grid]
    if desc["rows_as"] == "tuple":
        garg = tuple(garg)
    edit = desc.get("edit")

    esc, cells = _grid_round(desc, ctx, garg, blocked_arg, costs, True)
    escapes = [esc]
    if edit is not None and desc["rows_as"] == "list":
        # same grid / blocked / costs objects, one cell rewritten in place
        rows, cols = len(garg), len(garg[0])
        bset = {blocked_arg} if isinstance(blocked_arg, int) else set(blocked_arg)
        if edit["op"] == "block-on-path" and cells and len(cells) > 2:
            r, c = cells[1 + edit["k"] % (len(cells) - 2)]
            new = min(bset) if bset else 1
        else:
            r, c = edit["r"] % rows, edit["c"] % cols
            new = edit["val"]
        if garg[r][c] == new:
            new = 0 if new else 1
        before = G.grid_dist([list(x) for x in garg], bset, costs or {}, desc["directions"], tuple(desc["start"])).get(tuple(desc["goal"]))
        garg[r][c] = new
        after = G.grid_dist([list(x) for x in garg], bset, costs or {}, desc["directions"], tuple(desc["start"])).get(tuple(desc["goal"]))
        ctx.label("history", f"edit-{edit['op']}", before != after and "edit-changes-answer")
        frozen = [list(x) for x in garg]

        def redo():
            _grid_round(desc, ctx, [list(x) for x in frozen], b if isinstance(b, int) else set(b), None if costs is None else dict(costs), False)

        try:
            esc, _ = _grid_round(desc, ctx, garg, blocked_arg, costs, False)
            escapes.append(esc)
        except Violation as v:
            _second_opinion(v, redo)
    if "max_iter" in escapes:
        ctx.count("escape:max_iter")
        raise Inconclusive("MAX_ITER with max_iter <= reachable cells")


SUBS = [
    Sub("dijkstra_astar", run_weighted, strategy=lambda tier: weighted_cases(tier), quick=1000, thorough=1500, workers_quick=8, case_timeout=20.0, wall_thorough=300.0),
    Sub("bfs_dfs", run_unweighted, strategy=lambda tier: unweighted_cases(tier), quick=1000, thorough=1000, workers_quick=6, case_timeout=20.0, wall_thorough=300.0),
    Sub("bellman_ford", run_bf, strategy=lambda tier: bf_cases(tier), quick=1200, thorough=1200, workers_quick=6, case_timeout=20.0, wall_thorough=300.0),
    Sub("floyd_warshall", run_fw, strategy=lambda tier: fw_cases(tier), quick=900, thorough=900, workers_quick=6, case_timeout=20.0, wall_thorough=300.0),
    Sub("astar_grid", run_grid, strategy=lambda tier: grid_cases(tier), quick=1000, thorough=1500, workers_quick=8, case_timeout=20.0, wall_thorough=300.0),
]
