"""C17 — cutting-stock plans of solve_cg / solve_bp meet every demand; OPTIMAL is minimal."""
from __future__ import annotations

import math
from fractions import Fraction

from hypothesis import strategies as st

from .. import budget
from ..harness import Crash, Sub, Violation
from ..oracles import cutstock as CS

PROPERTY = "C17"
META = {
    "level": "exploration",
    "rule": (
        "Cutting-stock instances: roll width 4-16 (<=20 thorough), 1-4 (<=5 thorough) piece types with integer sizes <= "
        "width (duplicates allowed), demands 0-6 not all zero, plus the all-zero / empty edge; about 60% of the instances "
        "draw their sizes from directed families (DESIGN 2.9): 'frac' = sizes just above W/3, W/4, W/2 mixed with small "
        "fillers, 'dup' = repeated sizes, 'tiny' = a size-1/2 piece with demand <=2 next to such pieces on W>=10 (the last "
        "improving column has reduced cost -1/(W//size)), 'common-divisor' = 2-3 sizes all multiples of g in 2..6 on a "
        "width that is not, 'many-copies' = 2-3 sizes <= W/4 with demands 3-6; the rest uniform; numbers passed as int or integral float, sequences as list or tuple; "
        "solve_cg additionally with max_iter in {default x7, 0, 1, 2}. Exhaustive small scope (sub-checks "
        "*_exhaustive_2pieces, same verdict): every instance with two piece sizes 1<=s1<=s2<=W and demands in 1..2 "
        "(thorough 0..4, not both 0) for W=4..16 (thorough ..20) through solve_cg, and for W=4..12 (thorough ..14) "
        "through solve_bp; cg_exhaustive_small_pieces: sizes 2<=s1<=s2<=5 (thorough 6), W=7..16 (20), demands 1..6 (8); "
        "custom mode: cg_custom_exhaustive_cs_like (the two-piece scope walked through custom pricing) and "
        "*_custom_exhaustive_units (3 unit columns + every subset of <=2 (thorough 3) of 8 fixed composite columns, "
        "demands in 1..4, through solve_cg and solve_bp). Custom mode: an explicit column pool ('cs-like' = one-piece patterns + all maximal "
        "patterns of a drawn instance with the one-piece patterns as initial columns, i.e. the path of the built-in "
        "mode; all maximal patterns; a random sub-pool of them that still covers every piece; a generic 0-3 valued "
        "column set; 'units+composites' = all unit columns of 3-4 rows plus 2-4 multi-row columns, demands 1-5), initial columns = a covering subset of the pool, pricing function = enumeration of the pool "
        "returning the column of most negative reduced cost 1 - duals.col (or (None, 0) when none is negative). Oracle: "
        "exact minimum number of rolls/columns by memoised DP over remaining-demand vectors (vf.oracles.cutstock). For "
        "status OPTIMAL/FEASIBLE: patterns fit the width (custom: belong to the pool), counts are positive ints, "
        "production >= demand, objective = total rolls (1e-6), OPTIMAL => total = optimum. Non-trivial = exact LP bound of "
        "the instance is fractional (ceil(LP) > LP) or optimum > ceil(sum size*demand / W) (custom: optimum > ceil(LP)). "
        "Distinct = canonical JSON of the case. solve_bp results with iterations > 0 fall in the known class "
        "'bp-after-branching' (counted, not judged); solve_bp runs under a per-case step budget of 10x the work of "
        "solve_cg on the same input."
    ),
    "assumptions": [
        "reference DP optimum (cross-checked against bin-packing B&B and multiset brute force in vf.selftest)",
        "exact Fraction LP bound is used for labelling only",
        "step budget: exceeding it is inconclusive (C17 makes no termination claim)",
    ],
}

# Work limits (sys.monitoring JUMP|BRANCH events inside solvor.cg / solvor.bp / solvor.utils.pricing), DESIGN 2.4.
# solve_cg: max observed on /repo 0.62M (quick) / 1.9M (thorough) events -> fixed limit >= 200x that; never reached.
# solve_bp: the search after branching is the known-defective part (crawls through up to 10 000 nodes or does not
# stop: 25 % of the branched calls need > 13M events, 15 % of all calls > 20M), so a fixed 100x limit would cost
# ~100 s per hit.  The work of a *root-only* call (the only bp results outside the known class) is one column
# generation, i.e. the work solve_cg does on the same instance (measured ratio <= 1.12, evidence size
# 'bp-root-only-steps-per-100-cg-steps').  The bp limit is therefore set per case to 10x the events solve_cg needs
# on the same input (floor 0.3M, it only adds slack for tiny inputs): deterministic, >= 8.9x everything outside the known class (a root-only call used at
# most 11 % of its limit over the quick and thorough corpora, evidence size 'bp-root-only-steps-per-100-limit'); a hit costs ~0.3 s.
STEP_LIMIT_CG = 400_000_000
BP_FACTOR, BP_FLOOR = 10, 300_000

USABLE = ("OPTIMAL", "FEASIBLE")


# ----------------------------------------------------------------------------- strategies
def _size(draw, W):
    kind = draw(st.sampled_from(["third", "quarter", "half", "filler", "uniform"]))
    if kind == "third":
        s = W // 3 + draw(st.integers(1, 2))
    elif kind == "quarter":
        s = W // 4 + draw(st.integers(1, 2))
    elif kind == "half":
        s = W // 2 + draw(st.integers(0, 1))
    elif kind == "filler":
        s = draw(st.integers(1, max(1, W // 4)))
    else:
        s = draw(st.integers(1, W))
    return max(1, min(W, s))


def _cs_sizes(draw, W, n, fam):
    """Piece sizes of one of the directed families (DESIGN 2.9) and a demand cap per piece (None = free)."""
    caps = [None] * n
    if fam == "uniform":
        sizes = [draw(st.integers(1, W)) for _ in range(n)]
    elif fam == "frac":
        sizes = [_size(draw, W) for _ in range(n)]
    elif fam == "dup":  # duplicates of one or two sizes, like [2,2,2,3]
        base = [_size(draw, W) for _ in range(draw(st.integers(1, 2)))]
        sizes = [draw(st.sampled_from(base)) for _ in range(n)]
    else:  # "tiny": a size-1/2 piece with a small demand next to pieces whose one-piece patterns leave waste, so the
        # last improving column has a reduced cost of only -1/(W // size) (late columns matter, DESIGN 2.9)
        sizes = [_size(draw, W) for _ in range(n)]
        j = draw(st.integers(0, n - 1))
        sizes[j] = draw(st.sampled_from([1, 1, 2]))
        caps[j] = 2
    return sizes, caps


@st.composite
def instances(draw, tier="quick"):
    wmax, nmax = (20, 5) if tier == "thorough" else (16, 4)
    family = draw(st.sampled_from(["uniform", "uniform", "frac", "frac", "frac", "dup", "tiny", "common-divisor", "many-copies", "edge"]))
    W = draw(st.integers(10 if family == "tiny" else 4, wmax))
    if family == "many-copies":
        # small pieces (>= 4 copies per roll) with demands 3..6: the bounded-knapsack pricing needs several passes per
        # piece and the best pattern mixes many copies (seeded change C17-r3-3: W=11, sizes [2,3], demands [5,4])
        W = draw(st.integers(8, wmax))
        n = draw(st.integers(2, 3))
        sizes = [draw(st.integers(2 if W >= 8 and i == 0 else 1, max(2, W // 4))) for i in range(n)]
        demands = [draw(st.integers(3, 6)) for _ in range(n)]
    elif family == "common-divisor":
        # every size a multiple of g, roll width not: code that rescales the knapsack by gcd(sizes) must round the
        # capacity down (seeded change C17-r2-2 rounded to nearest: W=15, sizes [4,6], demands [2,1])
        g = draw(st.integers(2, 6))
        W = g * draw(st.integers(1, wmax // g)) + draw(st.integers(1, g - 1))
        W = W - g if W > wmax else max(W, g + 1)
        n = draw(st.integers(2, 3))
        sizes = [g * draw(st.integers(1, W // g)) for _ in range(n)]
        demands = [draw(st.integers(0, 4)) for _ in range(n)]
        if not any(demands):
            demands[draw(st.integers(0, n - 1))] = draw(st.integers(1, 2))
    elif family == "edge":
        n = draw(st.integers(0, 3))
        sizes = [draw(st.integers(1, W)) for _ in range(n)]
        demands = [0] * n
    else:
        n = draw(st.integers(2 if family == "tiny" else 1, nmax))
        sizes, caps = _cs_sizes(draw, W, n, family)
        dmax = 6 if n <= 4 else 4
        demands = [draw(st.integers(0, dmax if caps[i] is None else caps[i])) for i in range(n)]
        if not any(demands):
            demands[draw(st.integers(0, n - 1))] = draw(st.integers(1, 2))
    return {
        "family": family,
        "W": W,
        "sizes": sizes,
        "demands": demands,
        "num": draw(st.sampled_from(["int", "int", "float"])),
        "seq": draw(st.sampled_from(["list", "tuple"])),
        # solve_cg only: column generation cut short by a tiny iteration limit (OPTIMAL must then not be claimed wrongly)
        "cg_max_iter": draw(st.sampled_from([None] * 7 + [0, 1, 2])),
    }


@st.composite
def pools(draw, tier="quick"):
    family = draw(st.sampled_from(["cs-like", "cs-like", "maximal", "subpool", "subpool", "generic", "units+composites", "units+composites"]))
    W, sizes = None, None
    homog = []
    if family == "units+composites":
        # all unit columns plus 2-4 multi-row columns (all-ones, a doubled pair, overlapping pairs, a 2-1-1 mix): the
        # master LP has to pivot a variable out and back in within one phase (seeded change C17-r3-1: units +
        # (1,1,1),(2,2,0), demands [4,1,2])
        m = draw(st.integers(3, 4))
        caps, fam = [None] * m, None
        pool = [[int(i == j) for i in range(m)] for j in range(m)]
        for _ in range(draw(st.integers(2, 4))):
            kind = draw(st.sampled_from(["ones", "double-pair", "pair", "mix", "free"]))
            i, j = draw(st.integers(0, m - 1)), draw(st.integers(0, m - 2))
            j = j + 1 if j >= i else j
            if kind == "ones":
                c = [1] * m
            elif kind == "double-pair":
                c = [2 if r in (i, j) else 0 for r in range(m)]
            elif kind == "pair":
                c = [1 if r in (i, j) else 0 for r in range(m)]
            elif kind == "mix":
                c = [2 if r == i else 1 for r in range(m)]
            else:
                c = [draw(st.integers(0, 2)) for _ in range(m)]
            pool.append(c)
    elif family == "generic":
        m = draw(st.integers(1, 4))
        caps, fam = [None] * m, None
        k = draw(st.integers(1, 8 if tier == "thorough" else 6))
        pool = [[draw(st.sampled_from([0, 0, 1, 1, 2, 3])) for _ in range(m)] for _ in range(k)]
        for i in range(m):  # every row is covered by some column (by construction, no filtering)
            if not any(c[i] for c in pool):
                pool[draw(st.integers(0, k - 1))][i] = draw(st.integers(1, 2))
    else:
        fam = draw(st.sampled_from(["uniform", "frac", "frac", "tiny"]))
        W = draw(st.integers(10 if fam == "tiny" else 4, 16 if tier == "thorough" or fam == "tiny" else 12))
        m = draw(st.integers(2 if fam == "tiny" else 1, 4 if tier == "thorough" or fam != "tiny" else 3))
        sizes, caps = _cs_sizes(draw, W, m, fam)
        full = [list(p) for p in CS.maximal_patterns(W, sizes)]
        if family == "cs-like":
            # the pool solve_cg's own cutting-stock mode works on: one-piece patterns first, then every maximal one
            homog = [[W // sizes[j] if i == j else 0 for i in range(m)] for j in range(m)]
            pool = homog + full
        elif family == "maximal" or len(full) <= 1:
            pool = full
        else:
            keep = draw(st.lists(st.booleans(), min_size=len(full), max_size=len(full)))
            pool = [p for p, k in zip(full, keep) if k]
            for i in range(m):
                if not any(c[i] for c in pool):
                    cands = [p for p in full if p[i]]
                    pool.append(cands[draw(st.integers(0, len(cands) - 1))])
    uniq = []
    for c in pool:
        if c not in uniq and any(c):
            uniq.append(c)
    pool = uniq
    m = len(pool[0])
    dmax = 6
    if family == "units+composites":
        demands = [draw(st.integers(1, 5)) for _ in range(m)]
    else:
        demands = [draw(st.integers(0, dmax if caps[i] is None else caps[i])) for i in range(m)]
    if not any(demands):
        demands[draw(st.integers(0, m - 1))] = draw(st.integers(1, 2))
    init = []
    if family == "units+composites" and draw(st.booleans()):
        init = list(range(m))  # the unit columns only (they come first in the pool)
    elif family == "cs-like":
        # start exactly like the cutting-stock mode: the one-piece pattern of every demanded piece
        for j in range(m):
            if demands[j] > 0 and pool.index(homog[j]) not in init:
                init.append(pool.index(homog[j]))
    else:
        # for every row one pool column that serves it, plus optional extras (indices into pool)
        for i in range(m):
            if any(pool[j][i] for j in init):
                continue
            cands = [j for j, c in enumerate(pool) if c[i]]
            init.append(cands[draw(st.integers(0, len(cands) - 1))])
        for j in draw(st.lists(st.integers(0, len(pool) - 1), max_size=2)):
            if j not in init:
                init.append(j)
        if draw(st.booleans()):
            init = sorted(init)
    return {
        "family": family,
        "sizes_from": fam,
        "W": W,
        "sizes": sizes,
        "pool": pool,
        "init": init,
        "demands": demands,
        "none_style": draw(st.booleans()),  # pricing returns (None, 0.0) instead of a non-improving column
        "col_type": draw(st.sampled_from(["tuple", "list"])),  # type of the initial columns handed in
        "cg_max_iter": draw(st.sampled_from([None] * 7 + [0, 1, 2])),
    }


# ----------------------------------------------------------------------------- shared verdict
def _status(res):
    return getattr(res.status, "name", str(res.status))


def judge(res, solver, n, demands, optimum, ctx, fits=None, pool=None, extra=None):
    """All clauses of the statement for one Result.  `fits(p)` in cutting-stock mode, `pool` in custom mode."""
    status = _status(res)
    det = {"solver": solver, "status": status, "objective": repr(res.objective), "optimum": optimum}
    if solver == "bp":
        it = res.iterations
        det["bp_iterations"] = it if isinstance(it, int) else -1
        ctx.label("bp-branched" if det["bp_iterations"] > 0 else "bp-root-only")
    if extra:
        det.update(extra)
    ctx.label(f"status-{status}")
    if status not in USABLE:
        # allowed by the statement (cg reports a missed demand as INFEASIBLE + error string)
        ctx.label(res.error and "error-string")
        return
    sol = res.solution
    det["solution"] = {str(k): repr(v) for k, v in sol.items()} if isinstance(sol, dict) else repr(sol)
    if not isinstance(sol, dict):
        raise Violation(f"{solver}:solution-not-a-dict", det)
    prod = [0] * n
    total = 0
    for p, cnt in sol.items():
        if not (isinstance(p, tuple) and len(p) == n and all(isinstance(k, int) and not isinstance(k, bool) and k >= 0 for k in p)):
            raise Violation(f"{solver}:pattern-malformed", {**det, "pattern": repr(p)})
        if isinstance(cnt, bool) or not isinstance(cnt, int) or cnt <= 0:
            raise Violation(f"{solver}:count-not-positive-int", {**det, "pattern": list(p), "count": repr(cnt)})
        if fits is not None and not fits(p):
            raise Violation(f"{solver}:pattern-exceeds-width", {**det, "pattern": list(p)})
        if pool is not None and p not in pool:
            raise Violation(f"{solver}:pattern-not-in-pool", {**det, "pattern": list(p)})
        total += cnt
        for i in range(n):
            prod[i] += p[i] * cnt
    det["rolls"] = total
    for i in range(n):
        if prod[i] < demands[i]:
            raise Violation(f"{solver}:demand-missed-under-usable-status", {**det, "piece": i, "produced": prod[i], "demand": demands[i]})
    obj = res.objective
    # the objective is a float (bp returns the LP value of an integral root); 1e-6 as in the statement, far above
    # the solvers' eps = 1e-9 and far below the distance 1 between two roll counts
    if not isinstance(obj, (int, float)) or isinstance(obj, bool) or not math.isfinite(obj) or abs(obj - total) > 1e-6:
        raise Violation(f"{solver}:objective-not-total-rolls", det)
    if total < optimum:
        # a verified plan with fewer rolls than the reference optimum: the oracle is wrong, not solvOR
        raise RuntimeError(f"oracle self-inconsistency: valid plan with {total} rolls < reference optimum {optimum}: {det}")
    ctx.label(total > optimum and "plan-above-optimum")
    if status == "OPTIMAL" and total != optimum:
        raise Violation(f"{solver}:optimal-not-minimal", det)


def _instrument():
    from solvor import bp, cg
    from solvor.utils import pricing

    budget.instrument(cg, bp, pricing)
    return cg, bp


def _call_cg(ctx, *a, **kw):
    """solve_cg under the deterministic step budget; StepBudgetExceeded propagates (=> inconclusive)."""
    cg, _ = _instrument()
    with budget.steps(STEP_LIMIT_CG) as s:
        res = ctx.call(cg.solve_cg, *a, **kw)
    ctx.size("steps-cg", s.count)
    return res


def _call_bp(ctx, mk_args):
    """solve_bp under a step budget of BP_FACTOR x the work of solve_cg on the same input (see above).

    mk_args() builds fresh (args, kwargs) for each of the two calls (the pricing callback is stateful)."""
    cg, bp = _instrument()
    a, kw = mk_args()
    try:
        with budget.steps(STEP_LIMIT_CG) as s0:
            cg.solve_cg(*a, **kw)  # calibration only; solve_cg is judged by its own sub-checks
        base = s0.count
    except Exception:  # noqa: BLE001
        base = 0
    limit = max(BP_FLOOR, BP_FACTOR * base)
    a, kw = mk_args()
    with budget.steps(limit) as s:
        res = ctx.call(bp.solve_bp, *a, **kw)
    it = getattr(res, "iterations", 0)
    if isinstance(it, int) and it > 0:
        ctx.size("steps-bp-branched", s.count)
    else:
        ctx.size("steps-bp-root-only", s.count)
        ctx.size("bp-root-only-steps-per-100-cg-steps", (100 * s.count) // max(1, base))
        ctx.size("bp-root-only-steps-per-100-limit", (100 * s.count) // limit)
    return res


# ----------------------------------------------------------------------------- cutting-stock mode
def _cs_case(desc, ctx):
    W, sizes, demands = desc["W"], list(desc["sizes"]), list(desc["demands"])
    n = len(sizes)
    optimum = CS.min_rolls(W, sizes, demands)
    pats = CS.maximal_patterns(W, sizes)
    lp = CS.lp_bound(pats, demands) if n else Fraction(0)
    mat = CS.material_bound(W, sizes, demands) if n else 0
    frac = lp.denominator != 1
    ctx.label(desc["family"], f"n={n}", frac and "lp-fractional", optimum > mat and "optimum>material-bound",
              optimum > CS.ceil_frac(lp) and "optimum>ceil(LP)", len(set(sizes)) < n and "duplicate-sizes",
              any(d == 0 for d in demands) and any(demands) and "some-zero-demand", not any(demands) and "all-zero-or-empty",
              f"num-{desc['num']}")
    ctx.nontrivial(frac or optimum > mat)
    ctx.size("W", W)
    ctx.size("pieces", n)
    ctx.size("optimum", optimum)
    ctx.size("patterns", len(pats))
    conv = float if desc["num"] == "float" else int
    seq = tuple if desc["seq"] == "tuple" else list
    args = dict(roll_width=conv(W), piece_sizes=seq(conv(s) for s in sizes))
    extra = {"lp_bound": str(lp)}
    return n, sizes, demands, optimum, seq(demands), args, extra, W


def run_cg(desc, ctx):
    n, sizes, demands, optimum, dem_arg, args, extra, W = _cs_case(desc, ctx)
    if desc.get("cg_max_iter") is not None:
        args = dict(args, max_iter=desc["cg_max_iter"])
        ctx.label("cg-max_iter-tiny")
    res = _call_cg(ctx, dem_arg, **args)
    judge(res, "cg", n, demands, optimum, ctx, fits=lambda p: CS.fits(p, W, sizes), extra=extra)


def run_bp(desc, ctx):
    n, sizes, demands, optimum, dem_arg, args, extra, W = _cs_case(desc, ctx)
    res = _call_bp(ctx, lambda: ((dem_arg,), args))
    judge(res, "bp", n, demands, optimum, ctx, fits=lambda p: CS.fits(p, W, sizes), extra=extra)


# ----------------------------------------------------------------------------- custom pricing mode
class _CallbackBug(Exception):
    pass


def _custom_case(desc, ctx):
    pool = [tuple(c) for c in desc["pool"]]
    demands = list(desc["demands"])
    m = len(demands)
    optimum, _ = CS.min_cover(pool, demands)
    lp = CS.lp_bound(pool, demands)
    if optimum is None or lp is None:
        raise RuntimeError(f"custom pool does not cover a demanded row: {desc}")
    frac = lp.denominator != 1
    ctx.label(desc["family"], desc.get("sizes_from") and "sizes-" + desc["sizes_from"], f"m={m}", frac and "lp-fractional", optimum > CS.ceil_frac(lp) and "optimum>ceil(LP)",
              desc["none_style"] and "pricing-returns-None", len(desc["init"]) == len(pool) and "init=whole-pool")
    ctx.nontrivial(frac or optimum > CS.ceil_frac(lp))
    ctx.size("pool", len(pool))
    ctx.size("optimum", optimum)
    state = {"calls": 0, "err": None, "improving": 0}
    none_style = desc["none_style"]

    def pricing(duals):
        try:
            state["calls"] += 1
            best, best_rc = None, None
            for c in pool:
                rc = 1.0 - sum(float(duals[i]) * c[i] for i in range(m))
                if best_rc is None or rc < best_rc:
                    best, best_rc = c, rc
            if best_rc < -1e-9:
                state["improving"] += 1
            elif none_style:
                return None, 0.0
            return best, best_rc
        except Exception as e:  # a bug in this callback is a harness matter, not a solvOR crash
            state["err"] = e
            raise

    conv = tuple if desc["col_type"] == "tuple" else list
    init = [conv(pool[j]) for j in desc["init"]]
    return pool, demands, m, optimum, pricing, init, state, {"lp_bound": str(lp)}


def _run_custom(desc, ctx, solver):
    pool, demands, m, optimum, pricing, init, state, extra = _custom_case(desc, ctx)

    def mk_args():
        state.update(calls=0, improving=0)
        return (list(demands),), dict(pricing_fn=pricing, initial_columns=[type(c)(c) for c in init])

    try:
        if solver == "cg":
            a, kw = mk_args()
            if desc.get("cg_max_iter") is not None:
                kw["max_iter"] = desc["cg_max_iter"]
                ctx.label("cg-max_iter-tiny")
            res = _call_cg(ctx, *a, **kw)
        else:
            res = _call_bp(ctx, mk_args)
    except Crash:
        if state["err"] is not None:
            raise _CallbackBug(repr(state["err"])) from state["err"]
        raise
    if state["err"] is not None:
        raise _CallbackBug(repr(state["err"])) from state["err"]
    ctx.label(state["improving"] > 0 and "pricing-added-columns")
    ctx.size("pricing-calls", state["calls"])
    judge(res, solver, m, demands, optimum, ctx, pool=set(pool), extra=extra)


def run_cg_custom(desc, ctx):
    _run_custom(desc, ctx, "cg")


def run_bp_custom(desc, ctx):
    _run_custom(desc, ctx, "bp")


# ----------------------------------------------------------------------------- exhaustive small scope
def small_scope(tier, wmax_quick=16, wmax_thorough=20):
    """Every two-piece instance: W = 4..16 (thorough ..20), 1 <= s1 <= s2 <= W, demands 1..2 (thorough 0..4, not both 0).

    Same description format as `instances`, judged by the same run functions.  solve_cg: 3 224 cases quick, 36 720
    thorough; solve_bp (a call costs ~10x more, half of them end in the known class): W <= 12 quick (1 416 cases),
    W <= 14 thorough (13 200)."""
    thorough = tier == "thorough"
    dem = range(0, 5) if thorough else range(1, 3)
    for W in range(4, (wmax_thorough if thorough else wmax_quick) + 1):
        for s1 in range(1, W + 1):
            for s2 in range(s1, W + 1):
                for d1 in dem:
                    for d2 in dem:
                        if d1 or d2:
                            yield {"family": "exhaustive", "W": W, "sizes": [s1, s2], "demands": [d1, d2], "num": "int", "seq": "list", "cg_max_iter": None}


def small_pieces_scope(tier):
    """Every instance with two small piece sizes 2 <= s1 <= s2 <= 5 (thorough <= 6), W = 7..16 (thorough ..20) and
    demands 1..6 (thorough 1..8) each: many copies per roll, demands above the {1,2} of `small_scope`
    (3 600 cases quick, 13 440 thorough).  The shape that exposes a bounded-knapsack pricing that stops adding copies
    too early (seeded change C17-r3-3: W=11, sizes [2,3], demands [5,4]; 10 of the 3 600 cases)."""
    thorough = tier == "thorough"
    smax, wmax, dmax = (6, 20, 8) if thorough else (5, 16, 6)
    for W in range(7, wmax + 1):
        for s1 in range(2, smax + 1):
            for s2 in range(s1, smax + 1):
                for d1 in range(1, dmax + 1):
                    for d2 in range(1, dmax + 1):
                        yield {"family": "exhaustive-small-pieces", "W": W, "sizes": [s1, s2], "demands": [d1, d2], "num": "int", "seq": "list", "cg_max_iter": None}


UNITS3 = [[1, 0, 0], [0, 1, 0], [0, 0, 1]]
COMPOSITES3 = [[1, 1, 1], [1, 1, 0], [0, 1, 1], [1, 0, 1], [2, 2, 0], [0, 2, 2], [2, 0, 2], [2, 1, 1]]


def units_composites_scope(tier):
    """Custom mode, 3 rows: the three unit columns plus every subset of at most 2 (thorough 3) of the 8 composite
    columns COMPOSITES3, initial columns = the units, every demand vector in {1..4}^3 (2 368 cases quick, 5 952
    thorough).  Seeded change C17-r3-1 (simplex_phase keeps a left variable marked basic) shows in 8 of the 2 368
    root-only solve_bp results, e.g. units + (1,1,1),(2,2,0) with demands [4,1,2]."""
    import itertools

    kmax = 3 if tier == "thorough" else 2
    for k in range(kmax + 1):
        for comp in itertools.combinations(COMPOSITES3, k):
            for dem in itertools.product(range(1, 5), repeat=3):
                yield {"family": "exhaustive-units+composites", "sizes_from": None, "W": None, "sizes": None,
                       "pool": UNITS3 + [list(c) for c in comp], "init": [0, 1, 2], "demands": list(dem),
                       "none_style": (sum(dem) + k) % 2 == 1, "col_type": "tuple", "cg_max_iter": None}


def cs_like_scope(tier):
    """Custom mode over the two-piece instances of `small_scope` (W <= 16 in both tiers): pool = the one-piece
    patterns + every maximal pattern, initial columns = the one-piece patterns of the demanded pieces, i.e. the path of
    the built-in cutting-stock mode walked through `_solve_custom` (3 224 cases quick, 19 344 thorough).  Makes
    'custom pricing stops 0.1 early' deterministic (e.g. W=11, sizes [1,5], demands [1,2])."""
    for d in small_scope(tier, wmax_quick=16, wmax_thorough=16):
        W, sizes, demands = d["W"], d["sizes"], d["demands"]
        homog = [[W // sizes[j] if i == j else 0 for i in range(2)] for j in range(2)]
        pool = []
        for c in homog + [list(p) for p in CS.maximal_patterns(W, sizes)]:
            if c not in pool:
                pool.append(c)
        init = []
        for j in range(2):
            if demands[j] > 0 and pool.index(homog[j]) not in init:
                init.append(pool.index(homog[j]))
        yield {"family": "exhaustive-cs-like", "sizes_from": None, "W": W, "sizes": sizes, "pool": pool, "init": init,
               "demands": demands, "none_style": (W + sum(sizes)) % 2 == 1, "col_type": "tuple", "cg_max_iter": None}


# ----------------------------------------------------------------------------- known finding (DESIGN §5 row 20)
def bp_after_branching(desc, v):
    """solve_bp result produced after branching (Result.iterations > 0).  Root-only bp results and every
    solve_cg result are outside the class."""
    d = getattr(v, "detail", None)
    return isinstance(d, dict) and d.get("solver") == "bp" and isinstance(d.get("bp_iterations"), int) and d.get("bp_iterations", 0) > 0


KNOWN_CLASSES = {"bp-after-branching": bp_after_branching}


SUBS = [
    Sub("cg_cutting_stock", run_cg, strategy=lambda tier: instances(tier), quick=450, thorough=3000, workers_quick=4, crash="inconclusive"),
    Sub("bp_cutting_stock", run_bp, strategy=lambda tier: instances(tier), quick=200, thorough=800, workers_quick=6, crash="inconclusive"),
    Sub("cg_exhaustive_2pieces", run_cg, enumerate=lambda tier: small_scope(tier), workers_quick=8, crash="inconclusive"),
    Sub("bp_exhaustive_2pieces", run_bp, enumerate=lambda tier: small_scope(tier, wmax_quick=12, wmax_thorough=14), workers_quick=8, crash="inconclusive"),
    Sub("cg_exhaustive_small_pieces", run_cg, enumerate=lambda tier: small_pieces_scope(tier), workers_quick=4, crash="inconclusive"),
    Sub("cg_custom_exhaustive_cs_like", run_cg_custom, enumerate=lambda tier: cs_like_scope(tier), workers_quick=4, crash="inconclusive"),
    Sub("cg_custom_exhaustive_units", run_cg_custom, enumerate=lambda tier: units_composites_scope(tier), workers_quick=2, crash="inconclusive"),
    Sub("bp_custom_exhaustive_units", run_bp_custom, enumerate=lambda tier: units_composites_scope(tier), workers_quick=8, crash="inconclusive"),
    Sub("cg_custom_pricing", run_cg_custom, strategy=lambda tier: pools(tier), quick=300, thorough=2000, workers_quick=4, crash="inconclusive"),
    Sub("bp_custom_pricing", run_bp_custom, strategy=lambda tier: pools(tier), quick=250, thorough=1200, workers_quick=4, crash="inconclusive"),
]
