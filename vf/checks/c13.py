"""C13 — kruskal and prim return minimum spanning trees (or say why not).

One JSON description (node count, undirected multigraph edge list, label scheme,
dict layout switches) is turned into the index graph for `kruskal` and into a
symmetric adjacency dict for `prim`.  The oracle is vf/oracles/graphs_mst.py
(exact Fraction Kruskal with its own disjoint sets + a validity predicate for
"spanning forest made of input edges").
"""
from __future__ import annotations

import itertools
import random
from fractions import Fraction

from hypothesis import strategies as st

from ..harness import Discard, Sub, Violation
from ..oracles import graphs_mst as M

PROPERTY = "C13"
META = {
    "level": "exploration",
    "rule": (
        "Generated undirected weighted multigraphs (<=8 nodes quick, <=11 thorough) from nine families (sparse, dense, "
        "random tree plus extra edges = connected by construction, 2-3 components = disconnected by construction, "
        "cycle with chords, path with heavy shortcuts from one end, binomial merge order that drives the union-find to "
        "its maximal depth before cycle-closing edges arrive; this family has up to 10 nodes in the quick tier too, "
        "bundle-tie = 2-5 nodes with 4n+1..8n+6 edges, mostly self loops/parallel edges on a 2-3 value palette, the only "
        "connecting edges tying at the heaviest value, bundle-spread = 2-4 nodes with 15-40 parallel edges of spread weights) with parallel edges in both orientations and of different "
        "weight, self loops, isolated nodes, weights from a 3-value palette / integers incl. negative and zero / all "
        "negative / dyadic k/4 floats / int-float mix, shuffled node numbering, edge order and edge orientation. "
        "kruskal(n, edges, backend='python') is called without and with allow_forest; prim is called on the symmetric "
        "adjacency dict of the same graph (labels int/str/tuple/frozenset/mixed non-comparable kinds, list or tuple "
        "adjacency rows, shuffled rows, shuffled key order, self loop listed once or twice, pendant nodes that occur "
        "only as neighbours) from every keyed start node and with the default start. Each answer is compared with the "
        "reference: status, n-c edges, each an input edge (multiset, either orientation, equal weight), acyclic, "
        "spanning every component, objective == exact sum == reference minimum; kruskal and prim agree. Plus an "
        "exhaustive sub-run over every simple graph on <=5 nodes with each pair absent or of weight 1 or 2 (thorough: "
        "also all 2^15 simple graphs on 6 nodes with a fixed 3-value weight pattern). A case is non-trivial when the graph has >= n edges and spanning forests of different total "
        "weight exist (minimum != maximum spanning forest weight) and it is either connected (tree clause) or has >=2 "
        "components that contain an edge (forest / INFEASIBLE clause). In 1/8 of the kruskal-only cases the graph is "
        "shifted to node ids >= 247 of a 258..320-node index graph (ids computed at run time = distinct int objects "
        "beyond the small-int cache), low ids isolated or chained by a path. Distinct = canonical JSON of the description."
    ),
    "assumptions": [
        "reference Kruskal on Fractions (cross-checked in vf.selftest against brute force over all (n-c)-edge subsets for n<=6 "
        "and against an array Prim for n<=11)",
        "weights are ints or dyadic floats of small magnitude, so solvOR's float accumulation is exact and objective is compared with ==",
        "prim: an adjacency dict is a valid undirected graph when every edge is listed from both ends, except that a pendant node "
        "(all its edges go to one keyed neighbour) may be missing as a key; a start node is a key of the dict",
    ],
}

NSCHEMES = 7


def lab(scheme, i):
    """Node label for index i.  No two labels of one scheme are equal or hash-equal by construction."""
    if scheme == 0:
        return i
    if scheme == 1:
        return f"v{i}"
    if scheme == 2:
        return (i // 3, i % 3)
    if scheme == 3:
        return frozenset({i, i + 100})
    if scheme == 4:  # mixed, mutually non-comparable kinds
        return [i, f"v{i}", (i, "x"), frozenset({i}), i + 0.5, bytes([65 + i])][i % 6]
    if scheme == 5:
        return 7 * i - 20  # negative and non-contiguous ints
    return 1000 + 13 * i  # ints beyond the interpreter's small-int cache: every call makes a new, equal object


# ----------------------------------------------------------------------------- generator
def _weights(draw, wmode):
    if wmode == "palette3":
        pal = draw(st.lists(st.integers(-3, 6), min_size=3, max_size=3))
        return st.sampled_from(pal)
    if wmode == "int":
        return st.integers(-5, 9)
    if wmode == "neg":
        return st.integers(-9, -1)
    if wmode == "dyadic":
        return st.integers(-20, 40).map(lambda k: k / 4)
    return st.one_of(st.integers(-5, 9), st.integers(-20, 40).map(lambda k: k / 4))  # mixed


def _tree_plus(draw, nodes, w, extra_max):
    """Random tree on `nodes` (each node attaches to an earlier one) plus random extra pairs."""
    es = []
    for i in range(1, len(nodes)):
        es.append([nodes[draw(st.integers(0, i - 1))], nodes[i], draw(w)])
    if len(nodes) >= 1:
        k = len(nodes)
        extra = draw(st.lists(st.tuples(st.integers(0, k - 1), st.integers(0, k - 1), w), max_size=extra_max))
        es += [[nodes[a], nodes[b], c] for a, b, c in extra]
    return es


FAMILIES = ["sparse", "dense", "tree-plus", "tree-plus", "components", "components", "cycle", "detour", "binomial", "bundle-tie", "bundle-tie", "bundle-spread"]
WMODES = ["palette3", "palette3", "int", "neg", "dyadic", "mixed"]


@st.composite
def graphs(draw, tier="quick", salt=False, large=False):
    nmax = 11 if tier == "thorough" else 8
    if salt:  # the sub-checks share worker seeds; one extra draw decorrelates their example streams
        draw(st.integers(0, 2**16))
    family = draw(st.sampled_from(FAMILIES))
    wmode = draw(st.sampled_from(WMODES))
    w = _weights(draw, wmode)
    want_pend = draw(st.integers(0, 9)) < 3  # 30 %: pendant nodes that become neighbour-only nodes for prim
    room = 2 if want_pend else 0
    if family == "sparse":
        n = draw(st.integers(1, nmax - room))
        m = draw(st.integers(0, n + 1))
        edges = [list(e) for e in draw(st.lists(st.tuples(st.integers(0, n - 1), st.integers(0, n - 1), w), min_size=m, max_size=m))]
    elif family == "dense":
        n = draw(st.integers(2, nmax - room))
        m = draw(st.integers(n, 3 * n))
        edges = [list(e) for e in draw(st.lists(st.tuples(st.integers(0, n - 1), st.integers(0, n - 1), w), min_size=m, max_size=m))]
    elif family == "tree-plus":
        n = draw(st.integers(2, nmax - room))
        edges = _tree_plus(draw, list(range(n)), w, n + 2)
    elif family == "components":
        n = draw(st.integers(2, nmax - room))
        k = draw(st.integers(2, min(3, n)))
        cuts = sorted(draw(st.lists(st.integers(1, n - 1), min_size=k - 1, max_size=k - 1, unique=True)))
        bounds = [0] + cuts + [n]
        edges = []
        for a, b in zip(bounds, bounds[1:]):
            edges += _tree_plus(draw, list(range(a, b)), w, (b - a) + 1)
    elif family == "cycle":
        n = draw(st.integers(3, nmax - room))
        edges = [[i, (i + 1) % n, draw(w)] for i in range(n)]
        chords = draw(st.lists(st.tuples(st.integers(0, n - 1), st.integers(0, n - 1), w), max_size=n))
        edges += [list(c) for c in chords]
    elif family == "bundle-tie":
        # many more edges than nodes (m > 4n .. ~8n+6) on 2-5 nodes, almost all of them self loops / parallel edges
        # inside two groups, weights from a 2- or 3-value palette; the only edges joining the two groups carry the
        # heaviest palette value (so they tie with a crowd of useless edges), optionally one still heavier fallback.
        # Any implementation that orders only a light prefix, or drops/reorders ties, loses a needed edge here.
        want_pend = False
        n = draw(st.integers(2, 5))
        top = draw(st.integers(1, 2))
        base = draw(st.integers(-2, 2))
        wmode = f"tie{top + 1}"
        w = st.integers(0, top).map(lambda x: x + base)
        a = draw(st.integers(1, n - 1))
        groups = [list(range(a)), list(range(a, n))]
        edges = []
        for g in groups:
            for i in range(1, len(g)):
                edges.append([g[draw(st.integers(0, i - 1))], g[i], draw(w)])
        for _ in range(draw(st.integers(1, 2))):
            edges.append([draw(st.sampled_from(groups[0])), draw(st.sampled_from(groups[1])), base + top])
        if draw(st.booleans()):
            edges.append([draw(st.sampled_from(groups[0])), draw(st.sampled_from(groups[1])), base + top + draw(st.integers(1, 4))])
        junk = draw(st.integers(4 * n + 1, 8 * n + 4)) - len(edges)
        for side, x, y, c in draw(st.lists(st.tuples(st.integers(0, 1), st.integers(0, 4), st.integers(0, 4), w), min_size=max(junk, 0), max_size=max(junk, 0))):
            g = groups[side]
            edges.append([g[x % len(g)], g[y % len(g)], c])
    elif family == "bundle-spread":
        # 2-4 nodes joined by 15-40 parallel edges with a spread of weights (heap order matters; a heap-based Prim
        # holds far more entries than nodes and most of them go stale)
        want_pend = False
        n = draw(st.sampled_from([2, 3, 3, 4, 4]))
        wmode = draw(st.sampled_from(["spread-int", "spread-dyadic"]))
        w = st.integers(0, 9) if wmode == "spread-int" else st.integers(-8, 36).map(lambda k: k / 4)
        pairs = [(u, v) for u in range(n) for v in range(u + 1, n)]
        hot = draw(st.sampled_from(pairs))
        pool = pairs + [hot] * draw(st.integers(0, 4))
        m = draw(st.integers(15, 40))
        edges = [[i, i + 1, draw(w)] for i in range(n - 1)]
        edges += [[p[0], p[1], c] for p, c in draw(st.lists(st.tuples(st.sampled_from(pool), w), min_size=m - len(edges), max_size=m - len(edges)))]
    elif family == "binomial":
        # union-find depth: 2^k blocks merged pairwise level by level (level-j edges weigh base+j, so Kruskal must
        # take them in that order and builds a rank-k tree with a node at depth k), then heavier cycle-closing edges
        # (kruskal stops at n-1 accepted edges, so 0-2 further nodes hang on still heavier edges to keep it running;
        # this family therefore reaches 10 nodes in the quick tier as well)
        k = draw(st.sampled_from([2, 3, 3, 3]))
        blk = 2**k
        base = draw(st.integers(-3, 2))
        edges = []
        for j in range(k):
            size = 2**j
            for a in range(0, blk, 2 * size):
                edges.append([a + draw(st.integers(0, size - 1)), a + size + draw(st.integers(0, size - 1)), base + j])
        late = draw(st.lists(st.tuples(st.integers(0, blk - 1), st.integers(0, blk - 1), st.integers(k, k + 1)), min_size=1, max_size=blk))
        edges += [[a, b, base + c] for a, b, c in late]
        n = blk
        for _ in range(draw(st.integers(0, min(2, max(nmax, 10) - room - blk)))):
            edges.append([draw(st.integers(0, n - 1)), n, base + k + 2])
            n += 1
    else:  # detour: path 0-1-..-(n-1) of cheap edges, plus expensive shortcuts from node 0 (greedy-from-start trap)
        n = draw(st.integers(3, nmax - room))
        base = draw(st.integers(-2, 3))
        edges = [[i, i + 1, base + draw(st.integers(0, 1))] for i in range(n - 1)]
        for j in draw(st.lists(st.integers(2, n - 1), max_size=n, unique=True)):
            edges.append([0, j, base + draw(st.integers(0, 4))])
    # parallel copies (same or different weight, either orientation) and self loops
    if edges:
        for i in draw(st.lists(st.integers(0, len(edges) - 1), max_size=3)):
            u, v, c = edges[i]
            edges.append([v, u, c if draw(st.booleans()) else draw(w)])
    for u in draw(st.lists(st.integers(0, n - 1), max_size=2)):
        edges.append([u, u, draw(w)])
    # pendant nodes: joined to exactly one core node by 1-2 parallel edges
    keyless = []
    if want_pend:
        core = n
        for _ in range(draw(st.integers(1, 2))):
            host = draw(st.integers(0, core - 1))
            for _ in range(draw(st.integers(1, 2))):
                edges.append([host, n, draw(w)])  # orientation is randomised below
            keyless.append(n)
            n += 1
    perm = list(draw(st.permutations(range(n))))
    edges = [[perm[u], perm[v], c] for u, v, c in edges]
    flips = draw(st.lists(st.booleans(), min_size=len(edges), max_size=len(edges)))
    edges = [[v, u, c] if f else [u, v, c] for (u, v, c), f in zip(edges, flips)]
    if 1 < len(edges):
        edges = [list(e) for e in draw(st.permutations(edges))]
    extra = {}
    sel = draw(st.integers(0, 7999)) if large else 0  # wide range + modulo: Hypothesis over-samples small integers
    if sel % 8 == 3:
        # kruskal only: the graph lives on node ids offset..offset+n-1 of a 258..320-node index graph (ids beyond
        # CPython's cached small ints, computed at run time), nodes below the offset are isolated or chained up
        extra = {"offset": draw(st.integers(258 - n, 320 - n)), "chain": draw(st.integers(-2, 3)) if (sel // 8) % 2 == 0 else None}
    return {
        **extra,
        "n": n,
        "edges": edges,
        "family": family,
        "wmode": wmode,
        "scheme": draw(st.integers(0, 100 * NSCHEMES - 1)) % NSCHEMES,
        "keyless": sorted(perm[i] for i in keyless),
        "key_order": list(draw(st.permutations(range(n)))),
        "loop_twice": draw(st.booleans()),
        "adj_tuple": draw(st.booleans()),
        "adj_seed": draw(st.integers(0, 3)),  # 0 = rows in edge-list order, else shuffle rows with this seed
    }


def _small_desc(k, n, edges, fam):
    return {
        "n": n,
        "edges": edges,
        "family": fam,
        "wmode": "w12" if fam.startswith("exhaustive") else "w123",
        "scheme": k % NSCHEMES,
        "keyless": [],
        "key_order": list(range(n)) if k % 2 else list(range(n - 1, -1, -1)),
        "loop_twice": False,
        "adj_tuple": bool(k % 3 == 0),
        "adj_seed": 0,
    }


def small_graphs(tier):
    """Every simple graph on n <= 5 nodes with each pair absent / weight 1 / weight 2 (3^10 graphs for n = 5);
    thorough adds every simple graph on 6 nodes (2^15) with the fixed weight pattern 1 + (u*v + u + v) % 3."""
    k = 0
    for n in range(1, 6):
        pairs = [(u, v) for u in range(n) for v in range(u + 1, n)]
        for states in itertools.product((0, 1, 2), repeat=len(pairs)):
            k += 1
            yield _small_desc(k, n, [[u, v, s] for (u, v), s in zip(pairs, states) if s], f"exhaustive-n{n}")
    if tier == "thorough":
        n = 6
        pairs = [(u, v) for u in range(n) for v in range(u + 1, n)]
        for states in itertools.product((0, 1), repeat=len(pairs)):
            k += 1
            yield _small_desc(k, n, [[u, v, 1 + (u * v + u + v) % 3] for (u, v), s in zip(pairs, states) if s], "all-simple-n6")


# ----------------------------------------------------------------------------- oracle side
def analyse(desc, ctx):
    n = desc["n"]
    edges = [(int(u), int(v), w) for u, v, w in desc["edges"]]
    for u, v, w in edges:
        if not (0 <= u < n and 0 <= v < n) or isinstance(w, bool) or not isinstance(w, (int, float)):
            raise Discard()
    mn, c = M.msf_weight(n, edges)
    mx, _ = M.msf_weight(n, edges, maximum=True)
    comp = M.components(n, edges)
    pairs = [(min(u, v), max(u, v)) for u, v, _ in edges if u != v]
    ws = [Fraction(w) for _, _, w in edges]
    sizes = {}
    for x in comp:
        sizes[x] = sizes.get(x, 0) + 1
    nonsingle = sum(1 for s in sizes.values() if s >= 2)
    info = {
        "n": n, "edges": edges, "min": mn, "max": mx, "c": c, "connected": c == 1, "comp": comp,
        "parallel": len(set(pairs)) < len(pairs),
    }
    ctx.label(
        desc["family"], "w:" + desc["wmode"], "connected" if c == 1 else "disconnected",
        c >= 3 and "components>=3", any(u == v for u, v, _ in edges) and "self-loop", info["parallel"] and "parallel-edges",
        any(x < 0 for x in ws) and "negative-weight", any(x == 0 for x in ws) and "zero-weight",
        len(set(ws)) < len(ws) and "equal-weights", any(x.denominator > 1 for x in ws) and "fractional-weight",
        n == 1 and "n=1", not edges and "no-edges", any(s == 1 for s in sizes.values()) and n > 1 and "isolated-node",
        mn != mx and "min!=max",
    )
    ctx.size("n", n)
    ctx.size("m", len(edges))
    rich = len(edges) >= n and mn != mx
    ctx.nontrivial(rich and (c == 1 or nonsingle >= 2))
    ctx.label(rich and c == 1 and "nontrivial-tree", rich and c > 1 and nonsingle >= 2 and "nontrivial-forest")
    return info


def status_name(res):
    return getattr(getattr(res, "status", None), "name", repr(getattr(res, "status", None)))


def judge(area, info, res, out_edges, want_status, call):
    """Compare one answer (already translated to index triples) with the reference."""
    got = status_name(res)
    if want_status == "INFEASIBLE":
        if got != "INFEASIBLE":
            raise Violation(f"{area}:disconnected-not-infeasible", {"call": call, "status": got, "solution": repr(res.solution)[:200]})
        return
    if got != want_status:
        bucket = "connected-status" if info["connected"] else "forest-status"
        raise Violation(f"{area}:{bucket}", {"call": call, "status": got, "want": want_status})
    defect, detail, total = M.check_spanning_forest(info["n"], info["edges"], out_edges)
    if defect is not None:
        raise Violation(f"{area}:{defect}", {"call": call, "detail": detail, "solution": repr(out_edges)[:300]})
    obj = res.objective
    # exact: every weight is an int or k/4 with |k| <= 40 and at most n-1 <= 10 of them are summed, so float sums are exact
    if isinstance(obj, bool) or not isinstance(obj, (int, float)) or obj != obj or obj in (float("inf"), float("-inf")) or Fraction(obj) != total:
        raise Violation(f"{area}:objective-vs-sum", {"call": call, "objective": repr(obj), "sum": str(total)})
    if total != info["min"]:
        raise Violation(f"{area}:not-minimum", {"call": call, "weight": str(total), "minimum": str(info["min"]), "solution": repr(out_edges)[:300]})


def check_kruskal(desc, ctx, info):
    from solvor.mst import kruskal

    n = info["n"]
    out = {}
    for forest in (False, True):
        edges = [tuple(e) for e in info["edges"]]
        snapshot = list(edges)
        res = ctx.call(kruskal, n, edges, allow_forest=forest, backend="python")
        if edges != snapshot:
            raise Violation("kruskal:input-mutated", {"allow_forest": forest})
        if info["connected"]:
            want = "OPTIMAL"
        else:
            want = "FEASIBLE" if forest else "INFEASIBLE"
        judge("kruskal-forest" if forest else "kruskal", info, res, res.solution, want, {"allow_forest": forest})
        out[forest] = res
        ctx.count("kruskal_calls")
    if not info["connected"]:
        ctx.count("kruskal_forests_checked")
    return out


def build_prim_graph(desc, info):
    n, sch = info["n"], desc["scheme"]
    L = [lab(sch, i) for i in range(n)]
    keyless = set(desc["keyless"])
    rows = [[] for _ in range(n)]
    for u, v, w in info["edges"]:
        if u == v:
            rows[u].append((u, w))
            if desc["loop_twice"]:
                rows[u].append((u, w))
        else:
            rows[u].append((v, w))
            rows[v].append((u, w))
    for i in keyless:  # a neighbour-only node must be a pendant of a keyed node, else the dict is not an undirected graph
        nbrs = {j for j, _ in rows[i]}
        if len(nbrs) != 1 or i in nbrs or next(iter(nbrs)) in keyless:
            raise Discard()
    if desc["adj_seed"]:
        rng = random.Random(desc["adj_seed"])
        for r in rows:
            rng.shuffle(r)
    if sorted(desc["key_order"]) != list(range(n)):
        raise Discard()
    graph = {}
    for i in desc["key_order"]:
        if i not in keyless:
            row = [(lab(sch, j), w) for j, w in rows[i]]  # a fresh (equal, not identical) label object per occurrence
            graph[L[i]] = tuple(row) if desc["adj_tuple"] else row
    return graph, L


def check_prim(desc, ctx, info):
    from solvor.mst import prim

    graph, L = build_prim_graph(desc, info)
    n = info["n"]
    index = {}
    for i in range(n):
        index[L[i]] = i
    if len(index) != n:
        raise AssertionError("label scheme collision")
    ctx.label(f"labels-{desc['scheme']}", desc["keyless"] and "neighbour-only-node", desc["adj_tuple"] and "tuple-rows")
    want = "OPTIMAL" if info["connected"] else "INFEASIBLE"
    starts = [("default", None)] + [(i, lab(desc["scheme"], i)) for i in desc["key_order"] if L[i] in graph]
    results = []
    for tag, s in starts:
        frozen = {k: tuple(v) for k, v in graph.items()}
        res = ctx.call(prim, graph) if tag == "default" else ctx.call(prim, graph, start=s)
        if {k: tuple(v) for k, v in graph.items()} != frozen:
            raise Violation("prim:input-mutated", {"start": tag})
        sol = res.solution
        triples = sol
        if status_name(res) != "INFEASIBLE" and isinstance(sol, (list, tuple)):
            triples = []
            for e in sol:
                try:
                    a, b, w = e
                    triples.append((index[a], index[b], w))
                except Exception:  # noqa: BLE001  (unknown label / wrong arity)
                    raise Violation("prim:solution-format", {"start": tag, "edge": repr(e)[:120]})
        judge("prim", info, res, triples, want, {"start": tag})
        results.append(res)
        ctx.count("prim_calls")
    return results


def agree(info, kres, pres):
    if not info["connected"]:
        return
    k = kres[False]
    for p in pres:
        if p.objective != k.objective or len(p.solution) != len(k.solution):
            raise Violation("agree:kruskal-vs-prim", {"kruskal": repr(k.objective), "prim": repr(p.objective)})


def expand_large(desc, ctx):
    """Shift the graph to node ids offset.. of an index graph with n+offset nodes (kruskal only).  Every endpoint is
    the result of an addition done here, at run time, so equal ids are distinct int objects once they exceed 256."""
    off = int(desc.get("offset") or 0)
    if off <= 0:
        return desc
    edges = [[u + off, v + off, w] for u, v, w in desc["edges"]]
    cw = desc.get("chain")
    if cw is not None:  # path 0-1-..-offset: connects the low ids with the first shifted node
        edges += [[i, i + 1, cw] for i in range(off)]
    ctx.label("large-ids", "large-ids-chained" if cw is not None else "large-ids-isolated-low-nodes")
    return {**desc, "n": desc["n"] + off, "edges": edges}


def run_kruskal(desc, ctx):
    desc = expand_large(desc, ctx)
    info = analyse(desc, ctx)
    check_kruskal(desc, ctx, info)


def run_prim(desc, ctx):
    info = analyse(desc, ctx)
    pres = check_prim(desc, ctx, info)
    kres = check_kruskal(desc, ctx, info)
    agree(info, kres, pres)


SUBS = [
    Sub("kruskal", run_kruskal, strategy=lambda tier: graphs(tier, salt=True, large=True), quick=1500, thorough=8000, workers_quick=4),
    Sub("prim", run_prim, strategy=lambda tier: graphs(tier), quick=1500, thorough=8000, workers_quick=4),
    Sub("small-exhaustive", run_prim, enumerate=small_graphs, workers_quick=4),
]
