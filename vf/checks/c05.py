"""C05 — CP Model.solve never returns an assignment that breaks an added constraint."""
from __future__ import annotations

from ..gens import cpmodel
from ..harness import Discard, Inconclusive, Sub, Violation
from ..oracles import cp_sem

PROPERTY = "C05"
META = {
    "level": "exploration",
    "rule": (
        "CP models generated from a grammar over the public constructors: 1-6 named variables with arbitrary small "
        "domains (lb in [-3,3], width<=5), constraints from ==/!= between variables, constants and linear expression "
        "trees (add/sub/mul by constant incl. negative and zero, reversed operands, depth<=2), all_different, "
        "sum_eq/le/ge with 1-5 terms incl. repeats, circuit (n=2..5, successor domains partly outside 0..n-1), no_overlap, "
        "cumulative (1-6 tasks, zero durations/demands); ~40% DFS-native models; solver in {auto,dfs,sat}, solution_limit "
        "in {1,3,50}, hints none/consistent/conflicting/out-of-domain. Oracle: brute force over the product of domains "
        "with constraint semantics written from the definitions. Checks: every returned assignment has exactly the named "
        "variables, inside their domains, satisfying every constraint; INFEASIBLE => no solution exists; the dfs and sat "
        "back-ends agree on satisfiability. Non-trivial = >=2 constraints sharing a variable (or one global constraint) "
        "and a solution set that is neither empty nor the full product."
    ),
    "assumptions": ["constraint semantics in vf/oracles/cp_sem.py (self-tested against second definitions)", "brute-force enumeration"],
}


def make_hints(case, sols):
    h = case["hints"]
    vs = case["model"]["vars"]
    if h["kind"] == "none":
        return None
    chosen = [v for i, v in enumerate(vs) if (h["mask"] >> i) & 1] or vs[:1]
    if h["kind"] == "consistent":
        if not sols:
            return None
        s = sols[h["pick"] % len(sols)]
        return {v[0]: s[v[0]] for v in chosen}
    if h["kind"] == "conflicting":
        return {v[0]: v[1] + h["offsets"][i] % (v[2] - v[1] + 1) for i, v in enumerate(vs) if v in chosen}
    return {v[0]: v[2] + 1 + h["offsets"][i] for i, v in enumerate(vs) if v in chosen}


def check_assignment(desc, a, where):
    names = [v[0] for v in desc["vars"]]
    if not isinstance(a, dict):
        raise Violation("assignment:not-a-dict", {"where": where})
    if sorted(a.keys()) != sorted(names):
        raise Violation("assignment:wrong-variable-set", {"where": where, "keys": sorted(map(str, a.keys())), "want": sorted(names)})
    for n, lb, ub in desc["vars"]:
        if not isinstance(a[n], int) or not (lb <= a[n] <= ub):
            raise Violation("assignment:outside-domain", {"where": where, "var": n, "value": a[n], "domain": [lb, ub]})
    for c in desc["cons"]:
        if not cp_sem.holds(c, a):
            raise Violation(f"assignment:violates-{c[0]}", {"where": where, "constraint": c, "assignment": a})


def solve_once(desc, solver, solution_limit, hints, ctx, again=None):
    try:
        m, _ = cp_sem.build(desc)
    except cp_sem.Unbuildable:
        raise Discard()
    kw = {}
    if hints is not None:
        kw["hints"] = hints
    res = ctx.call(m.solve, solver=solver, solution_limit=solution_limit, **kw)
    if again:
        # the same Model object solved a second time (encoding leaves auxiliary variables behind): same verdict
        res2 = ctx.call(m.solve, solver=again, solution_limit=1)
        return res, res2
    return res


def run(case, ctx):
    desc = case["model"]
    if cp_sem.domain_product(desc) > 5000:
        raise Discard()
    sols = cp_sem.solution_set(desc)
    hints = make_hints(case, sols)
    res, res_again = solve_once(desc, case["solver"], case["solution_limit"], hints, ctx, again=("sat", "dfs", "auto")[case["hints"]["pick"] % 3])
    status = res.status.name
    kinds = {c[0] for c in desc["cons"]}
    shared = any(cp_sem.con_vars(c1) & cp_sem.con_vars(c2) for i, c1 in enumerate(desc["cons"]) for c2 in desc["cons"][i + 1 :])
    full = cp_sem.domain_product(desc)
    ctx.label(
        "flavour-" + desc["flavour"],
        "solver-" + case["solver"],
        "status-" + status,
        "hints-" + case["hints"]["kind"],
        case["solution_limit"] > 1 and "multi-solution",
        "sat" if sols else "unsat",
        *("has-" + k for k in kinds),
        any(v[1] != 0 for v in desc["vars"]) and "domain-not-from-0",
    )
    ctx.size("vars", len(desc["vars"]))
    ctx.size("domain-product", full)
    ctx.nontrivial((shared or kinds & {"circuit", "no_overlap", "cumulative", "all_different"}) and 0 < len(sols) < full)

    if status in ("OPTIMAL", "FEASIBLE"):
        if res.solution is None:
            raise Violation("verdict:usable-status-without-solution", {"status": status})
        check_assignment(desc, res.solution, "solution")
        for i, s in enumerate(getattr(res, "solutions", None) or ()):
            check_assignment(desc, s, f"solutions[{i}]")
    elif status == "INFEASIBLE":
        if sols:
            raise Violation("verdict:INFEASIBLE-but-satisfiable", {"n_solutions": len(sols), "example": sols[0], "hints": hints})
    elif status == "MAX_ITER":
        raise Inconclusive("MAX_ITER")
    else:
        raise Violation("verdict:unexpected-status", {"status": status})

    # second solve of the same model object
    st2 = res_again.status.name
    if st2 == "INFEASIBLE" and sols:
        raise Violation("resolve:INFEASIBLE-on-second-solve-of-same-model", {"first": status, "n_solutions": len(sols)})
    if st2 in ("OPTIMAL", "FEASIBLE"):
        if res_again.solution is None:
            raise Violation("verdict:usable-status-without-solution", {"status": st2, "where": "second solve"})
        check_assignment(desc, res_again.solution, "second-solve")

    # back-ends agree on satisfiability (fresh models: encoding mutates the model)
    verdicts = {}
    for solver in ("dfs", "sat"):
        r = solve_once(desc, solver, 1, None, ctx)
        if r.status.name == "MAX_ITER":
            return
        verdicts[solver] = r.status.name != "INFEASIBLE"
        if r.solution is not None:
            check_assignment(desc, r.solution, f"{solver}-backend")
    if verdicts["dfs"] != verdicts["sat"]:
        raise Violation("backends:disagree-on-satisfiability", {"dfs": verdicts["dfs"], "sat": verdicts["sat"], "truth": bool(sols)})
    if verdicts["dfs"] != bool(sols):
        raise Violation("backends:both-wrong-on-satisfiability", {"claimed": verdicts["dfs"], "truth": bool(sols)})


SUBS = [Sub("model_solve", run, strategy=lambda tier: cpmodel.solve_case(), quick=3000, thorough=8000, workers_quick=8)]
