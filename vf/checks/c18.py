"""C18 — job-shop schedules and VRPTW states are structurally valid and honestly scored.

Three sub-checks:

job_shop       solve_job_shop on small generated instances; the schedule is validated from the
               definition of a job-shop schedule and the call is repeated with the same seed.
vrptw_solve    solve_vrptw end to end; the returned VRPState is validated (partition of the customers
               between routes and `unassigned`, arrival times) and Result.objective is compared with a
               weighted sum recomputed from coordinates and routes only.
vrp_operators  a Hypothesis rule-based state machine over the eight exported destroy/repair operators,
               the state invariant is evaluated after every step; the history is the replayable case.

The oracles read only plain attributes of the returned objects (`routes`, `unassigned`,
`arrival_times`, `solution`, `objective`); no solvOR function or VRPState method is used by them.
"""
from __future__ import annotations

import math
import random

from hypothesis import strategies as st
from hypothesis.stateful import initialize, precondition, rule

from ..harness import Sub, Violation, make_hist_machine

PROPERTY = "C18"
META = {
    "level": "exploration",
    "rule": (
        "job_shop: <=5 jobs x <=4 operations (thorough <=6 x <=5), machines drawn from a pool of 1-4 indices out of 0..6 "
        "(sparse, repeated inside a job), integer durations 0..9 with many zeros, rules spt/lpt/mwkr/fifo/random (also "
        "upper/mixed case, which the function lower-cases), integer seeds, local_search on/off, max_iter in {1,10,200}; "
        "non-trivial = two jobs share >=2 distinct machines. job_shop_history: 2-4 solve_job_shop calls on the SAME outer list "
        "object, edited in place between calls (replace a machine, swap/move durations, swap/reverse ops - all keep op "
        "counts and job totals -, set duration, append/pop op, replace/append/pop job), same or new rule/seed/local_search/"
        "max_iter, every result validated against the contents at the time of the call; non-trivial = an effective edit that "
        "keeps every job's op count and total duration precedes a call. vrptw_solve: <=7 customers (thorough <=9) with ids 1..n in list "
        "order, integer coordinates 0..8 in three geometries (spread / clustered on the depot and on earlier customers / "
        "'yard' = almost everybody at the depot's own address, giving zero-length routes and exact-zero arrivals), depot "
        "anywhere in 0..8, demands 0..5, time windows open/wide/tight/closing-before-reachable, service "
        "times 0..3, required_vehicles in {1,2,3}, fleets of 1-4 vehicles given as int+vehicle_capacity or as a Vehicle list "
        "(capacity inf or 1..8), Customer objects or tuples, in ~50% of cases a generated non-default subset of the objective "
        "keywords distance_weight/vehicle_weight/tw_penalty/capacity_penalty/sync_penalty (vehicle_weight>0 in most sets), seeds, "
        "max_iter in {5,50,100,300}, on_progress none / observer / stop-at-k with progress_interval 1..25; capacities also "
        "'tight' (fleet cannot carry everybody); non-trivial = >=1 multi-vehicle customer, n>=3, fleet>=2. vrptw_boundary: "
        "instances on which ALNS keeps improving late (5-7 customers, finite windows, several needing 2-3 of 2-3 vehicles), "
        "3-6 consecutive seeds each with max_iter in {100,101,200,300} (ALNS segment ends) under an observing callback, plus "
        "one early-stopped run per seed; default or penalty-dominated weights (2^20); non-trivial = multi-vehicle customer. "
        "vrp_operators: "
        "RuleBasedStateMachine from VRPState.from_problem over random/worst/related/route/sync removal and "
        "greedy/regret/sync-aware insertion with generated degrees, n_routes, k and one random.Random(seed) per step, plus a "
        "query rule calling vrp_objective(state, **generated keywords incl. unassigned_penalty) against the recomputed sum and "
        "a generator rule that emits one ALNS-like round (non-sync removal, greedy/regret repair, sync-aware repair) as three "
        "ordinary steps, "
        "<=30 steps, invariant after every step; non-trivial = the history contains an effective removal after an "
        "effective insertion and the instance has >=1 multi-vehicle customer. Distinct = canonical JSON of the case/history."
    ),
    "assumptions": [
        "math.hypot on integer coordinates is the travel time (as VRPState.from_problem documents); arrival recomputation: "
        "leave depot at 0, wait until tw_start, record arrival, add service time, travel to the next stop",
        "objective formula read from vrp_objective/VRPState docstrings and defaults: distance_weight*distance + "
        "vehicle_weight*used routes + tw_penalty*sum(max(0,arrival-tw_end)) + capacity_penalty*sum(max(0,load-capacity)) + "
        "sync_penalty*sync + 100000*|unassigned|, sync = 1000 per missing vehicle of a multi-vehicle customer, else "
        "spread (max-min) of its arrival times",
        "zero-duration operations occupy the empty half-open interval [t,t) and therefore overlap nothing (the reading "
        "most favourable to the code; cases where such a point lies strictly inside another operation are only labelled)",
        "float tolerances: arrivals 1e-9*(1+|t|), objective 1e-6+1e-12*|objective| (sums of <=60 doubles; both "
        "quantities are continuous in the arrival times, so ulp differences cannot flip a discrete term)",
    ],
}

INF = float("inf")


# ============================================================================= job shop
RULES = ["spt", "lpt", "mwkr", "fifo", "random"]
RULE_SPELLINGS = RULES * 3 + ["SPT", "Lpt", "MWKR", "FIFO", "Random"]


@st.composite
def jobshops(draw, tier="quick"):
    jmax, omax = (6, 5) if tier == "thorough" else (5, 4)
    k = draw(st.sampled_from([1, 2, 2, 3, 3, 4]))
    pool = draw(st.lists(st.integers(0, 6), min_size=k, max_size=k, unique=True))
    dur = st.one_of(st.just(0), st.integers(0, 9), st.integers(1, 4))
    nj = draw(st.sampled_from([1, 2, 2, 3, 3, 4, 4, 5, 5] + list(range(6, jmax + 1))))
    jobs = []
    for _ in range(nj):
        no = draw(st.sampled_from([1, 2, 2, 3, 3] + list(range(4, omax + 1)) * 2))
        jobs.append([[draw(st.sampled_from(pool)), draw(dur)] for _ in range(no)])
    return {
        "jobs": jobs,
        "rule": draw(st.sampled_from(RULE_SPELLINGS)),
        "seed": draw(st.integers(0, 2**31 - 1)),
        "local_search": draw(st.sampled_from([True, True, False])),
        "max_iter": draw(st.sampled_from([200, 10, 1])),
        "container": draw(st.integers(0, 1)),
    }


def _build_jobs(desc):
    if desc["container"] == 0:
        return [[(m, d) for m, d in job] for job in desc["jobs"]]
    return tuple(tuple((m, d) for m, d in job) for job in desc["jobs"])


def check_schedule(jobs, res, suffix=""):
    """Validity of a job-shop schedule written from the definition. Returns a small info dict.
    `suffix` is appended to the bucket (used by the history sub-check: "@after-edit")."""
    if suffix:
        try:
            return check_schedule(jobs, res)
        except Violation as v:
            raise Violation(v.bucket + suffix, v.detail) from None
    sched = res.solution
    if not isinstance(sched, dict):
        raise Violation("jobshop:solution-not-a-dict", repr(sched)[:200])
    want = {(j, k) for j, job in enumerate(jobs) for k in range(len(job))}
    keys = set()
    for key in sched:
        try:
            keys.add((key[0], key[1]))
        except Exception:
            raise Violation("jobshop:unknown-operation", repr(key))
    if want - keys:
        raise Violation("jobshop:operation-missing", {"missing": sorted(want - keys)})
    if keys - want:
        raise Violation("jobshop:unknown-operation", {"extra": sorted(keys - want)})
    iv = {}
    for j, k in sorted(want):
        s, e = sched[(j, k)]
        d = jobs[j][k][1]
        if e - s != d:
            raise Violation("jobshop:duration", {"op": [j, k], "start": s, "end": e, "duration": d})
        if s < 0:
            raise Violation("jobshop:negative-start", {"op": [j, k], "start": s})
        iv[(j, k)] = (s, e)
    for j, job in enumerate(jobs):
        for k in range(1, len(job)):
            if iv[(j, k)][0] < iv[(j, k - 1)][1]:
                raise Violation("jobshop:job-order", {"job": j, "op": k, "start": iv[(j, k)][0], "prev_end": iv[(j, k - 1)][1]})
    by_machine = {}
    for (j, k), se in iv.items():
        by_machine.setdefault(jobs[j][k][0], []).append((se, (j, k)))
    zero_inside = False
    for m, ops in by_machine.items():
        for a in range(len(ops)):
            (s1, e1), o1 = ops[a]
            for b in range(a + 1, len(ops)):
                (s2, e2), o2 = ops[b]
                # half-open [s,e): the intersection is non-empty iff max(s) < min(e); an empty interval meets nothing
                if max(s1, s2) < min(e1, e2):
                    raise Violation("jobshop:machine-overlap", {"machine": m, "a": [list(o1), s1, e1], "b": [list(o2), s2, e2]})
                if (s1 == e1 and s2 < s1 < e2) or (s2 == e2 and s1 < s2 < e1):
                    zero_inside = True
    latest = max(e for _, e in iv.values())
    if res.objective != latest:
        raise Violation("jobshop:objective", {"objective": res.objective, "max_end": latest})
    return {"zero_inside": zero_inside, "makespan": latest}


def run_job_shop(desc, ctx):
    from solvor.job_shop import solve_job_shop

    jobs = desc["jobs"]
    kw = dict(rule=desc["rule"], local_search=desc["local_search"], max_iter=desc["max_iter"], seed=desc["seed"])
    mach = [set(m for m, _ in job) for job in jobs]
    share2 = any(len(mach[a] & mach[b]) >= 2 for a in range(len(jobs)) for b in range(a + 1, len(jobs)))
    durs = [d for job in jobs for _, d in job]
    ctx.label(
        "rule-" + desc["rule"].lower(),
        desc["rule"] != desc["rule"].lower() and "rule-upper-case",
        "local-search" if desc["local_search"] else "dispatch-only",
        desc["local_search"] and f"max_iter-{desc['max_iter']}",
        0 in durs and "zero-duration",
        not any(durs) and "all-zero",
        any(len(set(m for m, _ in job)) < len(job) for job in jobs) and "repeated-machine-in-job",
        share2 and "two-jobs-share-2-machines",
        len(jobs) == 1 and "single-job",
        max(m for s in mach for m in s) + 1 > len(set().union(*mach)) and "sparse-machines",
    )
    ctx.size("jobs", len(jobs))
    ctx.size("ops", len(durs))
    ctx.nontrivial(share2)

    res = ctx.call(solve_job_shop, _build_jobs(desc), **kw)
    info = check_schedule(jobs, res)
    ctx.label(info["zero_inside"] and "zero-op-inside-other(label-only)")
    ctx.size("makespan", info["makespan"])

    res2 = ctx.call(solve_job_shop, _build_jobs(desc), **kw)
    if res2.solution != res.solution or res2.objective != res.objective:
        diff = sorted(k for k in res.solution if res2.solution.get(k) != res.solution[k])[:4]
        raise Violation("jobshop:same-seed-different-schedule", {"ops": [list(k) for k in diff], "obj": [res.objective, res2.objective]})

    if desc["local_search"]:  # label only: did the swap path change anything?
        kw0 = dict(kw, local_search=False)
        res0 = ctx.call(solve_job_shop, _build_jobs(desc), **kw0)
        check_schedule(jobs, res0)
        ctx.label(res0.solution != res.solution and "local-search-changed-schedule", res.objective < res0.objective and "local-search-improved")


# ============================================================================= job shop histories
EDIT_KINDS = [
    "machine",  # replace one operation's machine (keeps op count and total duration)
    "swap_durations",  # exchange the durations of two operations of one job (keeps both)
    "swap_ops",  # exchange two operations of one job (keeps both)
    "reverse_job",  # reverse the operation order of one job (keeps both)
    "move_duration",  # move part of one operation's duration to another operation of the job (keeps both)
    "set_duration",  # changes the job's total
    "append_op",  # changes the op count
    "pop_op",
    "replace_job",  # assign a fresh job into the same outer list
    "append_job",
    "pop_job",
]
KEEPING = {"machine", "swap_durations", "swap_ops", "reverse_job", "move_duration"}


@st.composite
def jobshop_histories(draw, tier="quick"):
    base = draw(jobshops(tier))
    big = st.integers(0, 10**6)
    machine = st.integers(0, 6)
    dur = st.one_of(st.just(0), st.integers(0, 9))
    n_calls = draw(st.sampled_from([2, 3, 2, 4]))
    calls = []
    for c in range(n_calls):
        edits = []
        if c > 0:
            for _ in range(draw(st.sampled_from([1, 1, 2, 0, 3]))):
                kind = draw(st.sampled_from(EDIT_KINDS[:5] * 3 + EDIT_KINDS[5:]))
                e = {"kind": kind, "j": draw(big), "k": draw(big), "k2": draw(big)}
                if kind in ("machine", "append_op"):
                    e["m"] = draw(machine)
                if kind in ("set_duration", "append_op"):
                    e["d"] = draw(dur)
                if kind == "move_duration":
                    e["amount"] = draw(st.integers(1, 9))
                if kind in ("replace_job", "append_job"):
                    e["job"] = [[draw(machine), draw(dur)] for _ in range(draw(st.integers(1, 4)))]
                edits.append(e)
        same = c > 0 and draw(st.sampled_from([True, False, True]))
        calls.append(
            {
                "edits": edits,
                "same_params": same,  # reuse the previous call's rule/seed/local_search/max_iter
                "rule": draw(st.sampled_from(RULE_SPELLINGS)),
                "seed": draw(st.integers(0, 2**31 - 1)),
                "local_search": draw(st.sampled_from([True, False, True])),
                "max_iter": draw(st.sampled_from([10, 1, 50, 10, 200])),
            }
        )
    return {"jobs": base["jobs"], "inner": draw(st.sampled_from(["list", "tuple", "list"])), "calls": calls}


def _apply_edit(live, model, e, inner):
    """Apply one edit in place to the live object handed to solvOR and to the plain-list model. Returns the effective
    kind ("noop" when the edit cannot change anything here)."""
    kind = e["kind"]
    j = e["j"] % len(model)
    job = model[j]
    k, k2 = e["k"] % len(job), e["k2"] % len(job)
    new = [list(op) for op in job]
    if kind == "machine":
        new[k][0] = e["m"]
    elif kind == "swap_durations":
        new[k][1], new[k2][1] = new[k2][1], new[k][1]
    elif kind == "swap_ops":
        new[k], new[k2] = new[k2], new[k]
    elif kind == "reverse_job":
        new.reverse()
    elif kind == "move_duration":
        amount = min(e["amount"], new[k][1])
        if k != k2:
            new[k][1] -= amount
            new[k2][1] += amount
    elif kind == "set_duration":
        new[k][1] = e["d"]
    elif kind == "append_op":
        new.append([e["m"], e["d"]])
    elif kind == "pop_op":
        if len(new) > 1:
            new.pop()
    elif kind == "replace_job":
        new = [list(op) for op in e["job"]]
    elif kind == "append_job":
        model.append([list(op) for op in e["job"]])
        live.append([tuple(op) for op in e["job"]] if inner == "list" else tuple(tuple(op) for op in e["job"]))
        return kind
    elif kind == "pop_job":
        if len(model) > 1:
            model.pop()
            live.pop()
            return kind
        return "noop"
    else:
        raise AssertionError(kind)
    if new == [list(op) for op in job]:
        return "noop"
    model[j] = new
    if inner == "list" and kind not in ("replace_job",) and len(new) == len(live[j]):
        for i, op in enumerate(new):  # element-wise, the job's own list object stays the same
            if tuple(op) != tuple(live[j][i]):
                live[j][i] = tuple(op)
    elif inner == "list":
        if kind == "replace_job":
            live[j] = [tuple(op) for op in new]
        else:
            live[j][:] = [tuple(op) for op in new]
    else:
        live[j] = tuple(tuple(op) for op in new)  # immutable jobs: the outer list object is still the same
    return kind


def run_job_shop_history(desc, ctx):
    from solvor.job_shop import solve_job_shop

    inner = desc["inner"]
    model = [[list(op) for op in job] for job in desc["jobs"]]
    live = [[tuple(op) for op in job] if inner == "list" else tuple(tuple(op) for op in job) for job in desc["jobs"]]
    ctx.label("jobs-as-" + inner + "s", f"calls-{len(desc['calls'])}")
    prev_kw = prev_res = None
    edited = False
    for idx, call in enumerate(desc["calls"]):
        shape_before = [(len(job), sum(d for _, d in job)) for job in model]
        before = [[list(op) for op in job] for job in model]
        for e in call["edits"]:
            kind = _apply_edit(live, model, e, inner)
            ctx.label("edit-" + kind)
            ctx.count("edit-" + kind)
        changed = model != before
        keeps = changed and [(len(job), sum(d for _, d in job)) for job in model] == shape_before
        if changed:
            edited = True
            ctx.label("edit-keeps-op-counts-and-job-totals" if keeps else "edit-changes-counts-or-totals")
            ctx.nontrivial(keeps)
        kw = dict(rule=call["rule"], local_search=call["local_search"], max_iter=call["max_iter"], seed=call["seed"])
        if call["same_params"] and prev_kw is not None:
            kw = prev_kw
            ctx.label("repeat-with-same-parameters")
        # what the live object holds must be what the model says (a bug here is a harness error, not a finding)
        assert [[list(op) for op in job] for job in live] == model
        res = ctx.call(solve_job_shop, live, **kw)
        check_schedule(model, res, "@after-edit" if edited else ("@repeat-call" if idx else ""))
        if kw is prev_kw and not changed and (res.solution != prev_res.solution or res.objective != prev_res.objective):
            raise Violation("jobshop:same-seed-different-schedule@repeat-call", {"call": idx, "obj": [prev_res.objective, res.objective]})
        if [[list(op) for op in job] for job in live] != model:
            ctx.label("solve-modified-its-input(label-only)")
        prev_kw, prev_res = kw, res
    ctx.size("jobs", len(model))


# ============================================================================= VRP: generated problems
@st.composite
def problems(draw, tier="quick"):
    nmax = 9 if tier == "thorough" else 7
    n = draw(st.sampled_from([1, 2, 3, 3, 4, 4, 5, 5, 6, 6, 7, 7] + list(range(8, nmax + 1)) * 2))
    coord = st.integers(0, 8)
    depot = [draw(coord), draw(coord)]
    # geometry: "spread" = independent points; "clustered" = every customer sits on the depot / on an earlier customer /
    # on a fresh point with equal weight; "yard" = (almost) everybody at the depot's own address, which yields
    # zero-length routes, exact-zero arrival times and insertion-cost ties
    geometry = draw(st.sampled_from(["spread", "clustered", "yard", "spread", "clustered"]))
    k = draw(st.sampled_from([3, 2, 4, 1, 2, 3]))
    multi_rate = draw(st.sampled_from([2, 1, 0, 2, 3]))  # how many of 6 draws are multi-vehicle
    req_choices = ([3, 2, 3] if k >= 3 else [2, 2, 3])[:multi_rate] + [1] * (6 - multi_rate)
    custs = []
    for _ in range(n):
        kind = draw(st.sampled_from(["open", "open", "wide", "tight", "closing"]))
        if kind == "open":
            tw = [0, None]
        elif kind == "wide":
            s = draw(st.integers(0, 10))
            tw = [s, s + draw(st.integers(8, 30))]
        elif kind == "tight":
            s = draw(st.integers(0, 16))
            tw = [s, s + draw(st.integers(0, 2))]
        else:  # closes early: unreachable in time whenever the customer is farther than tw_end from the depot
            tw = [0, draw(st.integers(0, 3))]
        where = "fresh"
        if geometry == "clustered":
            where = draw(st.sampled_from(["depot", "earlier", "fresh"]))
        elif geometry == "yard":
            where = draw(st.sampled_from(["depot", "depot", "depot", "fresh"]))
        if where == "depot":
            x, y = depot
        elif where == "earlier" and custs:
            prev = custs[draw(st.integers(0, len(custs) - 1))]
            x, y = prev["x"], prev["y"]
        else:
            x, y = draw(coord), draw(coord)
        custs.append(
            {
                "x": x,
                "y": y,
                "demand": draw(st.integers(0, 5)),
                "tw": tw,
                "service": draw(st.sampled_from([0, 0, 1, 2, 3])),
                "req": draw(st.sampled_from(req_choices)),
            }
        )
    capkind = draw(st.sampled_from(["tight", "inf", "small", "tight", "mixed", "inf", "tight"]))
    if capkind == "inf":
        caps = [None] * k
    elif capkind == "tight":  # the fleet cannot carry everybody: insertion order decides who stays behind
        total = sum(c["demand"] * c["req"] for c in custs)
        caps = [max(1, total // (k + draw(st.integers(0, 1))))] * k
    elif capkind == "small":
        caps = [draw(st.integers(1, 8))] * k
    else:
        caps = [draw(st.one_of(st.none(), st.integers(1, 8))) for _ in range(k)]
    return {"depot": depot, "customers": custs, "caps": caps}


class Model:
    """Independent arithmetic on the *description* of a problem."""

    def __init__(self, p):
        self.n = len(p["customers"])
        self.pts = [tuple(p["depot"])] + [(c["x"], c["y"]) for c in p["customers"]]
        self.tw_start = [0] + [c["tw"][0] for c in p["customers"]]
        self.tw_end = [INF] + [INF if c["tw"][1] is None else c["tw"][1] for c in p["customers"]]
        self.service = [0] + [c["service"] for c in p["customers"]]
        self.demand = [0] + [c["demand"] for c in p["customers"]]
        self.req = [1] + [c["req"] for c in p["customers"]]
        self.caps = [INF if c is None else c for c in p["caps"]]
        self.ids = set(range(1, self.n + 1))
        self.multi = {c for c in self.ids if self.req[c] > 1}

    def d(self, i, j):
        (x1, y1), (x2, y2) = self.pts[i], self.pts[j]
        return math.hypot(x1 - x2, y1 - y2)

    def arrivals(self, route):
        out, t, prev = [], 0.0, 0
        for cid in route:
            t += self.d(prev, cid)
            if t < self.tw_start[cid]:
                t = self.tw_start[cid]
            out.append(t)
            t += self.service[cid]
            prev = cid
        return out

    def objective(self, routes, unassigned, w):
        dist = 0.0
        used = 0
        tw = 0.0
        cap = 0.0
        arr = [self.arrivals(r) for r in routes]
        for v, r in enumerate(routes):
            if not r:
                continue
            used += 1
            stops = [0] + list(r) + [0]
            dist += sum(self.d(a, b) for a, b in zip(stops, stops[1:]))
            for cid, t in zip(r, arr[v]):
                if t > self.tw_end[cid]:
                    tw += t - self.tw_end[cid]
            load = sum(self.demand[c] for c in r)
            if load > self.caps[v]:
                cap += load - self.caps[v]
        sync = 0.0
        for cid in sorted(self.multi):
            times = [arr[v][list(r).index(cid)] for v, r in enumerate(routes) if cid in r]
            if len(times) < self.req[cid]:
                sync += (self.req[cid] - len(times)) * 1000.0
            elif len(times) > 1:
                sync += max(times) - min(times)
        total = (
            w["distance_weight"] * dist
            + w["vehicle_weight"] * used
            + w["tw_penalty"] * tw
            + w["capacity_penalty"] * cap
            + w["sync_penalty"] * sync
            + w.get("unassigned_penalty", 100000.0) * len(unassigned)
        )
        zero_len = sum(1 for r in routes if r and all(self.pts[c] == self.pts[0] for c in r))
        return total, {"zero_length_routes": zero_len, "distance": dist, "used": used, "tw": tw, "cap": cap, "sync": sync, "unassigned": len(unassigned)}


DEFAULT_W = {"distance_weight": 1.0, "vehicle_weight": 0.0, "tw_penalty": 1000.0, "capacity_penalty": 1000.0, "sync_penalty": 10000.0}


def _customers(p):
    from solvor.vrp import Customer

    return [
        Customer(i + 1, c["x"], c["y"], c["demand"], c["tw"][0], INF if c["tw"][1] is None else c["tw"][1], c["service"], c["req"])
        for i, c in enumerate(p["customers"])
    ]


def check_state(M: Model, state, where: str):
    """The C18 state invariant. Raises Violation('vrp:<clause>@<where>'); returns facts for labels."""

    def bad(clause, detail):
        detail = dict(detail)
        try:
            detail["routes"] = [list(r) for r in state.routes]
            detail["unassigned"] = sorted(state.unassigned)
        except Exception:
            pass
        raise Violation(f"vrp:{clause}@{where}", detail)

    routes, un, arr = state.routes, state.unassigned, state.arrival_times
    nveh = len(M.caps)
    if len(routes) != nveh or len(arr) != nveh:
        bad("route-count", {"routes": len(routes), "arrival_times": len(arr), "vehicles": nveh})
    routed = set()
    on = {}
    for v, r in enumerate(routes):
        for c in r:
            if c not in M.ids:
                bad("unknown-id-on-route", {"vehicle": v, "id": c})
            on.setdefault(c, []).append(v)
        if len(set(r)) != len(r):
            bad("repeat-within-route", {"vehicle": v, "route": list(r)})
        routed |= set(r)
    un = set(un)
    if un - M.ids:
        bad("unknown-id-unassigned", {"ids": sorted(un - M.ids)})
    if M.ids - routed - un:
        bad("customer-lost", {"lost": sorted(M.ids - routed - un)})
    if routed & un:
        bad("routed-and-unassigned", {"both": sorted(routed & un)})
    for c in sorted(routed):
        if M.req[c] == 1 and len(on[c]) != 1:
            bad("single-vehicle-on-several-routes", {"id": c, "vehicles": on[c]})
    for v, r in enumerate(routes):
        want = M.arrivals(r)
        got = list(arr[v])
        if len(got) != len(want):
            bad("arrival-times", {"vehicle": v, "got": got, "want": want, "why": "length"})
        for g, w in zip(got, want):
            # travel legs are hypot() of integers, <=10 legs per route: rounding differences stay below 1e-12
            if not abs(g - w) <= 1e-9 * (1 + abs(w)):
                bad("arrival-times", {"vehicle": v, "got": got, "want": want})
    return {
        "routed": routed,
        "multi_on_2": any(len(on.get(c, ())) >= 2 for c in M.multi),
        "multi_over": any(len(on.get(c, ())) > M.req[c] for c in M.multi),
        "longest": max((len(r) for r in routes), default=0),
    }


def _problem_labels(M: Model, ctx):
    impossible = [c for c in M.ids if M.tw_end[c] < M.d(0, c)]
    ctx.label(
        "multi-vehicle-customer" if M.multi else "single-only",
        impossible and "window-closes-before-reachable",
        any(M.tw_end[c] < INF and M.tw_end[c] - M.tw_start[c] <= 2 for c in M.ids) and "tight-window",
        any(c != INF for c in M.caps) and "finite-capacity",
        len(set(M.caps)) > 1 and "mixed-capacity",
        any(M.req[c] > len(M.caps) for c in M.ids) and "needs-more-vehicles-than-fleet",
        len(set(M.pts)) < len(M.pts) and "coincident-points",
        any(M.pts[c] == M.pts[0] for c in M.ids) and "customer-at-depot",
        len(set(M.pts[1:])) < M.n and "customers-share-a-position",
        M.pts[0] != (0, 0) and "depot-not-at-origin",
        any(M.pts[c] == M.pts[0] and M.tw_start[c] == 0 and M.req[c] > 1 for c in M.ids) and "multi-customer-at-depot-arrival-0",
        f"fleet-{len(M.caps)}",
    )
    ctx.size("customers", M.n)


# ============================================================================= vrptw_solve
@st.composite
def weight_sets(draw, with_unassigned):
    """A subset of the objective keywords with non-default dyadic values (a keyword left out keeps its default)."""
    choices = {
        "distance_weight": [2.0, 0.5, 0.0, 3.0],
        "vehicle_weight": [50.0, 1.0, 10.0, 100.0, 0.5, 16384.0],
        "tw_penalty": [1.0, 0.0, 10.0, 500.0, 1048576.0],
        "capacity_penalty": [1.0, 0.0, 10.0, 500.0],
        "sync_penalty": [1.0, 1048576.0, 0.0, 1048576.0, 10.0, 500.0],  # 2^20: scores of 1e9..1e10, where a relative 1e-9 is ~1
    }
    if with_unassigned:
        choices["unassigned_penalty"] = [1.0, 0.0, 1000.0, 250.0]
    keys = sorted(choices)
    chosen = draw(st.lists(st.sampled_from(keys), min_size=1, max_size=len(keys), unique=True))
    if draw(st.integers(0, 3)) and "vehicle_weight" not in chosen:
        chosen.append("vehicle_weight")  # the fixed cost per vehicle is off by default: switch it on in most sets
    return {k: draw(st.sampled_from(choices[k])) for k in sorted(chosen)}


@st.composite
def solve_cases(draw, tier="quick"):
    p = draw(problems(tier))
    uniform = len(set(p["caps"])) == 1
    weights = None
    if draw(st.sampled_from([True, False, True, False, True])):
        weights = draw(weight_sets(False))
    return {
        "problem": p,
        "fleet_form": draw(st.sampled_from(["int", "list"])) if uniform else "list",
        "as_tuples": draw(st.booleans()),
        "weights": weights,
        "seed": draw(st.integers(0, 2**31 - 1)),
        "max_iter": draw(st.sampled_from([5, 50, 300, 100])),
        "progress": draw(progress_specs()),
    }


@st.composite
def progress_specs(draw):
    """None = no callback; stop_at None = observer that never asks to stop; else the callback returns True from there on."""
    kind = draw(st.sampled_from(["stop", "none", "observe", "stop", "none"]))
    if kind == "none":
        return None
    interval = draw(st.sampled_from([1, 1, 2, 3, 5, 10, 25] + list(range(4, 25, 3))))
    if kind == "observe":
        return {"interval": interval, "stop_at": None}
    return {"interval": interval, "stop_at": interval * draw(st.sampled_from([1, 2, 3, 1, 4, 6, 10]))}


def solve_and_check(ctx, M, customers, vehicles, depot, kw, w, progress, where="solve_vrptw"):
    """One solve_vrptw call: state invariant, then Result.objective against the recomputed weighted sum."""
    from solvor.vrp import solve_vrptw

    trace = []
    kw = dict(kw)
    if progress is not None:
        stop_at = progress["stop_at"]

        def on_progress(pr):
            trace.append((pr.iteration, pr.objective if pr.best is None else pr.best))
            return True if stop_at is not None and pr.iteration >= stop_at else None

        kw["on_progress"] = on_progress
        kw["progress_interval"] = progress["interval"]
    res = ctx.call(solve_vrptw, customers, vehicles, depot, **kw)
    state = res.solution
    if not all(hasattr(state, a) for a in ("routes", "unassigned", "arrival_times")):
        raise Violation(f"vrp:solution-not-a-state@{where}", repr(state)[:200])
    info = check_state(M, state, where)
    want, parts = M.objective(state.routes, state.unassigned, w)
    got = res.objective
    # Every term is continuous in the (verified) arrival times. The recomputation differs from the code only by float
    # summation order: a few ulp of the total, i.e. <=1e-8 at 1e7 and <=1e-5 at 1e10. Hence an absolute 1e-6 plus 1e-12
    # relative (1.1e-5 at 1e7, 1e-2 at 1e10) - tight enough to see a lost improvement of 5e-3 under a 1e7 penalty.
    if not (isinstance(got, (int, float)) and abs(got - want) <= 1e-6 + 1e-12 * abs(want)):
        detail = {"objective": got, "recomputed": want, "diff": got - want, "parts": parts, "routes": [list(r) for r in state.routes], "unassigned": sorted(state.unassigned), "seed": kw.get("seed"), "iterations": res.iterations}
        raise Violation(f"vrp:objective@{where}", detail)
    return res, info, parts, trace, want


def run_vrptw_solve(desc, ctx):
    from solvor.vrp import Vehicle

    p = desc["problem"]
    M = Model(p)
    customers = _customers(p)
    if desc["as_tuples"]:
        full = [(c.id, c.x, c.y, c.demand, c.tw_start, c.tw_end, c.service_time, c.required_vehicles) for c in customers]
        customers = []
        for t in full:  # trailing fields that equal the documented defaults are left out (shorter tuples are accepted)
            t = list(t)
            for default in (1, 0, INF, 0, 0):
                if len(t) > 3 and t[-1] == default and desc["seed"] % 2:
                    t.pop()
                else:
                    break
            customers.append(tuple(t))
        ctx.label(any(len(t) < 8 for t in customers) and "short-tuples")
    kw = {"seed": desc["seed"], "max_iter": desc["max_iter"]}
    if desc["fleet_form"] == "int":
        vehicles = len(M.caps)
        if M.caps[0] != INF:
            kw["vehicle_capacity"] = M.caps[0]
    else:
        vehicles = [Vehicle(i, c) for i, c in enumerate(M.caps)]
    w = dict(DEFAULT_W)
    if desc["weights"]:
        w.update(desc["weights"])
        kw.update(desc["weights"])
    _problem_labels(M, ctx)
    ctx.label(f"max_iter-{desc['max_iter']}", "custom-weights" if desc["weights"] else "default-weights", "tuples" if desc["as_tuples"] else "Customer-objects", "fleet-as-" + desc["fleet_form"])
    ctx.nontrivial(bool(M.multi) and M.n >= 3 and len(M.caps) >= 2)

    progress = desc.get("progress")
    ctx.label("no-callback" if progress is None else ("observer-callback" if progress["stop_at"] is None else "stop-callback"))
    res, info, parts, trace, want = solve_and_check(ctx, M, customers, vehicles, tuple(p["depot"]), kw, w, progress)
    stopped = bool(progress and progress["stop_at"] is not None and trace and trace[-1][0] >= progress["stop_at"])
    ctx.label(
        stopped and "stopped-by-callback",
        stopped and progress["interval"] == 1 and len(trace) >= 2 and trace[-1][1] < trace[-2][1] and "stop-iteration-was-a-new-best",
        want >= 1e6 and "penalty-dominated(>=1e6)",
        want >= 1e9 and "penalty-dominated(>=1e9)",
        parts["unassigned"] and "result-has-unassigned",
        parts["tw"] > 0 and "result-tw-violation",
        parts["sync"] > 0 and "result-sync-violation",
        parts["cap"] > 0 and "result-capacity-violation",
        parts["zero_length_routes"] and "result-zero-length-route",
        parts["zero_length_routes"] and w["vehicle_weight"] > 0 and "result-zero-length-route&vehicle_weight>0",
        w["vehicle_weight"] > 0 and "vehicle_weight>0",
        info["multi_on_2"] and "result-multi-on-2+-routes",
        info["multi_over"] and "multi-on-more-routes-than-required(label-only)",
        not (parts["unassigned"] or parts["tw"] or parts["sync"] or parts["cap"]) and "result-clean",
        res.iterations < desc["max_iter"] and "stopped-before-max_iter",
    )
    ctx.size("longest_route", info["longest"])


# ============================================================================= vrptw_boundary (ALNS segment ends)
@st.composite
def boundary_cases(draw, tier="quick"):
    """Instances on which ALNS keeps finding new incumbents for hundreds of iterations (measured: ~1 % of the iterations
    around 100 bring a new best): 5-7 customers, most with a finite reachable window, several needing 2 vehicles of a
    fleet of 2-3, unlimited capacity.  Each case is solved for several consecutive seeds with max_iter on or next to a
    multiple of alns' segment_size=100, so that "new best exactly on a segment end" is reached on purpose."""
    n = draw(st.sampled_from([6, 5, 7, 6, 7]))
    k = draw(st.sampled_from([2, 3, 2]))
    coord = st.integers(0, 8)
    depot = [draw(coord), draw(coord)]
    custs = []
    for _ in range(n):
        s = draw(st.integers(0, 24))
        width = draw(st.sampled_from([2, 0, 1, 4, 6, 10, None]))
        custs.append(
            {
                "x": draw(coord),
                "y": draw(coord),
                "demand": draw(st.integers(0, 3)),
                "tw": [s, None if width is None else s + width],
                "service": draw(st.sampled_from([0, 1, 2])),
                "req": draw(st.sampled_from([2, 1, 2, 1, 3])),  # 3 in a fleet of 2: a constant 1000*sync_penalty in every score
            }
        )
    stop_interval = draw(st.sampled_from([1, 1, 2, 3, 5]))
    return {
        "problem": {"depot": depot, "customers": custs, "caps": [None] * k},
        "max_iter": draw(st.sampled_from([100, 100, 100, 200, 101, 300])),
        "seed": draw(st.integers(0, 2**31 - 1)),
        "n_seeds": draw(st.integers(3, 6)),
        # second, short run per seed that a callback stops early, while new incumbents are still frequent
        "stop": {"interval": stop_interval, "stop_at": stop_interval * draw(st.integers(1, 8))},
        "weights": draw(
            st.sampled_from(
                [None, None, {"vehicle_weight": 50.0}, {"sync_penalty": 1048576.0}, {"sync_penalty": 500.0, "tw_penalty": 10.0}, {"tw_penalty": 1048576.0}, None]
            )
        ),
    }


def run_vrptw_boundary(desc, ctx):
    from solvor.vrp import Vehicle

    p = desc["problem"]
    M = Model(p)
    customers = _customers(p)
    vehicles = [Vehicle(i, c) for i, c in enumerate(M.caps)]
    w = dict(DEFAULT_W)
    w.update(desc["weights"] or {})
    ctx.label(f"max_iter-{desc['max_iter']}", "multi-vehicle-customer" if M.multi else "single-only", f"fleet-{len(M.caps)}")
    ctx.size("customers", M.n)
    ctx.nontrivial(bool(M.multi))
    boundary_hits = late = 0
    ctx.label("custom-weights" if desc["weights"] else "default-weights")
    for i in range(desc["n_seeds"]):
        kw = {"seed": desc["seed"] + i, "max_iter": desc["max_iter"], **(desc["weights"] or {})}
        if desc.get("stop"):
            _, _, _, tr, want = solve_and_check(ctx, M, customers, vehicles, tuple(p["depot"]), kw, w, desc["stop"])
            ctx.count("stopped-solves")
            if len(tr) >= 2 and tr[-1][1] < tr[-2][1]:
                ctx.count("stop-report-shows-a-new-best")
                ctx.label("stop-report-shows-a-new-best")
        res, info, parts, trace, want = solve_and_check(ctx, M, customers, vehicles, tuple(p["depot"]), kw, w, {"interval": 1, "stop_at": None}, where="solve_vrptw")
        ctx.count("solves")
        ctx.label(want >= 1e6 and "penalty-dominated(>=1e6)", want >= 1e9 and "penalty-dominated(>=1e9)")
        best = [b for _, b in trace]
        for it in range(100, len(best) + 1, 100):  # iteration `it` is best[it-1]
            if best[it - 1] < best[it - 2]:
                boundary_hits += 1
                if it == len(best):
                    ctx.count("new-best-on-the-final-segment-end")
        late += sum(1 for j in range(50, len(best)) if best[j] < best[j - 1])
    ctx.count("new-best-on-a-segment-end", boundary_hits)
    ctx.count("new-best-after-iteration-50", late)
    ctx.label(boundary_hits and "new-best-on-a-segment-end", late and "new-best-after-iteration-50")


# ============================================================================= vrp_operators (histories)
REMOVALS = ("random_removal", "worst_removal", "related_removal", "route_removal", "sync_removal")
INSERTIONS = ("greedy_insertion", "regret_insertion", "sync_aware_insertion")
DEGREES = [None, 0.0, 0.1, 0.2, 0.3, 0.125, 0.25, 0.5, 0.75, 1.0]


class VRPExec:
    """Applies one history step to a live VRPState and evaluates the invariant."""

    def __init__(self, ctx):
        self.ctx = ctx
        self.state = None
        self.M = None
        self.inserted = False
        self.routed = set()

    def apply(self, name, a):
        import solvor.vrp as V

        ctx = self.ctx
        if name == "init":
            p = a["problem"]
            self.M = M = Model(p)
            custs = [V.Customer(0, p["depot"][0], p["depot"][1])] + _customers(p)
            vehs = [V.Vehicle(i, c) for i, c in enumerate(M.caps)]
            self.state = ctx.call(V.VRPState.from_problem, custs, vehs)
            _problem_labels(M, ctx)
            info = check_state(M, self.state, "from_problem")
            self.routed = info["routed"]
            return
        M = self.M
        if name == "vrp_objective":  # query step: the exported scoring function on the current (already validated) state
            wkw = a["weights"] or {}
            got = ctx.call(V.vrp_objective, self.state, **wkw)
            want, parts = M.objective(self.state.routes, self.state.unassigned, {**DEFAULT_W, **wkw})
            vw = wkw.get("vehicle_weight", 0.0)
            ctx.count("steps:vrp_objective")
            ctx.label(
                "scored-custom-weights" if wkw else "scored-default-weights",
                parts["zero_length_routes"] and "scored-zero-length-route",
                parts["zero_length_routes"] and vw > 0 and "scored-zero-length-route&vehicle_weight>0",
                parts["tw"] > 0 and "scored-tw-violation",
                parts["sync"] > 0 and "scored-sync-violation",
                parts["unassigned"] and "scored-with-unassigned",
            )
            if not (isinstance(got, (int, float)) and abs(got - want) <= 1e-6 + 1e-12 * abs(want)):
                raise Violation("vrp:objective@vrp_objective", {"objective": got, "recomputed": want, "parts": parts, "weights": wkw, "routes": [list(r) for r in self.state.routes], "unassigned": sorted(self.state.unassigned)})
            return
        fn = getattr(V, name)
        rng = random.Random(a["seed"])
        if name in ("random_removal", "worst_removal", "related_removal"):
            new = ctx.call(fn, self.state, rng) if a["degree"] is None else ctx.call(fn, self.state, rng, a["degree"])
        elif name == "route_removal":
            new = ctx.call(fn, self.state, rng) if a["n_routes"] is None else ctx.call(fn, self.state, rng, a["n_routes"])
        elif name == "regret_insertion":
            new = ctx.call(fn, self.state, rng) if a["k"] is None else ctx.call(fn, self.state, rng, a["k"])
        elif name in ("sync_removal", "greedy_insertion", "sync_aware_insertion"):
            new = ctx.call(fn, self.state, rng)
        else:
            raise AssertionError(name)
        stale = set()
        before_routes = [list(r) for r in self.state.routes]
        if name == "sync_aware_insertion":  # label only: multi-vehicle customers that were sync-placed earlier, then removed
            stale = {c for c in M.multi if c not in self.routed and c in getattr(self.state, "sync_assignments", {})}
        self.state = new
        info = check_state(M, new, name)
        if stale - info["routed"]:
            ctx.label("sync-insertion-fails-for-a-customer-it-placed-earlier")
            ctx.count("sync-insertion-fails-for-a-customer-it-placed-earlier")
        if name == "route_removal":  # label only: which routes were emptied, and did a shared customer sit on a kept route
            emptied = [v for v, r in enumerate(before_routes) if r and not new.routes[v]]
            if len(emptied) >= 2:
                ctx.label("route_removal-empties-2+-routes")
                gone = {c for v in emptied for c in before_routes[v]}
                if any(c in gone for v, r in enumerate(before_routes) if v not in emptied for c in r):
                    ctx.label("route_removal-2+-with-customer-shared-with-a-kept-route")
                    ctx.count("route_removal-2+-with-customer-shared-with-a-kept-route")
        before, after = self.routed, info["routed"]
        self.routed = after
        ctx.count("steps:" + name)
        if name in INSERTIONS:
            if after - before:
                self.inserted = True
                ctx.count("effective-insertions")
            if not (M.ids - after):
                ctx.label("all-routed-at-some-point")
        else:
            if before - after:
                ctx.count("effective-removals")
                if self.inserted:
                    ctx.label("removal-after-insertion")
                    ctx.nontrivial(bool(M.multi))
        ctx.label(info["multi_on_2"] and "multi-on-2+-routes", info["multi_over"] and "multi-on-more-routes-than-required(label-only)", info["longest"] >= 3 and "route-with-3+-stops")
        ctx.size("longest_route", info["longest"])


def run_vrp_history(hist, ctx):
    ex = VRPExec(ctx)
    for name, args in hist:
        ex.apply(name, args)


def vrp_machine(ctx, tier):
    Base = make_hist_machine()
    seeds = st.integers(0, 2**32 - 4)
    degree = st.sampled_from(DEGREES)

    def has_routed(self):
        return self._skip or (self.ex.state is not None and bool(self.ex.routed))

    def has_unassigned(self):
        return self._skip or (self.ex.state is not None and bool(self.ex.M.ids - self.ex.routed))

    class VRPMachine(Base):
        def __init__(self):
            super().__init__()
            self.ex = VRPExec(self.vctx)

        def apply(self, name, args):
            self.ex.apply(name, args)

        @initialize(p=problems(tier))
        def init(self, p):
            self.step("init", problem=p)

        @precondition(has_routed)
        @rule(seed=seeds, degree=degree)
        def random_removal(self, seed, degree):
            self.step("random_removal", seed=seed, degree=degree)

        @precondition(has_routed)
        @rule(seed=seeds, degree=degree)
        def worst_removal(self, seed, degree):
            self.step("worst_removal", seed=seed, degree=degree)

        @precondition(has_routed)
        @rule(seed=seeds, degree=degree)
        def related_removal(self, seed, degree):
            self.step("related_removal", seed=seed, degree=degree)

        @precondition(has_routed)
        @rule(seed=seeds, n_routes=st.sampled_from([2, None, 1, 2, 3, 4]))
        def route_removal(self, seed, n_routes):
            self.step("route_removal", seed=seed, n_routes=n_routes)

        @precondition(has_routed)
        @rule(seed=seeds)
        def sync_removal(self, seed):
            self.step("sync_removal", seed=seed)

        @precondition(has_unassigned)
        @rule(seed=seeds)
        def greedy_insertion(self, seed):
            self.step("greedy_insertion", seed=seed)

        @precondition(has_unassigned)
        @rule(seed=seeds, k=st.sampled_from([None, 1, 2, 3, 4]))
        def regret_insertion(self, seed, k):
            self.step("regret_insertion", seed=seed, k=k)

        @precondition(has_unassigned)
        @rule(seed=seeds)
        def sync_aware_insertion(self, seed):
            self.step("sync_aware_insertion", seed=seed)

        # Generator device, not a tenth operator: one ALNS-like round emitted as three ordinary history steps
        # (non-sync removal, greedy/regret repair, sync-aware repair).  It makes the chain "customer placed by
        # sync_aware_insertion -> removed by another operator -> vehicles refilled -> sync_aware_insertion again" frequent.
        @precondition(lambda self: has_routed(self) and len(self.hist) <= 27)
        @rule(
            seed=seeds,
            removal=st.sampled_from(["route_removal", "random_removal", "worst_removal", "related_removal", "route_removal"]),
            degree=st.sampled_from([0.25, 0.5, 0.3, 0.75]),
            repair=st.sampled_from(["greedy_insertion", "regret_insertion"]),
        )
        def alns_round(self, seed, removal, degree, repair):
            if removal == "route_removal":
                self.step(removal, seed=seed, n_routes=1 + seed % 3)
            else:
                self.step(removal, seed=seed, degree=degree)
            if repair == "regret_insertion":
                self.step(repair, seed=seed + 1, k=2)
            else:
                self.step(repair, seed=seed + 1)
            self.step("sync_aware_insertion", seed=seed + 2)

        @precondition(lambda self: self._skip or self.ex.state is not None)
        @rule(weights=st.one_of(st.none(), weight_sets(True), weight_sets(True)))
        def vrp_objective(self, weights):
            self.step("vrp_objective", weights=weights)

    return VRPMachine


SUBS = [
    Sub("job_shop", run_job_shop, strategy=lambda tier: jobshops(tier), quick=1000, thorough=2500, workers_quick=4, wall_thorough=420.0),
    Sub("job_shop_history", run_job_shop_history, strategy=lambda tier: jobshop_histories(tier), quick=500, thorough=2500, workers_quick=4, wall_thorough=420.0),
    Sub("vrptw_solve", run_vrptw_solve, strategy=lambda tier: solve_cases(tier), quick=250, thorough=500, workers_quick=4, wall_quick=80.0, wall_thorough=420.0),
    Sub("vrptw_boundary", run_vrptw_boundary, strategy=lambda tier: boundary_cases(tier), quick=130, thorough=500, workers_quick=4, wall_quick=80.0, wall_thorough=420.0),
    Sub("vrp_operators", run_vrp_history, machine=vrp_machine, quick=500, thorough=1200, wall_thorough=420.0, steps_quick=30, steps_thorough=30, workers_quick=4, wall_quick=80.0),
]
