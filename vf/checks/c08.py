"""C08 — max_flow returns a feasible flow whose value is the maximum."""
from __future__ import annotations

from collections import deque

from hypothesis import strategies as st

from ..harness import Sub, Violation
from ..oracles import flows as F

PROPERTY = "C08"
META = {
    "level": "exploration",
    "rule": (
        "Generated capacitated digraphs (<=9 nodes quick, <=12 thorough; int/str/tuple/mixed labels; parallel, anti-parallel, "
        "into-source, out-of-sink, zero-capacity arcs; isolated/unreachable parts), 50% uniform random and 50% from the "
        "augmenting-path trap family (unique shortest path s-a-b-t plus longer detours s~>b and a~>t, so the first BFS "
        "path must be cancelled through a reverse residual arc). Oracle: harness Edmonds-Karp on an explicit residual arc "
        "list + validity predicate (capacity, conservation, net inflow = objective, no residual s-t path). Non-trivial = "
        "max-flow value >=1 and (a forward-only greedy falls short of the maximum, i.e. cancellation is needed, or "
        "parallel/anti-parallel/into-source/out-of-sink arcs are present). Distinct = canonical JSON of the case."
    ),
    "assumptions": ["reference Edmonds-Karp (cross-checked against brute-force min cut in vf.selftest)"],
}


class SameHash:
    """A well-behaved hashable (proper __eq__) whose instances all share one hash value."""

    def __init__(self, k):
        self.k = k

    def __hash__(self):
        return 7

    def __eq__(self, other):
        return isinstance(other, SameHash) and other.k == self.k

    def __repr__(self):
        return f"SameHash({self.k})"


def lab(scheme, i):
    if scheme == 0:
        return i
    if scheme == 1:
        return f"n{i}"
    if scheme == 2:
        return (i // 3, i % 3)
    if scheme == 4:  # falsy / singleton hashables are legal node labels too ("any node labels")
        exotic = [None, "", (), 0, frozenset(), 0.5, "None", -1, (None,), "0", b"", 7]
        return exotic[i] if i < len(exotic) else ("x", i)
    if scheme == 5:  # distinct labels with EQUAL hashes: hash(-1) == hash(-2) in CPython; SameHash collides by design
        coll = [-1, -2, (-1, 0), (-2, 0), SameHash(0), SameHash(1), (0, -1), (0, -2), SameHash(2), 2**70, -(2**70)]
        return coll[i] if i < len(coll) else SameHash(i)
    return [i, f"n{i}", (i, "x")][i % 3]


@st.composite
def graphs(draw, tier="quick"):
    nmax = 12 if tier == "thorough" else 9
    scheme = draw(st.integers(0, 5))
    family = draw(st.sampled_from(["uniform", "trap", "trap", "uniform-dense"]))
    cap = st.integers(0, 5)
    if family.startswith("uniform"):
        n = draw(st.integers(2, nmax))
        m = draw(st.integers(0, 3 * n if family == "uniform-dense" else 2 * n))
        arcs = draw(st.lists(st.tuples(st.integers(0, n - 1), st.integers(0, n - 1), cap), min_size=m, max_size=m))
        arcs = [list(a) for a in arcs if a[0] != a[1]]
        s = draw(st.integers(0, n - 1))
        t = draw(st.integers(0, n - 2))
        if t >= s:
            t += 1
    else:
        # s=0, a=1, b=2, t=3, detour s~>b through l1 nodes, a~>t through l2 nodes
        l1 = draw(st.integers(1, 2 if tier == "quick" else 3))
        l2 = draw(st.integers(1, 2 if tier == "quick" else 3))
        pc = st.integers(1, 3)
        arcs = [[0, 1, draw(pc)], [1, 2, draw(pc)], [2, 3, draw(pc)]]
        nxt = 4
        prev = 0
        for _ in range(l1):
            arcs.append([prev, nxt, draw(pc)])
            prev = nxt
            nxt += 1
        arcs.append([prev, 2, draw(pc)])
        prev = 1
        for _ in range(l2):
            arcs.append([prev, nxt, draw(pc)])
            prev = nxt
            nxt += 1
        arcs.append([prev, 3, draw(pc)])
        if draw(st.booleans()):  # anti-parallel partner of the arc that must be cancelled: cancel-and-push-back in one step
            arcs.append([2, 1, draw(st.integers(1, 2))])
        n = nxt
        extra = draw(st.lists(st.tuples(st.integers(0, n - 1), st.integers(0, n - 1), cap), max_size=4))
        arcs += [list(a) for a in extra if a[0] != a[1]]
        s, t = 0, 3
    perm = draw(st.permutations(range(n)))
    arcs = [[perm[u], perm[v], c] for u, v, c in arcs]
    arcs = draw(st.permutations(arcs)) if len(arcs) < 40 else arcs
    return {
        "n": n,
        "scheme": scheme,
        "family": family,
        "arcs": [list(a) for a in arcs],
        "s": perm[s],
        "t": perm[t],
        "with_cost": draw(st.booleans()),
        "all_keys": draw(st.booleans()),
        "edit": draw(st.one_of(st.none(), st.tuples(st.integers(0, n - 1), st.integers(0, n - 1), st.integers(1, 4)).map(list))),
    }


def forward_only_value(n, arcs, s, t):
    """Greedy BFS augmentation that never uses reverse residual arcs."""
    cap = {}
    for u, v, c in arcs:
        cap[(u, v)] = cap.get((u, v), 0) + c
    total = 0
    while True:
        par = {s: None}
        q = deque([s])
        while q and t not in par:
            u = q.popleft()
            for v in range(n):
                if v not in par and cap.get((u, v), 0) > 0:
                    par[v] = u
                    q.append(v)
        if t not in par:
            return total
        path = []
        v = t
        while par[v] is not None:
            path.append((par[v], v))
            v = par[v]
        b = min(cap[e] for e in path)
        for e in path:
            cap[e] -= b
        total += b


def run(desc, ctx):
    from solvor.flow import max_flow

    n, sch = desc["n"], desc["scheme"]
    arcs = [tuple(a) for a in desc["arcs"]]
    s, t = desc["s"], desc["t"]
    L = [lab(sch, i) for i in range(n)]
    graph = {}
    if desc["all_keys"]:
        for i in range(n):
            graph[L[i]] = []
    for u, v, c in arcs:
        graph.setdefault(L[u], []).append((L[v], c, 7) if desc["with_cost"] else (L[v], c))
    res = ctx.call(max_flow, graph, L[s], L[t])
    judge(desc, ctx, n, arcs, s, t, L, res, first=True)
    edit = desc.get("edit")
    if edit and edit[0] != edit[1] and edit[0] < n and edit[1] < n:
        # a second call on the SAME graph object after the caller edited it (stale caches keyed on object identity)
        u, v, c = edit
        graph.setdefault(L[u], []).append((L[v], c, 7) if desc["with_cost"] else (L[v], c))
        ctx.label("second-call-after-edit")
        res2 = ctx.call(max_flow, graph, L[s], L[t])
        judge(desc, ctx, n, arcs + [(u, v, c)], s, t, L, res2, first=False)


def judge(desc, ctx, n, arcs, s, t, L, res, first):
    sch = desc["scheme"]
    tag = "flow" if first else "flow@second-call"
    want = F.max_flow_value(n, arcs, s, t)
    pooled = {}
    for u, v, c in arcs:
        pooled[(u, v)] = pooled.get((u, v), 0) + c
    pairs = set(pooled)
    if first:
        ctx.label(desc["family"], f"labels-{sch}")
    par = len(pairs) < len(arcs)
    anti = any((v, u) in pairs for u, v in pairs)
    into_s = any(v == s for u, v in pairs)
    out_t = any(u == t for u, v in pairs)
    ctx.label(par and "parallel", anti and "anti-parallel", into_s and "arc-into-source", out_t and "arc-out-of-sink", any(c == 0 for *_, c in arcs) and "zero-cap")
    needs_cancel = forward_only_value(n, arcs, s, t) < want
    ctx.label(needs_cancel and "needs-cancellation", want == 0 and "value-0")
    ctx.size("n", n)
    ctx.size("value", want)
    if first:
        ctx.nontrivial(want >= 1 and (needs_cancel or par or anti or into_s or out_t))

    flows = res.solution
    if not isinstance(flows, dict):
        raise Violation(tag + ":not-a-dict", repr(flows)[:200])
    idx = {}
    for i in range(n):
        idx[L[i]] = i
    f = {}
    for key, val in flows.items():
        try:
            u, v = idx[key[0]], idx[key[1]]
        except Exception:
            raise Violation(tag + ":unknown-arc", repr(key))
        if isinstance(val, bool) or not isinstance(val, int) and not (isinstance(val, float) and val == int(val)):
            raise Violation(tag + ":non-integral", {"arc": [u, v], "f": repr(val)})
        if val <= 0:
            raise Violation(tag + ":non-positive-entry", {"arc": [u, v], "f": val})
        if val > pooled.get((u, v), 0):
            raise Violation(tag + ":capacity", {"arc": [u, v], "f": val, "cap": pooled.get((u, v), 0)})
        f[(u, v)] = val
    net = [0] * n
    for (u, v), x in f.items():
        net[u] -= x
        net[v] += x
    for v in range(n):
        if v not in (s, t) and net[v] != 0:
            raise Violation(tag + ":conservation", {"node": v, "net": net[v]})
    if net[t] != res.objective:
        raise Violation(tag + ":objective-vs-sink-inflow", {"net_t": net[t], "objective": res.objective})
    if t in F.residual_reachable(n, arcs, f, s):
        raise Violation(tag + ":augmenting-path-remains", {"objective": res.objective, "max": want})
    if res.objective != want:
        raise Violation(tag + ":value-not-maximum", {"objective": res.objective, "max": want})


SUBS = [Sub("max_flow", run, strategy=lambda tier: graphs(tier), quick=5010, thorough=12000, workers_quick=6)]
