"""C06 — the CP-to-SAT encoding has exactly the models of the CP problem (translation validation).

The harness replaces solvor.cp_encoder.solve_sat by a function that receives the CNF the encoder
produced; the CNF is then decided by the harness's own reference SAT solver, for every assignment of the
named integer variables, against the CP semantics written from the definitions.  solvOR's SAT solver is
not involved at all.
"""
from __future__ import annotations

import importlib

from ..gens import cpmodel
from ..harness import Discard, Sub, Violation
from ..oracles import cp_sem, sat_ref

PROPERTY = "C06"
META = {
    "level": "translation_validation",
    "rule": (
        "programs = CP models translated (same grammar as C05, 1-3 constraints, every encodable kind; circuits n=2..4, "
        "cumulative 1-4 tasks, sums 1-5 terms; product of domains <= 700 so that every assignment of the named variables is "
        "enumerated). For each model the CNF produced by SATEncoder is captured (solve_sat swapped for a recorder) and, for "
        "EVERY assignment a of the named variables: CNF ∧ units(a) satisfiable (harness DPLL) <=> a satisfies the CP "
        "constraints (soundness bucket extra-model, completeness bucket missing-model); CNF |= exactly-one over each named "
        "variable's booleans; CNF satisfiable <=> CP satisfiable; the encoder's own decoding of reference models equals a. "
        "disagreements_checked = assignments compared. Non-trivial = CP solution set neither empty nor the full product."
    ),
    "assumptions": [
        "CP semantics in vf/oracles/cp_sem.py",
        "reference DPLL (self-tested against truth tables)",
        "the clause list handed to solve_sat is the encoder's output (captured by module-attribute replacement, no source change)",
    ],
}


class _Captured(BaseException):
    pass


def translate(desc, ctx, answer=None, model=None):
    """Run the real encoder on a fresh model. Returns (clauses or None, named bool maps, result-or-None).

    answer: None -> abort after capture; else a function clauses -> solvor Result to hand back to the encoder
    (used to exercise the encoder's decoding of SAT models).
    """
    enc_mod = importlib.import_module("solvor.cp_encoder")
    if model is not None:
        m, V = model  # encode the same Model object again (Model.solve does this on every call and on the hint-free retry)
    else:
        try:
            m, V = cp_sem.build(desc)
        except cp_sem.Unbuildable:
            raise Discard()
    translate.last_model = (m, V)
    box = {}

    def fake_solve_sat(clauses, **kw):
        box["clauses"] = [list(c) for c in clauses]
        box["kw"] = kw
        if answer is None:
            raise _Captured()
        return answer(box["clauses"])

    enc = enc_mod.SATEncoder(m)
    real = enc_mod.solve_sat
    enc_mod.solve_sat = fake_solve_sat
    res = None
    try:
        try:
            res = ctx.call(enc.solve)
        except _Captured:
            pass
    finally:
        enc_mod.solve_sat = real
    clauses = box.get("clauses")
    if clauses is None:
        clauses = [list(c) for c in enc._clauses]  # encoder answered INFEASIBLE by itself (empty clause present)
    maps = {name: dict(V[name].bool_vars) for name in V}
    return clauses, maps, res


def units(maps, a):
    out = []
    for name, val in a.items():
        for v, lit in maps[name].items():
            out.append(lit if v == val else -lit)
    return out


def run(desc, ctx):
    if cp_sem.domain_product(desc) > 700:
        raise Discard()
    clauses, maps, _ = translate(desc, ctx)
    first_model = translate.last_model
    ctx.count("programs")
    sols = cp_sem.solution_set(desc)
    sol_keys = {tuple(sorted(s.items())) for s in sols}
    full = cp_sem.domain_product(desc)
    kinds = {c[0] for c in desc["cons"]}
    ctx.label("flavour-" + desc["flavour"], *("has-" + k for k in kinds), "cp-sat" if sols else "cp-unsat", any(len(c) == 0 for c in clauses) and "cnf-has-empty-clause")
    ctx.size("clauses", len(clauses))
    ctx.size("bools", max((abs(l) for c in clauses for l in c), default=0))
    ctx.size("assignments", full)
    ctx.nontrivial(0 < len(sols) < full)

    # CNF satisfiable <=> CP satisfiable
    F = sat_ref.CNF(clauses)
    cnf_sat = F.solve() is not None
    if cnf_sat != bool(sols):
        raise Violation("equisat:cnf-sat-but-cp-unsat" if cnf_sat else "equisat:cnf-unsat-but-cp-sat", {"cp_solutions": len(sols)})

    # exactly-one over each named variable's booleans is entailed
    for name, mp in maps.items():
        lits = list(mp.values())
        if cnf_sat and F.solve({abs(l): False for l in lits}) is not None:
            raise Violation("exactly-one:variable-may-have-no-value", {"var": name})
        for i in range(len(lits)):
            for j in range(i + 1, len(lits)):
                if F.solve({lits[i]: True, lits[j]: True}) is not None:
                    raise Violation("exactly-one:variable-may-have-two-values", {"var": name})

    # every assignment: CNF ∧ units(a) satisfiable <=> a is a CP solution
    witnesses = []
    for a in cp_sem.assignments(desc):
        ctx.count("disagreements_checked")
        asg = {abs(l): (l > 0) for l in units(maps, a)}
        mod = F.solve(asg)
        is_sol = tuple(sorted(a.items())) in sol_keys
        if mod is not None and not is_sol:
            broken = next(c for c in desc["cons"] if not cp_sem.holds(c, a))
            raise Violation(f"extra-model:{broken[0]}", {"assignment": a, "violated": broken})
        if mod is None and is_sol:
            raise Violation("missing-model:" + "+".join(sorted(kinds)), {"assignment": a})
        if mod is not None and len(witnesses) < 3:
            witnesses.append((a, mod))

    # a second encoding of the same Model object (what a second Model.solve() does) has the same models again
    clauses2, maps2, _ = translate(desc, ctx, model=first_model)
    ctx.label("re-encoded-same-model")
    F2 = sat_ref.CNF(clauses2)
    for a in cp_sem.assignments(desc):
        asg = {abs(l): (l > 0) for l in units(maps2, a)}
        mod = F2.solve(asg)
        is_sol = tuple(sorted(a.items())) in sol_keys
        if mod is not None and not is_sol:
            broken = next(c for c in desc["cons"] if not cp_sem.holds(c, a))
            raise Violation(f"re-encoding:extra-model:{broken[0]}", {"assignment": a, "violated": broken})
        if mod is None and is_sol:
            raise Violation("re-encoding:missing-model:" + "+".join(sorted(kinds)), {"assignment": a})

    # the encoder's own decoding of reference models gives back a
    if witnesses:
        from solvor.types import Result

        nb = max((abs(l) for c in clauses for l in c), default=0)

        def total(mod, n):
            return {v: mod.get(v, False) for v in range(1, n + 1)}

        expect = [w[0] for w in witnesses]

        def answer(cl2):
            # the re-encoding of a fresh model is deterministic, so boolean numbering is identical; verify, then answer
            if cl2 != clauses:
                raise Violation("encoding:not-deterministic", {})
            ms = [total(w[1], nb) for w in witnesses]
            return Result(ms[0], len(ms[0]), 0, 0, solutions=tuple(ms))

        _, _, res = translate(desc, ctx, answer=answer)
        if res is None or res.solution != expect[0]:
            raise Violation("decode:solution-differs-from-model", {"decoded": None if res is None else res.solution, "expected": expect[0]})
        got = list(getattr(res, "solutions", None) or ())
        if got != expect:
            raise Violation("decode:solutions-differ-from-models", {"decoded": got, "expected": expect})


SUBS = [Sub("translate", run, strategy=lambda tier: cpmodel.model(for_tv=True), quick=3000, thorough=12000, workers_quick=6)]
