"""C02 — SAT verdicts are correct and the solver always comes back."""
from __future__ import annotations

from .. import budget
from ..gens import cnf
from ..harness import Sub, Violation
from ..oracles import sat_ref
from .c01 import all_empty, call_sat

PROPERTY = "C02"
META = {
    "level": "exploration",
    "rule": (
        "Same CNF families as C01, weighted to unsatisfiable / near-threshold / structured (pigeonhole, parity) formulas, "
        "with assumption lists and budget settings. Oracles: (1) reference verdict by an independent DPLL (no learning): "
        "INFEASIBLE => reference UNSAT under the assumptions; reference SAT and status != MAX_ITER => a model is returned; "
        "reference UNSAT => no model; (2) learned-clause entailment through the SOLVOR_VERIF hook: every non-blocking "
        "learned clause C satisfies F ∧ A ∧ P ∧ B |= C (A assumptions, P pure-literal units when solution_limit=1, B earlier "
        "blocking clauses), decided by the reference solver; (3) MAX_ITER only with an exhausted conflict/restart budget "
        "(hook counters); (4) termination: a deterministic sys.monitoring step budget - exceeding it is the violation "
        "'does not return'. Non-trivial = >=1 learned clause of length>=2 or >=1 restart, or an assumption opposing a "
        "pure literal. Distinct = canonical JSON of the case."
    ),
    "assumptions": [
        "reference DPLL (cross-checked against truth tables in vf.selftest)",
        "the SOLVOR_VERIF hook reports every clause appended to the learned database",
        "step budget >= 20x the maximum work observed on the repaired tree",
    ],
}

KNOWN_CLASSES = {"all-clauses-empty": all_empty}


def pure_literals(clauses):
    pos, neg = set(), set()
    for c in clauses:
        for l in c:
            (pos if l > 0 else neg).add(abs(l))
    return [v for v in pos - neg] + [-v for v in neg - pos]


def run(desc, ctx):
    clauses, ass, opts = desc["clauses"], desc["assumptions"], desc["opts"]
    events = []
    try:
        res = call_sat(desc, ctx, events)
    except budget.StepBudgetExceeded as e:
        raise Violation("termination:step-budget-exceeded", {"steps": str(e)})
    status = res.status.name
    learned = [e for e in events if e[0] == "learned"]
    restarts = sum(1 for e in events if e[0] == "restart")
    pure = pure_literals(clauses)
    opposing = any(-a in pure for a in ass)
    ref_sat = sat_ref.satisfiable(clauses, ass)
    ctx.label(
        desc["family"],
        "ref-SAT" if ref_sat else "ref-UNSAT",
        f"status-{status}",
        ass and "has-assumption",
        opposing and "assumption-vs-pure-literal",
        restarts and "restarted",
        any(not e[2] for e in learned) and "learned",
        opts["solution_limit"] > 1 and "enumerating",
    )
    ctx.size("vars", len({abs(l) for c in clauses for l in c}))
    ctx.nontrivial(any((not e[2]) and len(e[1]) >= 2 for e in learned) or restarts > 0 or opposing)

    # (1) verdicts
    if status not in ("OPTIMAL", "INFEASIBLE", "MAX_ITER"):
        raise Violation("verdict:unexpected-status", {"status": status})
    has_model = res.solution is not None
    if status == "INFEASIBLE":
        if ref_sat:
            raise Violation("verdict:INFEASIBLE-but-satisfiable", {})
        if has_model:
            raise Violation("verdict:INFEASIBLE-with-model", {})
    if status == "OPTIMAL" and not has_model:
        raise Violation("verdict:OPTIMAL-without-model", {})
    if ref_sat and status != "MAX_ITER" and not has_model:
        raise Violation("verdict:no-model-for-satisfiable", {"status": status})
    if not ref_sat and has_model:
        raise Violation("verdict:model-for-unsatisfiable", {"status": status})
    if has_model and isinstance(res.solution, dict):
        # "answers with a model whenever one exists": what it answers with has to be a model (C01 checks this in depth)
        bad = sat_ref.model_ok(clauses, res.solution)
        if bad is not None or any(res.solution.get(abs(a)) != (a > 0) for a in ass):
            raise Violation("verdict:answer-is-not-a-model", {"status": status, "clause": None if bad is None else clauses[bad]})

    # (3) MAX_ITER only when a budget is exhausted
    if status == "MAX_ITER":
        mi = [e for e in events if e[0] == "max_iter"]
        if not mi:
            raise Violation("budget:MAX_ITER-without-budget-exit", {})
        _, conflicts, rst, maxc, maxr = mi[-1]
        if not (conflicts >= opts["max_conflicts"] or rst >= opts["max_restarts"]):
            raise Violation("budget:MAX_ITER-before-budget-exhausted", {"conflicts": conflicts, "restarts": rst})
        ctx.label("MAX_ITER-justified")

    # (2) entailment of learned clauses
    base = [list(c) for c in clauses] + [[a] for a in ass]
    if opts["solution_limit"] == 1:
        base += [[p] for p in pure if abs(p) not in {abs(a) for a in ass}]
    blocking = []
    checked = 0
    limit = 60 if desc["family"] != "small" else 200
    for e in learned:
        _, c, is_blocking, _bt = e
        if is_blocking:
            blocking.append(list(c))
            continue
        if checked >= limit:
            continue
        checked += 1
        if not sat_ref.entails(base + blocking, c):
            raise Violation("learning:clause-not-entailed", {"clause": c, "index": checked, "n_blocking": len(blocking)})
    ctx.count("learned_clauses_checked", checked)


def strat(tier):
    from hypothesis import strategies as st

    return st.one_of(cnf.small_cnf(), cnf.threshold_cnf(32 if tier == "quick" else 40), cnf.threshold_cnf(24), cnf.structured_cnf(), cnf.gadget_cnf(), cnf.duplicate_cnf())


SUBS = [
    Sub("verdicts", run, strategy=strat, quick=700, thorough=6000, workers_quick=4, case_timeout=300),
    Sub("gadget", run, strategy=lambda tier: cnf.gadget_cnf(), quick=3000, thorough=20000, workers_quick=4, case_timeout=300),
]
AMPLIFY = [("verdicts", 8000, 4)]  # thorough-tier coverage-guided amplifier (vf/fuzz.py)
