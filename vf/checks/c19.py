"""C19 — search heuristics return the best point they evaluated, faithfully, reproducibly.

Every case is a JSON description: an objective (kind + parameters), the solver's parameters (incl. its seed), the
seed of the callbacks' own RNG and an optional `on_progress` request to stop at a given iteration.  `run_*` builds
the live objective/callbacks from the description (a fresh `random.Random(cb_seed)` per solver call, so the same case
replays identically), wraps the objective in a recording proxy and runs the solver three times: as described, again
(reproducibility) and mirrored (-f, not minimize).  Nothing in the oracle calls solvOR: the objective is re-evaluated
by this module on the returned point and compared with the proxy's log.

Group 1 (anneal, tabu_search, lns, alns, evolve, differential_evolution, particle_swarm, nelder_mead, bayesian_opt)
    <solver>:objective-not-f(solution)      |objective - f(solution)| <= 1e-12 * max(1, |f|)   (user's sign)
    <solver>:worse-than-start               objective at least as good as f(start) for every start point handed in
    <solver>:worse-than-evaluated-candidate objective at least as good as every value the proxy recorded (exact)
    <solver>:evaluations-count              Result.evaluations == number of proxy calls
    <solver>:outside-bounds                 DE / PSO / bayesian_opt: lo <= x_i <= hi
    <solver>:not-reproducible               same input objects twice => same (solution, objective, iterations, evaluations)
    <solver>:mirror-solution / :mirror-objective / :mirror-iterations   (-f, not minimize, same seeds)
Group 2 (powell, bfgs, lbfgs with objective_fn): objective-not-f(solution) and not-reproducible only.
"""
from __future__ import annotations

import functools
import math
import random
from fractions import Fraction

from hypothesis import strategies as st

from ..harness import Sub, Violation

PROPERTY = "C19"
META = {
    "level": "exploration",
    "rule": (
        "Deterministic objectives described as JSON. Integer-state solvers (anneal, tabu_search, lns, alns, evolve) work on "
        "tuples of k<=4 digits in 0..m-1 (m<=6), objective = g(sum digit_i*mult_i) with g a lookup table of 3-24 small "
        "integers (many ties), a quadratic (a may be 0: constant objective), a plateau (floor division) or a sawtooth; "
        "values int or dyadic (x0.5, x0.125). Vector solvers (DE, PSO, nelder_mead, bayesian_opt, powell, bfgs, lbfgs) get "
        "1-3 dimensional sphere (coefficients of either sign), sum a|x-c|, step (floor), Rastrigin-like and floor-indexed "
        "lookup-table objectives with dyadic parameters, bounds lo<hi (dyadic), start points inside the bounds (15%: some "
        "outside, to exercise clipping). Neighbour/destroy/repair/crossover/mutate callbacks are built from the "
        "description and draw from random.Random(cb_seed) created per solver call (lns/alns operators also from the solver's "
        "rng). Solver seeds, max_iter>=1, cooling schedules, acceptance rules (improving, accept_all, simulated_annealing, "
        "a custom threshold callable; for alns also a coin-flip callable that may reject improvements), elite sizes incl. 0 and >population, DE strategies valid for the population "
        "size, minimize/maximize all generated; ~55% of cases carry an on_progress callback (interval 1-3) that "
        "requests a stop at a generated iteration (30-45% of all cases really stop early). Each case: run, run again, run mirrored (-f, not minimize). "
        "tabu_search is also run on small explicit state graphs (sub tabu_graph: 4-10 states, 2-3 move labels shared "
        "by all states, distinct values, dead-end states; families trap = improving path whose last, now tabu, label also "
        "leads from the path's end to a state that aspirates while a non-tabu label leads to a still better dead end / "
        "descent / random). Vector objectives include linear (monotone) ones; bayesian_opt: dimension 2-3 in 90%, ei/ucb, "
        "acq_restarts 1 (60%), 2, 3 or default, ~45% linear objectives, <= 9 objective calls per run. "
        "Bounds of DE / PSO / powell have one or more fixed variables (lo == hi) in ~20% of the bounded cases (not "
        "bayesian_opt: its kernel divides by hi-lo). All input objects of a case (adjacency tables returned as the stored "
        "list objects, populations, operator and weight lists, start vectors, bounds) are built once and handed to all "
        "three runs; tabu neighbourhoods come as stored lists / dict.get / fresh lists / tuples, values from 2-3 distinct "
        "ints in part of the graph cases; half of the simulated_annealing lns/alns cases are 100-300 step walks with "
        "local +-1 moves and a cooling temperature of the size of the objective differences. "
        "Non-trivial = in the proxy log a strictly worse value is recorded after the first occurrence of the best value "
        "(best != last). Distinct = canonical JSON of the case."
    ),
    "assumptions": [
        "the objective functions of this module are pure functions of the point (checked: f is re-evaluated on the returned "
        "point and on the start points outside the solver)",
        "float negation is exact, so -f is the exact mirror of f",
    ],
}

REL = 1e-12  # DESIGN C19: |objective - f(solution)| <= 1e-12 relative; both sides are the same float computation
BIG = 1e100  # objectives clamp their argument to +-1e100 (NaN -> 0) so they are total and never raise


class _CheckBug(BaseException):
    """An exception inside one of *our* callbacks (BaseException: must not be mistaken for a solvOR crash)."""


def _mine(fn):
    def wrapped(*a):
        try:
            return fn(*a)
        except Exception as e:  # noqa: BLE001
            raise _CheckBug(f"{fn.__name__}{a!r}: {e!r}") from e

    wrapped.__name__ = getattr(fn, "__name__", "cb")
    return wrapped


def _cl(x):
    if x != x:
        return 0.0
    if x > BIG:
        return BIG
    if x < -BIG:
        return -BIG
    return x


# ============================================================================= objectives
INF = {"inf": float("inf"), "-inf": float("-inf")}


def _exactify(v, ex):
    """Exact value classes (the scale is 1, v is an int): 'bigint' = +-10**exp + v (beyond 2**53: not a double),
    'fraction' = 1/3 + v/10**20 (fractions.Fraction).  Distinct v stay distinct only in exact arithmetic."""
    if ex["type"] == "bigint":
        return (-1 if ex.get("neg") else 1) * 10 ** ex["exp"] + v
    return Fraction(1, 3) + Fraction(v, 10**20)


def _finish(g, o):
    """g: int key -> value.  Adds the optional hard penalty (keys lo..hi are worth +-inf) and the exact value class."""
    sc, ex, pen = o.get("scale", 1), o.get("exact"), o.get("pen")
    if pen:
        lo, hi, pv = pen["lo"], pen["hi"], INF[pen["val"]]
    if ex is not None and sc != 1:
        raise ValueError("exact value classes need scale 1")

    def h(k):
        if pen and lo <= k <= hi:
            return pv
        v = g(k)
        if ex is not None:
            return _exactify(v, ex)
        return v if sc == 1 else v * sc

    return h


def build_disc(o):
    """Objective on tuples of small ints.  key = sum t_i*mult_i, then a table/quadratic/plateau/sawtooth of the key
    (optionally: +-inf penalty on a key range, values as big ints or Fractions, see _finish)."""
    kind, mult = o["kind"], o["mult"]

    def key(t):
        return sum(a * b for a, b in zip(t, mult))

    if kind == "table":
        vals = o["vals"]
        n = len(vals)

        def g(k):
            return vals[k % n]

    elif kind == "quad":
        a, b, c = o["a"], o["b"], o["c"]

        def g(k):
            return a * (k - c) * (k - c) + b

    elif kind == "plateau":
        w, h, b = o["w"], o["h"], o["b"]

        def g(k):
            return h * (k // w) + b

    elif kind == "saw":
        p, s, t2 = o["p"], o["s"], o["t"]

        def g(k):
            return s * (k % p) + t2 * (k // p)

    else:
        raise ValueError(kind)

    fin = _finish(g, o)
    return _mine(lambda t: fin(key(t)))


def build_vec(o):
    """Objective (and a gradient model for bfgs) on float vectors of dimension d."""
    kind, d = o["kind"], o["d"]
    a, c, b = o["a"], o["c"], o["b"]
    two_pi = 2.0 * math.pi

    if kind == "sphere":

        def f(x):
            s = b
            for i in range(d):
                u = _cl(x[i]) - c[i]
                s += a[i] * u * u
            return s

        def grad(x):
            return [2.0 * a[i] * (_cl(x[i]) - c[i]) for i in range(d)]

    elif kind == "abs":

        def f(x):
            s = b
            for i in range(d):
                s += a[i] * abs(_cl(x[i]) - c[i])
            return s

        def grad(x):
            out = []
            for i in range(d):
                u = _cl(x[i]) - c[i]
                out.append(a[i] * (1.0 if u > 0 else -1.0 if u < 0 else 0.0))
            return out

    elif kind == "step":
        sc = o["s"]

        def f(x):
            s = b
            for i in range(d):
                s += a[i] * math.floor(sc * (_cl(x[i]) - c[i]))
            return s

        def grad(x):  # slope of the staircase's envelope (the true gradient is 0 almost everywhere)
            return [a[i] * sc for i in range(d)]

    elif kind == "rast":
        amp = o["amp"]

        def f(x):
            s = b
            for i in range(d):
                u = _cl(x[i]) - c[i]
                s += a[i] * u * u + amp * (1.0 - math.cos(two_pi * u))
            return s

        def grad(x):
            out = []
            for i in range(d):
                u = _cl(x[i]) - c[i]
                out.append(2.0 * a[i] * u + two_pi * amp * math.sin(two_pi * u))
            return out

    elif kind == "linear":  # monotone: the optimum over a box lies on its boundary, and it keeps improving beyond

        def f(x):
            s = b
            for i in range(d):
                s += a[i] * (_cl(x[i]) - c[i])
            return s

        def grad(x):
            return [a[i] for i in range(d)]

    elif kind == "vtable":
        vals, sc, ex = o["vals"], o["s"], o.get("exact")
        n = len(vals)

        def f(x):
            k = 0
            for i in range(d):
                k += math.floor(sc * (_cl(x[i]) - c[i]))
            if ex is not None:
                return _exactify(vals[k % n], ex)
            return vals[k % n] * b

        def grad(x):
            return [a[i] for i in range(d)]

    else:
        raise ValueError(kind)

    gs = o.get("gscale", 1.0)

    def grad_scaled(x):
        return [gs * g for g in grad(x)]

    return _mine(f), _mine(grad_scaled)


class Rec:
    """Recording proxy: (point, value) in call order; the point is copied (solvers mutate lists in place)."""

    __slots__ = ("f", "neg", "log")

    def __init__(self, f, neg=False):
        self.f, self.neg, self.log = f, neg, []

    def __call__(self, x):
        p = tuple(x)
        v = self.f(p)
        if self.neg:
            v = -v
        self.log.append((p, v))
        return v


CALLABLE_KINDS = ["object", "function", "lambda", "partial", "bound-method", "evaluator", "evaluator-flip"]


def _apply(fn, x):
    return fn(x)


class _Holder:
    def __init__(self, fn):
        self.fn = fn

    def evaluate(self, x):
        return self.fn(x)


def wrap_callable(kind, rec):
    """The objective is handed to the solver as one of several callable kinds (any callable is a valid objective).
    Returns (callable, outer_count) where outer_count() is the number of invocations seen by the outermost callable
    when that callable counts on its own (solvor.utils.Evaluator, the package's public call-counting wrapper), else None.
    'evaluator-flip' = Evaluator(lambda x: -rec(x), minimize=False): a sign-flipping wrapper, equal to rec pointwise."""
    if kind == 0:
        return rec, None
    if kind == 1:

        def objective(x):
            return rec(x)

        return objective, None
    if kind == 2:
        return (lambda x: rec(x)), None
    if kind == 3:
        return functools.partial(_apply, rec), None
    if kind == 4:
        return _Holder(rec).evaluate, None
    from solvor.utils import Evaluator

    ev = Evaluator(rec, minimize=True) if kind == 5 else Evaluator(lambda x: -rec(x), minimize=False)
    return ev, (lambda: ev.evals)


def _run_wrapped(name, desc, call, rec, minimize):
    """Run the solver on rec presented as desc['callable']; the outer wrapper's own call counter, when it has one,
    must agree with Result.evaluations (group 1: evaluations == number of objective calls)."""
    fn, outer = wrap_callable(desc.get("callable", 0), rec)
    res, ps = call(fn, minimize)
    return res, ps, outer


def mk_progress(p):
    """on_progress from the description: ask for a stop once iteration >= stop_at (None/False otherwise)."""
    state = {"calls": 0, "stopped": False}
    if not p:
        return None, 0, state
    stop_at, idle = p["stop_at"], (None if p.get("idle", 0) == 0 else False)

    def cb(pr):
        state["calls"] += 1
        if pr.iteration >= stop_at:
            state["stopped"] = True
            return True
        return idle

    return _mine(cb), p["interval"], state


# ============================================================================= the oracle
def _num(v):
    return isinstance(v, (int, float, Fraction)) and not isinstance(v, bool)


def _exact(v):
    return isinstance(v, (int, Fraction)) and not isinstance(v, bool)


def _eq(a, b):
    return a == b or (a != a and b != b)


def _same_point(a, b):
    try:
        return len(a) == len(b) and all(_eq(x, y) for x, y in zip(a, b))
    except TypeError:
        return False


def _worse(a, b, minimize):
    """a strictly worse than b in the user's direction."""
    return a > b if minimize else a < b


def _nontrivial(vals, minimize):
    if not vals:
        return False
    b = min(vals) if minimize else max(vals)
    i = vals.index(b)
    return any(v != b for v in vals[i + 1 :])


def _pt(p):
    return list(p)


def judge_solution(name, res, f, valid_point):
    """objective == f(solution) in the user's sign.  Returns f(solution)."""
    sol = res.solution
    if not valid_point(sol):
        raise Violation(f"{name}:solution-malformed", {"solution": repr(sol)[:200]})
    if not _num(res.objective):
        raise Violation(f"{name}:objective-not-a-number", {"objective": repr(res.objective)[:100]})
    fv = f(tuple(sol))
    obj = res.objective
    if _exact(fv) or math.isinf(fv) or (isinstance(obj, float) and math.isinf(obj)):
        # exact objective values (int, Fraction) and +-inf are compared exactly: a relative tolerance would swallow
        # 1 in 10**17, and inf <= inf would equate -inf with +inf
        ok = obj == fv
    else:
        ok = obj == fv or abs(obj - fv) <= REL * max(1.0, abs(fv))
    if not ok:
        raise Violation(f"{name}:objective-not-f(solution)", {"objective": res.objective, "f(solution)": fv, "solution": _pt(sol)})
    return fv


def _value_labels(ctx, desc, vals):
    o = desc["obj"]
    ex, pen = o.get("exact"), o.get("pen")
    ctx.label(ex and "values-" + ex["type"], pen and "penalty-" + pen["val"])
    if pen and vals:
        n_inf = sum(1 for v in vals if isinstance(v, float) and math.isinf(v))
        ctx.label(n_inf == len(vals) and "all-evaluated-infinite", 0 < n_inf < len(vals) and "some-evaluated-infinite")


def group1(name, ctx, desc, f, call, valid_point, starts=(), bounds=None):
    """call(objective, minimize) -> (Result, progress_state).  All group-1 clauses."""
    m = desc["minimize"]
    rec = Rec(f)
    res, ps, outer = _run_wrapped(name, desc, call, rec, m)
    log = rec.log
    vals = [v for _, v in log]

    ctx.label(name, "minimize" if m else "maximize", "obj-" + desc["obj"]["kind"])
    ctx.label("callable-" + CALLABLE_KINDS[desc.get("callable", 0)])
    _value_labels(ctx, desc, vals)
    ctx.label(desc.get("progress") and "on_progress", ps["stopped"] and "early-stop")
    ctx.label(len(set(vals)) < len(vals) and "ties-in-log", len(set(vals)) == 1 and "constant-log")
    nt = _nontrivial(vals, m)
    ctx.nontrivial(nt)
    ctx.label(nt and "best-not-last", nt and ps["stopped"] and "early-stop+best-not-last")
    ctx.size(name + ".calls", len(log))
    ctx.count(name + ".calls", len(log))

    judge_solution(name, res, f, valid_point)
    obj = res.objective
    for s in starts:
        fs = f(tuple(s))
        if _worse(obj, fs, m):
            raise Violation(f"{name}:worse-than-start", {"objective": obj, "start": _pt(s), "f(start)": fs, "solution": _pt(res.solution)})
    for i, (p, v) in enumerate(log):
        if _worse(obj, v, m):
            raise Violation(
                f"{name}:worse-than-evaluated-candidate",
                {"objective": obj, "solution": _pt(res.solution), "call": i, "of": len(log), "point": _pt(p), "value": v, "early_stop": ps["stopped"]},
            )
    if res.evaluations != len(log):
        raise Violation(f"{name}:evaluations-count", {"evaluations": res.evaluations, "proxy_calls": len(log)})
    if outer is not None and outer() != res.evaluations:
        raise Violation(f"{name}:evaluations-count", {"evaluations": res.evaluations, "calls_counted_by_the_objective_wrapper": outer(), "proxy_calls": len(log)})
    if bounds is not None:
        # measured only: the statement speaks about the returned point ("bounded solvers return points inside
        # their bounds"); an evaluated point outside the box is a violation once it is returned (below)
        ctx.label(any(not _inside(p, bounds) for p, _ in log) and "evaluated-outside-bounds")
        for i, (lo, hi) in enumerate(bounds):
            if not lo <= res.solution[i] <= hi:
                raise Violation(f"{name}:outside-bounds", {"solution": _pt(res.solution), "dim": i, "bounds": [lo, hi]})
    if vals and obj == (min(vals) if m else max(vals)):
        ctx.label(log[0][1] == obj and "best-is-first-call")

    # same input again
    rec2 = Rec(f)
    res2, _, _ = _run_wrapped(name, desc, call, rec2, m)
    if not (_same_point(res2.solution, res.solution) and _eq(res2.objective, obj) and res2.iterations == res.iterations and res2.evaluations == res.evaluations):
        raise Violation(
            f"{name}:not-reproducible",
            {"first": [_pt(res.solution), obj, res.iterations, res.evaluations], "second": [_pt(res2.solution), res2.objective, res2.iterations, res2.evaluations]},
        )
    # measured, not asserted: the statement is about the Result; a repeat run that reaches the same Result through a
    # different sequence of objective calls (e.g. because an argument was reordered in place) is only labelled
    if rec2.log != log and not (len(rec2.log) == len(log) and all(_same_point(p, q) and _eq(v, w) for (p, v), (q, w) in zip(log, rec2.log))):
        ctx.label("repeat-run-different-call-sequence")

    # mirror image: (-f, not minimize), same seeds
    rec3 = Rec(f, neg=True)
    res3, _, _ = _run_wrapped(name, desc, call, rec3, not m)
    if not _same_point(res3.solution, res.solution):
        raise Violation(f"{name}:mirror-solution", {"solution": _pt(res.solution), "mirror_solution": _pt(res3.solution), "objective": obj, "mirror_objective": res3.objective})
    if not _eq(res3.objective, -obj):
        raise Violation(f"{name}:mirror-objective", {"objective": obj, "mirror_objective": res3.objective})
    if res3.iterations != res.iterations or res3.evaluations != res.evaluations:
        raise Violation(f"{name}:mirror-iterations", {"run": [res.iterations, res.evaluations], "mirror": [res3.iterations, res3.evaluations]})


def group2(name, ctx, desc, f, call, valid_point):
    m = desc["minimize"]
    rec = Rec(f)
    res, ps, _ = _run_wrapped(name, desc, call, rec, m)
    vals = [v for _, v in rec.log]
    ctx.label(name, "minimize" if m else "maximize", "obj-" + desc["obj"]["kind"])
    ctx.label("callable-" + CALLABLE_KINDS[desc.get("callable", 0)])
    ctx.label(desc.get("progress") and "on_progress", ps["stopped"] and "early-stop", desc.get("bounds") and "bounds")
    nt = _nontrivial(vals, m)
    ctx.nontrivial(nt)
    ctx.label(nt and "best-not-last")
    ctx.size(name + ".calls", len(vals))
    ctx.count(name + ".calls", len(vals))
    ctx.label(res.iterations == 0 and "zero-iterations")
    judge_solution(name, res, f, valid_point)
    rec2 = Rec(f)
    res2, _, _ = _run_wrapped(name, desc, call, rec2, m)
    if not (_same_point(res2.solution, res.solution) and _eq(res2.objective, res.objective) and res2.iterations == res.iterations and res2.evaluations == res.evaluations):
        raise Violation(
            f"{name}:not-reproducible",
            {"first": [_pt(res.solution), res.objective, res.iterations, res.evaluations], "second": [_pt(res2.solution), res2.objective, res2.iterations, res2.evaluations]},
        )


# ============================================================================= integer-state callbacks
def _valid_state(space):
    k, m = space["k"], space["m"]

    def ok(s):
        return isinstance(s, tuple) and len(s) == k and all(isinstance(v, int) and 0 <= v < m for v in s)

    return ok


def _shift(v, d, m, wrap):
    if wrap:
        return (v + d) % m
    return max(0, min(m - 1, v + d))


def mk_neighbor(space, nb, rng):
    """anneal: one random digit moved by a random delta (wrapping or clamped: clamping gives self-loops)."""
    k, m, deltas, wrap = space["k"], space["m"], nb["deltas"], nb["wrap"]

    def neighbor(s):
        pos = rng.randrange(k)
        d = deltas[rng.randrange(len(deltas))]
        t = list(s)
        t[pos] = _shift(t[pos], d, m, wrap)
        return tuple(t)

    return _mine(neighbor)


def mk_tabu_neighbors(space, nb, rng, store=None):
    """tabu: all (digit, delta) moves, optionally thinned by the callback rng; move = (pos, delta) | pos | target.
    With `store` (a dict that lives as long as the case, nb['stored']) the neighbour lists are kept in an adjacency
    table and the very same list objects are handed out on every call and in every run of the case."""
    k, m, deltas, wrap = space["k"], space["m"], nb["deltas"], nb["wrap"]
    keep, mk, dead = nb["keep"], nb["move"], nb["dead"]

    def neighbors(s):
        if store is not None:
            if s not in store:
                store[s] = compute(s)
            return store[s]
        return compute(s)

    def compute(s):
        if dead and sum(s) % dead == dead - 1:
            return []
        out = []
        for pos in range(k):
            for d in deltas:
                if keep < 8 and rng.randrange(8) >= keep:
                    continue
                t = list(s)
                t[pos] = _shift(t[pos], d, m, wrap)
                t = tuple(t)
                move = (pos, d) if mk == 0 else pos if mk == 1 else t
                out.append((move, t))
        return out if nb["as_list"] else tuple(out)

    return _mine(neighbors)


def mk_destroy(space, op, own):
    """lns: blank `n` digits (positions from the solver's rng, or from the callback rng when op['own']).  A blank is
    None, or -(old digit + 1) when op['keep'] (the partial solution remembers what was removed, so that a repair can
    make a local move)."""
    k, n, keep = space["k"], min(op["n"], space["k"]), op.get("keep", False)

    def destroy(s, rng):
        r = own if op["own"] else rng
        t = list(s)
        for pos in r.sample(range(k), n):
            t[pos] = -(t[pos] + 1) if keep else None
        return tuple(t)

    return _mine(destroy)


def mk_repair(space, op, own):
    """lns: fill the blanks at random (mode 0), with a fixed digit (1), with the digit to the left + 1 (2) or with the
    removed digit +-1 (3: a local move; needs a destroy operator that keeps the old digit, otherwise like mode 0)."""
    m, mode, fill = space["m"], op["mode"], op["fill"] % space["m"]

    def repair(p, rng):
        r = own if op["own"] else rng
        t = list(p)
        for i, v in enumerate(t):
            if v is None or v < 0:
                if mode == 3 and v is not None:
                    t[i] = (-v - 1 + (1 if r.random() < 0.5 else -1)) % m
                elif mode == 0 or mode == 3:
                    t[i] = r.randrange(m)
                elif mode == 1:
                    t[i] = fill
                else:
                    left = t[i - 1] if i else fill
                    t[i] = (left + 1) % m
        return tuple(t)

    return _mine(repair)


def mk_accept(acc):
    """'improving' | 'accept_all' | 'simulated_annealing' | custom callable.

    {"thr": t}: accept when new < current + t (every improvement is accepted, like the three named rules).
    {"coin": p}: accept with probability p/8 drawn from the solver's rng, whatever the candidate is worth - this
    rule may turn an improving candidate down.  alns records a new best before it asks the rule; lns only looks
    at accepted candidates, so the coin rule is generated for alns only (see LNS_COIN_ACCEPT)."""
    if isinstance(acc, str):
        return acc
    if "coin" in acc:
        p = acc["coin"]

        def coin(cur, new, it, rng):
            return rng.randrange(8) < p

        return _mine(coin)
    thr = acc["thr"]

    def accept(cur, new, it, rng):
        return new < cur + thr

    return _mine(accept)


def mk_crossover(space, op, rng):
    k, mode = space["k"], op["mode"]

    def crossover(p1, p2):
        if mode == 0:  # uniform
            return tuple(p1[i] if rng.random() < 0.5 else p2[i] for i in range(k))
        if mode == 1:  # one point
            cut = rng.randrange(k + 1)
            return tuple(p1[:cut]) + tuple(p2[cut:])
        return tuple(p1) if mode == 2 else tuple(p2)

    return _mine(crossover)


def mk_mutate(space, op, rng):
    k, m, deltas, wrap = space["k"], space["m"], op["deltas"], op["wrap"]

    def mutate(s):
        pos = rng.randrange(k)
        t = list(s)
        t[pos] = _shift(t[pos], deltas[rng.randrange(len(deltas))], m, wrap)
        return tuple(t)

    return _mine(mutate)


# ============================================================================= strategies: shared pieces
SEED = st.one_of(st.integers(0, 2**32 - 1), st.integers(0, 2**32 - 1), st.integers(0, 2**32 - 1), st.integers(0, 2**32 - 1), st.sampled_from([0, 0, 1]))  # seed=0 is falsy: ~13 % of cases
SMALL = st.integers(-3, 3)
SCALE = st.sampled_from([1, 1, 1, 0.5, 0.125])
DELTAS = st.sampled_from([[-1, 1], [-2, -1, 1, 2], [1], [0, 1], [-1, 0, 1], [1, 2, 3]])


def dy(lo, hi, den=8):
    """dyadic rationals k/den in [lo, hi] (exact in binary floating point)."""
    return st.integers(int(lo * den), int(hi * den)).map(lambda k: k / den)


def _chance(draw, pct):
    """True in ~pct% of the cases (measured; an integer-range draw compared with a threshold is visibly skewed by
    Hypothesis' preference for small and boundary values).  Shrinks to False."""
    return draw(st.sampled_from([False] * (100 - pct) + [True] * pct))


NZ = st.sampled_from([-3, -2, -1, 1, 2, 3, -1, 1, 2, 0])  # coefficients: zero (constant objective) in 10%


def _table(draw, r, nmax):
    """3..nmax ints in -r..r.  Each draw is scrambled together with its index because Hypothesis favours small and
    repeated list elements: ties stay frequent, constant tables become rare."""
    raw = draw(st.lists(st.integers(0, 999), min_size=3, max_size=nmax))
    return [(v * 37 + 11 * i) % (2 * r + 1) - r for i, v in enumerate(raw)]


def _iters(draw, hi):
    """1..hi, spread evenly (a plain integers() draw sits below 10 in a third of the cases); shrinks to 1."""
    return (draw(st.integers(0, 9999)) * 37) % hi + 1


CALLABLE = st.sampled_from([0, 1, 2, 3, 4, 5, 6, 5, 6])  # index into CALLABLE_KINDS; the two Evaluator kinds in ~40%
EXACT = st.sampled_from(
    [{"type": "bigint", "exp": 17}, {"type": "bigint", "exp": 17, "neg": True}, {"type": "bigint", "exp": 18}, {"type": "bigint", "exp": 30}]
    + [{"type": "fraction"}] * 2
)


def _value_class(draw, o, keymax):
    """~64% plain values; ~27% exact value classes (big ints beyond 2**53, Fractions; scale forced to 1); ~18% a hard
    penalty: the keys lo..hi are worth +-inf, the whole key range in 40% of those (runs that never leave the infeasible
    region).  pen['dir'] = bad|good is turned into pen['val'] = '-inf'|'inf' by _orient once minimize is known."""
    cls = draw(st.sampled_from(["plain"] * 14 + ["exact"] * 5 + ["pen"] * 3 + ["pen+exact"]))
    if "exact" in cls:
        o["scale"] = 1
        o["exact"] = dict(draw(EXACT))
    if "pen" in cls:
        if _chance(draw, 40):
            lo, hi = 0, keymax
        else:
            thr = draw(st.integers(0, keymax))
            lo, hi = (0, thr) if draw(st.booleans()) else (thr, keymax)
        o["pen"] = {"lo": lo, "hi": hi, "dir": "bad" if _chance(draw, 75) else "good"}


def _orient(desc):
    """Hard penalties point against the direction of optimisation ('bad': -inf when maximising, +inf when minimising)
    or, in a quarter of the cases, with it.  Done after generation because minimize is drawn later than the objective."""
    pen = desc["obj"].get("pen")
    if pen and "dir" in pen:
        bad = pen.pop("dir") == "bad"
        pen["val"] = "inf" if bad == desc["minimize"] else "-inf"
    return desc


@st.composite
def disc_space(draw, tier):
    k = draw(st.sampled_from([1, 2, 2, 3, 3, 4]))
    m = draw(st.sampled_from([2, 3, 4, 4, 5, 5, 6, 6] + ([7, 8] if tier != "quick" else [])))
    mult = draw(st.lists(st.integers(1, 3), min_size=k, max_size=k))
    keymax = sum(mult) * (m - 1)
    kind = draw(st.sampled_from(["table", "table", "quad", "plateau", "saw"]))
    o = {"kind": kind, "mult": mult, "scale": draw(SCALE)}
    if kind == "table":
        r = draw(st.sampled_from([1, 2, 3, 9]))
        o["vals"] = _table(draw, r, 24)
    elif kind == "quad":
        o.update(a=draw(NZ), b=draw(SMALL), c=draw(st.integers(0, keymax)))
    elif kind == "plateau":
        o.update(w=draw(st.integers(2, max(2, keymax // 2))), h=draw(NZ), b=draw(SMALL))
    else:
        o.update(p=draw(st.integers(2, max(2, keymax // 2))), s=draw(NZ), t=draw(NZ))
    _value_class(draw, o, keymax)
    return {"k": k, "m": m}, o


def state_st(space):
    return st.lists(st.integers(0, space["m"] - 1), min_size=space["k"], max_size=space["k"])


@st.composite
def progress_st(draw, max_iter, first=1):
    """None (measured: 40-45% of the cases) or {'interval', 'stop_at', 'idle'}; stop_at lies within the iteration
    range, in a few cases beyond it (the callback is called but never asks for a stop)."""
    if _chance(draw, 55):
        return None
    interval = draw(st.integers(1, 3))
    if _chance(draw, 10):
        stop_at = 10**6
    else:
        hi = max(first, max_iter)
        if _chance(draw, 50):  # runs often end early (no improvement, temperature, convergence): aim low half the time
            hi = min(hi, first + 5)
        stop_at = first + (draw(st.integers(0, 9999)) * 37) % (hi - first + 1)
    return {"interval": interval, "stop_at": stop_at, "idle": draw(st.integers(0, 1))}


COEF = st.sampled_from([-1.0, -0.5, 0.25, 0.5, 1.0, 1.5, 2.0, 1.0, 0.0])  # either sign, zero in 11%
POS = st.sampled_from([0.25, 0.5, 1.0, 1.5, 2.0, 0.0])


@st.composite
def vec_obj(draw, d, kinds=("sphere", "abs", "step", "rast", "vtable", "linear"), exact_ok=False):
    kind = draw(st.sampled_from(list(kinds)))
    o = {"kind": kind, "d": d, "c": draw(st.lists(dy(-4, 4), min_size=d, max_size=d)), "b": draw(dy(-4, 4))}
    if kind in ("sphere", "abs", "linear"):
        o["a"] = draw(st.lists(COEF, min_size=d, max_size=d))
    elif kind == "step":
        o["a"] = draw(st.lists(st.sampled_from([-2.0, -1.0, 1.0, 2.0, 3.0, 1.0, 0.0]), min_size=d, max_size=d))
        o["s"] = draw(st.sampled_from([0.5, 1.0, 2.0, 4.0, 8.0]))
    elif kind == "rast":
        o["a"] = draw(st.lists(POS, min_size=d, max_size=d))
        o["amp"] = draw(st.sampled_from([0.5, 1.0, 3.0, -1.0]))
    else:
        o["a"] = draw(st.lists(COEF, min_size=d, max_size=d))  # surrogate gradient only
        o["s"] = draw(st.sampled_from([1.0, 2.0, 4.0, 8.0]))
        o["vals"] = _table(draw, 3, 16)
        o["b"] = draw(st.sampled_from([1.0, 1.0, 0.5, 0.125]))  # value scale of the table
        if exact_ok and _chance(draw, 40):
            o["exact"] = dict(draw(EXACT))  # table entries as big ints / Fractions instead of floats
    return o


@st.composite
def bounds_st(draw, d, fixed_pct=20):
    """lo < hi dyadic; in fixed_pct% of the cases one or more variables are fixed (lo == hi; the last one in 2/3 of
    them).  fixed_pct=0 for bayesian_opt, whose kernel length scale (hi-lo)/2 divides by zero there (DESIGN 5)."""
    out = []
    for _ in range(d):
        lo = draw(dy(-6, 4))
        w = draw(st.integers(1, 64)) / 8
        out.append([lo, lo + w])
    if fixed_pct and _chance(draw, fixed_pct):
        fixed = [i for i in range(d) if draw(st.booleans())]
        if not fixed or draw(st.sampled_from([True, True, False])):
            fixed.append(d - 1)
        for i in set(fixed):
            out[i][1] = out[i][0]
    return out


@st.composite
def points_in(draw, bounds, n, outside_pct=15):
    """n start points; inside the bounds (dyadic fractions of the width) unless the out-of-bounds class is drawn."""
    outside = _chance(draw, outside_pct)
    pts = []
    for _ in range(n):
        p = []
        for lo, hi in bounds:
            if outside:
                t = draw(st.integers(-4, 12)) / 8
            else:
                t = draw(st.integers(0, 8)) / 8
            p.append(lo + t * (hi - lo))
        pts.append(p)
    return pts, outside


def _inside(p, bounds):
    return all(lo <= x <= hi for x, (lo, hi) in zip(p, bounds))


def _valid_vec(d):
    def ok(s):
        return isinstance(s, (list, tuple)) and len(s) == d and all(_num(v) for v in s)

    return ok


# ============================================================================= anneal
@st.composite
def anneal_cases(draw, tier="quick"):
    space, obj = draw(disc_space(tier))
    max_iter = _iters(draw, 60 if tier == "quick" else 200)
    cooling = draw(
        st.one_of(
            st.sampled_from([0.5, 0.9, 0.99, 0.9995]).map(lambda r: ["rate", r]),
            st.sampled_from([0.7, 0.95, 0.9995]).map(lambda r: ["exp", r]),
            st.sampled_from([1e-8, 0.01, 0.25]).map(lambda t: ["lin", t]),
            st.sampled_from([0.5, 1.0, 10.0]).map(lambda c: ["log", c]),
        )
    )
    return {
        "space": space,
        "obj": obj,
        "initial": draw(state_st(space)),
        "nb": {"deltas": draw(DELTAS), "wrap": draw(st.booleans())},
        "cb_seed": draw(SEED),
        "minimize": not _chance(draw, 50),
        "callable": draw(CALLABLE),
        "temperature": draw(st.sampled_from([0.25, 1.0, 10.0, 1000.0])),
        "cooling": cooling,
        "min_temp": draw(st.sampled_from([1e-8, 1e-8, 0.01, 0.5])),
        "max_iter": max_iter,
        "seed": draw(SEED),
        "progress": draw(progress_st(max_iter)),
    }


def run_anneal(desc, ctx):
    from solvor.anneal import anneal, exponential_cooling, linear_cooling, logarithmic_cooling

    space = desc["space"]
    f = build_disc(desc["obj"])
    start = tuple(desc["initial"])
    ck, cv = desc["cooling"]

    def call(objective, minimize):
        rng = random.Random(desc["cb_seed"])
        cooling = cv if ck == "rate" else exponential_cooling(cv) if ck == "exp" else linear_cooling(cv) if ck == "lin" else logarithmic_cooling(cv)
        cb, interval, ps = mk_progress(desc["progress"])
        res = ctx.call(
            anneal,
            start,
            objective,
            mk_neighbor(space, desc["nb"], rng),
            minimize=minimize,
            temperature=desc["temperature"],
            cooling=cooling,
            min_temp=desc["min_temp"],
            max_iter=desc["max_iter"],
            seed=desc["seed"],
            on_progress=cb,
            progress_interval=interval,
        )
        return res, ps

    ctx.label("cooling-" + ck)
    group1("anneal", ctx, desc, f, call, _valid_state(space), starts=[start])


# ============================================================================= tabu
@st.composite
def tabu_cases(draw, tier="quick"):
    space, obj = draw(disc_space(tier))
    max_iter = _iters(draw, 40 if tier == "quick" else 120)
    return {
        "space": space,
        "obj": obj,
        "initial": draw(state_st(space)),
        "nb": {
            "deltas": draw(DELTAS),
            "wrap": draw(st.booleans()),
            "keep": draw(st.sampled_from([8, 8, 6, 3])),
            "move": draw(st.sampled_from([0, 0, 1, 2])),
            "dead": draw(st.sampled_from([0, 0, 0, 0, 5, 7])),
            "as_list": draw(st.booleans()),
            "stored": _chance(draw, 40),  # stored adjacency table: forces keep = 8 and lists (see run_tabu)
        },
        "cb_seed": draw(SEED),
        "minimize": not _chance(draw, 50),
        "callable": draw(CALLABLE),
        "cooldown": draw(st.integers(1, 6)),
        "max_iter": max_iter,
        "max_no_improve": _iters(draw, 40),
        "seed": draw(SEED),
        "progress": draw(progress_st(max_iter)),
    }


def run_tabu(desc, ctx):
    from solvor.tabu import tabu_search

    space = desc["space"]
    f = build_disc(desc["obj"])
    start = tuple(desc["initial"])
    nb = dict(desc["nb"])
    store = None
    if nb.get("stored"):
        nb.update(keep=8, as_list=True)
        store = {}  # built once per case: all three runs get the same stored list objects

    def call(objective, minimize):
        rng = random.Random(desc["cb_seed"])
        cb, interval, ps = mk_progress(desc["progress"])
        res = ctx.call(
            tabu_search,
            start,
            objective,
            mk_tabu_neighbors(space, nb, rng, store),
            minimize=minimize,
            cooldown=desc["cooldown"],
            max_iter=desc["max_iter"],
            max_no_improve=desc["max_no_improve"],
            seed=desc["seed"],
            on_progress=cb,
            progress_interval=interval,
        )
        return res, ps

    ctx.label("move-kind-%d" % desc["nb"]["move"], desc["nb"]["dead"] and "dead-states", store is not None and "stored-adjacency")
    group1("tabu_search", ctx, desc, f, call, _valid_state(space), starts=[start])


# ============================================================================= tabu on explicit state graphs
def _graph_label(scheme, l):
    return l if scheme == 0 else "m%d" % l if scheme == 1 else (l, "x")


@st.composite
def tabu_graph_cases(draw, tier="quick"):
    """Small explicit state graphs: adj[state] = [[move_label, next_state], ...] with 2-3 move labels shared by all
    states (the tabu list is on labels, so a label used on the way in is tabu everywhere), distinct objective values
    and dead-end states (empty neighbour list).

    family 'trap' (60%): a strictly improving path start -> ... -> mid whose last label t is therefore tabu at mid;
    mid has the tabu move t to `ok` (better than everything on the path: aspiration applies) and a non-tabu move u to
    `good` (better still); `good` and `ok` are dead ends, so `good` is seen exactly once, in the same neighbourhood
    scan as the aspirating move.  Worse "noise" states hang off the path.  family 'descent' (~30%): unconstructed,
    edges mostly lead to better states, the two best states are dead ends (so several improving moves, tabu or
    not, compete in one scan).  family 'random' (~15%): random edges and values."""
    nlab = draw(st.sampled_from([2, 3, 3]))
    scheme = draw(st.integers(0, 2))
    family = draw(st.sampled_from(["trap", "trap", "trap", "descent", "descent", "random"]))
    if family == "trap":
        plen = draw(st.sampled_from([1, 1, 2, 3])) if tier == "quick" else draw(st.integers(1, 5))
        path_labels = [draw(st.integers(0, nlab - 2)) for _ in range(plen)]  # label nlab-1 stays free for `good`
        nnoise = draw(st.integers(0, 3))
        n = plen + 3 + nnoise  # path states 0..plen (mid = plen), ok = plen+1, good = plen+2, then noise
        mid, ok, good = plen, plen + 1, plen + 2
        noise = list(range(plen + 3, n))
        adj = [[] for _ in range(n)]
        for i in range(plen):
            adj[i].append([path_labels[i], i + 1])
        adj[mid].append([path_labels[-1], ok])
        adj[mid].append([nlab - 1, good])
        for v in noise:  # reachable from the path, never better than the path's next state, never leading to `good`
            src = draw(st.integers(0, mid))
            adj[src].append([draw(st.integers(0, nlab - 1)), v])
            for _ in range(draw(st.integers(0, 2))):
                adj[v].append([draw(st.integers(0, nlab - 1)), draw(st.sampled_from(noise + list(range(plen + 1))))])
        # goodness rank (0 = best): good, ok, mid, ..., start, then the noise states
        rank = [0] * n
        rank[good], rank[ok] = 0, 1
        for i in range(plen + 1):
            rank[i] = 2 + (plen - i)
        for j, v in enumerate(noise):
            rank[v] = plen + 3 + j
        start = 0
    elif family == "descent":
        # state v has rank v; edges lead to better states (80%) or anywhere; the best two states are dead ends
        n = draw(st.integers(4, 8 if tier == "quick" else 10))
        adj = [[], []]
        for v in range(2, n):
            deg = draw(st.sampled_from([0, 1, 2, 2, 3, 3]))
            out = []
            for _ in range(deg):
                t = draw(st.integers(0, v - 1)) if _chance(draw, 80) else draw(st.integers(0, n - 1))
                out.append([draw(st.integers(0, nlab - 1)), t])
            adj.append(out)
        rank = list(range(n))
        start = draw(st.integers(n // 2, n - 1))
    else:
        n = draw(st.integers(4, 8 if tier == "quick" else 10))
        adj = []
        for v in range(n):
            deg = draw(st.sampled_from([0, 0, 1, 2, 2, 3]))
            adj.append([[draw(st.integers(0, nlab - 1)), draw(st.integers(0, n - 1))] for _ in range(deg)])
        rank = list(draw(st.permutations(range(n))))
        start = draw(st.integers(0, n - 1))
    # hide the construction order, spread the values (distinct), orient them by minimize/maximize
    perm = list(draw(st.permutations(range(n))))
    step = draw(st.sampled_from([1, 1, 2, 3]))
    off = draw(st.integers(-5, 5))
    minimize = not _chance(draw, 50)
    vals = [0] * n
    adj2 = [[] for _ in range(n)]
    ties = 0 if family == "trap" else draw(st.sampled_from([0, 2, 3, 3]))  # values from 2-3 distinct ints
    for v in range(n):
        r = rank[v] % ties if ties else rank[v]
        vals[perm[v]] = (r if minimize else -r) * step + off
        adj2[perm[v]] = [[l, perm[t]] for l, t in adj[v]]
    for v in range(n):
        if len(adj2[v]) > 1:
            adj2[v] = list(draw(st.permutations(adj2[v])))
    max_iter = _iters(draw, 12 if tier == "quick" else 30)
    obj = {"kind": "graph-table", "vals": vals, "scale": draw(SCALE)}
    _value_class(draw, obj, n - 1)
    return {
        "family": family,
        "n": n,
        "obj": obj,
        "callable": draw(CALLABLE),
        "adj": adj2,
        "nbr": draw(st.sampled_from(["stored", "dict-get", "stored", "fresh", "tuple"])),
        "ties": ties,
        "start": perm[start],
        "scheme": scheme,
        "minimize": minimize,
        "cooldown": draw(st.sampled_from([1, 2, 3, 3, 5, 10])),
        "max_iter": max_iter,
        "max_no_improve": draw(st.sampled_from([1, 2, 5, 100])),
        "seed": draw(SEED),
        "progress": draw(progress_st(max_iter)),
    }


def run_tabu_graph(desc, ctx):
    from solvor.tabu import tabu_search

    n, vals, adj, scheme = desc["n"], desc["obj"]["vals"], desc["adj"], desc["scheme"]
    fin = _finish(lambda i: vals[i], desc["obj"])  # key = state index
    f = _mine(lambda s: fin(s[0]))
    start = (desc["start"],)

    # the adjacency table is built once per case; 'stored' / 'dict-get' hand out the stored list objects themselves
    # (dict-get: the callback is the bound method NBRS.get), 'fresh' copies, 'tuple' returns tuples
    nbr = desc.get("nbr", "fresh")
    table = {(v,): [(_graph_label(scheme, l), (t,)) for l, t in adj[v]] for v in range(n)}
    if nbr == "dict-get":
        neighbors = table.get
    elif nbr == "stored":
        neighbors = _mine(lambda s: table[s])
    elif nbr == "tuple":
        neighbors = _mine(lambda s: tuple(table[s]))
    else:
        neighbors = _mine(lambda s: list(table[s]))

    def valid(s):
        return isinstance(s, tuple) and len(s) == 1 and isinstance(s[0], int) and 0 <= s[0] < n

    def call(objective, minimize):
        cb, interval, ps = mk_progress(desc["progress"])
        res = ctx.call(
            tabu_search,
            start,
            objective,
            neighbors,
            minimize=minimize,
            cooldown=desc["cooldown"],
            max_iter=desc["max_iter"],
            max_no_improve=desc["max_no_improve"],
            seed=desc["seed"],
            on_progress=cb,
            progress_interval=interval,
        )
        return res, ps

    dead = sum(1 for a in adj if not a)
    ctx.label("neighbours-" + nbr, desc.get("ties") and "ties-%d-values" % desc["ties"])
    ctx.label("family-" + desc["family"], "labels-scheme-%d" % scheme, dead and "dead-ends", "dead-ends>=n/3" if 3 * dead >= n else None)
    ctx.size("tabu_graph.states", n)
    group1("tabu_search", ctx, desc, f, call, valid, starts=[start])


# ============================================================================= lns / alns
# lns(accept=<callable>) keeps a candidate as best only after the callable accepted it, so a callable that rejects an
# improving candidate makes lns return something worse than a point it evaluated.  The callable form of `accept` is
# not documented (module docstring: 'improving', 'accept_all', or 'simulated_annealing'), hence outside the generated
# domain for lns; set to True to see it (notes/build/C19.md, "Observed, not asserted").
LNS_COIN_ACCEPT = True


# simulated-annealing acceptance: temperatures on the scale of the objective differences (0.25..8, dyadic) and far above
# it, cooling from abrupt to none - many distinct (start_temp, cooling_rate) pairs, so that the acceptance decisions of
# two runs are compared on schedules that really cool during the run (objective differences range from 1 to ~100)
START_TEMP = st.one_of(dy(0.25, 8), st.integers(1, 64).map(float), st.integers(1, 64).map(float), st.sampled_from([0.5, 5.0, 100.0]))
COOLING_RATE = st.sampled_from([0.5, 0.7, 0.8, 0.9, 0.9, 0.95, 0.95, 0.99, 0.9995])


def accept_st(coin):
    opts = ["improving", "accept_all", "simulated_annealing", "simulated_annealing", "improving", "accept_all"]
    opts += [{"thr": 0}, {"thr": 0.5}, {"thr": 2.5}]
    if coin:
        opts += [{"coin": 0}, {"coin": 3}, {"coin": 6}]
    return st.sampled_from(opts)


@st.composite
def destroy_op(draw):
    return {"n": draw(st.integers(1, 4)), "own": draw(st.booleans()), "keep": _chance(draw, 35)}


@st.composite
def repair_op(draw):
    return {"mode": draw(st.sampled_from([0, 0, 1, 2, 3, 3])), "fill": draw(st.integers(0, 7)), "own": draw(st.booleans())}


@st.composite
def lns_cases(draw, tier="quick"):
    space, obj = draw(disc_space(tier))
    max_iter = _iters(draw, 60 if tier == "quick" else 200)
    d = {
        "space": space,
        "obj": obj,
        "initial": draw(state_st(space)),
        "destroy": draw(destroy_op()),
        "repair": draw(repair_op()),
        "cb_seed": draw(SEED),
        "minimize": not _chance(draw, 50),
        "callable": draw(CALLABLE),
        "accept": draw(accept_st(LNS_COIN_ACCEPT)),
        "start_temp": draw(START_TEMP),
        "cooling_rate": draw(COOLING_RATE),
        "max_iter": max_iter,
        "max_no_improve": _iters(draw, 60),
        "seed": draw(SEED),
        "progress": draw(progress_st(max_iter)),
    }
    return _sa_walk(draw, d, tier, [d["destroy"]], [d["repair"]])


def _sa_walk(draw, d, tier, destroy_ops, repair_ops):
    """Half of the simulated_annealing cases become long annealing walks (like a user's real run): 100-300
    iterations without a no-improvement or on_progress stop, local +-1 moves, a temperature of the size of the objective
    differences that cools noticeably during the run - so dozens of uphill acceptance decisions are taken and a
    schedule that is off (e.g. carried over from an earlier call) shows in the Result."""
    if d["accept"] == "simulated_annealing" and _chance(draw, 50):
        d["sa_walk"] = True
        d["max_iter"] = 100 + (draw(st.integers(0, 9999)) * 37) % (201 if tier == "quick" else 401)
        d["max_no_improve"] = d["max_iter"]
        d["progress"] = None
        d["start_temp"] = draw(st.sampled_from([1.0, 2.0, 3.0, 5.0, 8.0, 13.0, 21.0])) + draw(st.integers(0, 7)) / 8
        d["cooling_rate"] = draw(st.sampled_from([0.9, 0.95, 0.97, 0.98, 0.99]))
        for op in destroy_ops:  # local moves: one or two digits change by +-1, so the walk depends on what was accepted
            op["n"], op["keep"] = min(op["n"], 2), True
        for op in repair_ops:
            op["mode"] = 3
    return d


def _accept_label(acc):
    return "accept-" + (acc if isinstance(acc, str) else "custom-coin" if "coin" in acc else "custom-threshold")


def run_lns(desc, ctx):
    from solvor.lns import lns

    space = desc["space"]
    f = build_disc(desc["obj"])
    start = tuple(desc["initial"])

    # operators are built once per case and reused by all three runs; their own rng is re-seeded per run
    own = random.Random()
    destroy, repair = mk_destroy(space, desc["destroy"], own), mk_repair(space, desc["repair"], own)

    def call(objective, minimize):
        own.seed(desc["cb_seed"])
        cb, interval, ps = mk_progress(desc["progress"])
        res = ctx.call(
            lns,
            start,
            objective,
            destroy,
            repair,
            minimize=minimize,
            accept=mk_accept(desc["accept"]),
            start_temp=desc["start_temp"],
            cooling_rate=desc["cooling_rate"],
            max_iter=desc["max_iter"],
            max_no_improve=desc["max_no_improve"],
            seed=desc["seed"],
            on_progress=cb,
            progress_interval=interval,
        )
        return res, ps

    ctx.label(_accept_label(desc["accept"]), desc.get("sa_walk") and "sa-long-walk")
    group1("lns", ctx, desc, f, call, _valid_state(space), starts=[start])


@st.composite
def alns_cases(draw, tier="quick"):
    space, obj = draw(disc_space(tier))
    max_iter = _iters(draw, 60 if tier == "quick" else 200)
    dops = draw(st.lists(destroy_op(), min_size=1, max_size=3))
    rops = draw(st.lists(repair_op(), min_size=1, max_size=3))
    weights = draw(st.booleans())
    scores = draw(st.sampled_from([None, None, [3.0, 2.0, 1.0], [0.0, 0.0, 0.0], [1.0, 5.0, 0.5]]))
    d = {
        "space": space,
        "obj": obj,
        "initial": draw(state_st(space)),
        "destroy_ops": dops,
        "repair_ops": rops,
        "destroy_weights": draw(st.lists(dy(0.125, 4), min_size=len(dops), max_size=len(dops))) if weights else None,
        "repair_weights": draw(st.lists(dy(0.125, 4), min_size=len(rops), max_size=len(rops))) if weights else None,
        "cb_seed": draw(SEED),
        "minimize": not _chance(draw, 50),
        "callable": draw(CALLABLE),
        "accept": draw(accept_st(True)),
        "start_temp": draw(START_TEMP),
        "cooling_rate": draw(COOLING_RATE),
        "segment_size": draw(st.integers(1, 10)),
        "reaction_factor": draw(st.sampled_from([0.0, 0.1, 0.5, 1.0])),
        "scores": scores,
        "max_iter": max_iter,
        "max_no_improve": _iters(draw, 60),
        "seed": draw(SEED),
        "progress": draw(progress_st(max_iter)),
    }
    return _sa_walk(draw, d, tier, d["destroy_ops"], d["repair_ops"])


def run_alns(desc, ctx):
    from solvor.lns import alns

    space = desc["space"]
    f = build_disc(desc["obj"])
    start = tuple(desc["initial"])

    # operator and weight lists are built once per case and handed, as the same objects, to all three runs
    own = random.Random()
    dops = [mk_destroy(space, op, own) for op in desc["destroy_ops"]]
    rops = [mk_repair(space, op, own) for op in desc["repair_ops"]]
    dw = list(desc["destroy_weights"]) if desc["destroy_weights"] else None
    rw = list(desc["repair_weights"]) if desc["repair_weights"] else None

    def call(objective, minimize):
        own.seed(desc["cb_seed"])
        cb, interval, ps = mk_progress(desc["progress"])
        kw = {}
        if desc["scores"]:
            kw = dict(zip(("score_best", "score_better", "score_accept"), desc["scores"]))
        res = ctx.call(
            alns,
            start,
            objective,
            dops,
            rops,
            minimize=minimize,
            accept=mk_accept(desc["accept"]),
            start_temp=desc["start_temp"],
            cooling_rate=desc["cooling_rate"],
            segment_size=desc["segment_size"],
            reaction_factor=desc["reaction_factor"],
            destroy_weights=dw,
            repair_weights=rw,
            max_iter=desc["max_iter"],
            max_no_improve=desc["max_no_improve"],
            seed=desc["seed"],
            on_progress=cb,
            progress_interval=interval,
            **kw,
        )
        return res, ps

    ctx.label(desc.get("sa_walk") and "sa-long-walk")
    ctx.label(_accept_label(desc["accept"]), "ops-%dx%d" % (len(desc["destroy_ops"]), len(desc["repair_ops"])))
    group1("alns", ctx, desc, f, call, _valid_state(space), starts=[start])


# ============================================================================= evolve
@st.composite
def evolve_cases(draw, tier="quick"):
    space, obj = draw(disc_space(tier))
    max_iter = _iters(draw, 15 if tier == "quick" else 40)
    npop = draw(st.integers(1, 8))
    return {
        "space": space,
        "obj": obj,
        "population": draw(st.lists(state_st(space), min_size=npop, max_size=npop)),
        "crossover": {"mode": draw(st.sampled_from([0, 0, 1, 1, 2, 3]))},
        "mutate": {"deltas": draw(DELTAS), "wrap": draw(st.booleans())},
        "cb_seed": draw(SEED),
        "minimize": not _chance(draw, 50),
        "callable": draw(CALLABLE),
        "elite_size": draw(st.sampled_from([0, 0, 1, 2, 2, npop, npop + 1])),
        "mutation_rate": draw(st.sampled_from([0.0, 0.1, 0.5, 1.0])),
        "adaptive_mutation": draw(st.booleans()),
        "max_iter": max_iter,
        "tournament_k": draw(st.integers(1, 4)),
        "seed": draw(SEED),
        "progress": draw(progress_st(max_iter)),
    }


def run_evolve(desc, ctx):
    from solvor.genetic import evolve

    space = desc["space"]
    f = build_disc(desc["obj"])
    pop = [tuple(p) for p in desc["population"]]

    def call(objective, minimize):
        rng = random.Random(desc["cb_seed"])
        cb, interval, ps = mk_progress(desc["progress"])
        res = ctx.call(
            evolve,
            objective,
            pop,  # the same list object in all three runs
            mk_crossover(space, desc["crossover"], rng),
            mk_mutate(space, desc["mutate"], rng),
            minimize=minimize,
            elite_size=desc["elite_size"],
            mutation_rate=desc["mutation_rate"],
            adaptive_mutation=desc["adaptive_mutation"],
            max_iter=desc["max_iter"],
            tournament_k=desc["tournament_k"],
            seed=desc["seed"],
            on_progress=cb,
            progress_interval=interval,
        )
        return res, ps

    e = desc["elite_size"]
    ctx.label("elite-0" if e == 0 else "elite>=pop" if e >= len(pop) else "elite-some", "pop-%s" % ("1" if len(pop) == 1 else "n"))
    group1("evolve", ctx, desc, f, call, _valid_state(space), starts=pop)


# ============================================================================= differential evolution
@st.composite
def de_cases(draw, tier="quick"):
    d = draw(st.integers(1, 3))
    bounds = draw(bounds_st(d))
    max_iter = _iters(draw, 12 if tier == "quick" else 40)
    psize = draw(st.integers(1, 8))
    eff = max(psize, 4)
    strategies = ["rand/1", "best/1", "rand/1", "best/1", "RAND/1", "Best/1"]
    if eff >= 5:
        strategies += ["best/2", "best/2"]
    if eff >= 6:
        strategies += ["rand/2", "rand/2"]
    init, outside = (None, False)
    if draw(st.booleans()):
        init, outside = draw(points_in(bounds, draw(st.integers(1, eff))))
    return {
        "obj": draw(vec_obj(d, exact_ok=True)),
        "bounds": bounds,
        "minimize": not _chance(draw, 50),
        "callable": draw(CALLABLE),
        "population_size": psize,
        "mutation": draw(dy(0, 2)),
        "crossover": draw(st.sampled_from([0.0, 0.3, 0.7, 1.0])),
        "strategy": draw(st.sampled_from(strategies)),
        "max_iter": max_iter,
        "tol": draw(st.sampled_from([1e-8, 1e-8, 1e-2, 0.0])),
        "seed": draw(SEED),
        "initial_population": init,
        "progress": draw(progress_st(max_iter)),
    }


def run_de(desc, ctx):
    from solvor.differential_evolution import differential_evolution

    f, _ = build_vec(desc["obj"])
    bounds = [tuple(b) for b in desc["bounds"]]
    init = desc["initial_population"]
    init_obj = [list(p) for p in init] if init is not None else None  # built once, shared by all three runs

    def call(objective, minimize):
        cb, interval, ps = mk_progress(desc["progress"])
        res = ctx.call(
            differential_evolution,
            objective,
            bounds,
            minimize=minimize,
            population_size=desc["population_size"],
            mutation=desc["mutation"],
            crossover=desc["crossover"],
            strategy=desc["strategy"],
            max_iter=desc["max_iter"],
            tol=desc["tol"],
            seed=desc["seed"],
            initial_population=init_obj,
            on_progress=cb,
            progress_interval=interval,
        )
        return res, ps

    starts = [p for p in (init or []) if _inside(p, bounds)]
    ctx.label("strategy-" + desc["strategy"].lower(), init and "initial-population", init and len(starts) < len(init) and "start-outside-bounds")
    group1("differential_evolution", ctx, desc, f, call, _valid_vec(len(bounds)), starts=starts, bounds=bounds)


# ============================================================================= particle swarm
@st.composite
def pso_cases(draw, tier="quick"):
    d = draw(st.integers(1, 3))
    bounds = draw(bounds_st(d))
    max_iter = _iters(draw, 12 if tier == "quick" else 40)
    npart = draw(st.integers(1, 6))
    init, outside = (None, False)
    if draw(st.booleans()):
        init, outside = draw(points_in(bounds, draw(st.integers(1, npart))))
    return {
        "obj": draw(vec_obj(d, exact_ok=True)),
        "bounds": bounds,
        "minimize": not _chance(draw, 50),
        "callable": draw(CALLABLE),
        "n_particles": npart,
        "max_iter": max_iter,
        "inertia": draw(dy(0, 1)),
        "inertia_decay": draw(st.one_of(st.none(), dy(0, 1))),
        "cognitive": draw(dy(0, 2)),
        "social": draw(dy(0, 2)),
        "v_max": draw(st.one_of(st.none(), st.none(), dy(0.125, 2), st.just(100.0))),
        "seed": draw(SEED),
        "initial_positions": init,
        "progress": draw(progress_st(max_iter)),
    }


def run_pso(desc, ctx):
    from solvor.particle_swarm import particle_swarm

    f, _ = build_vec(desc["obj"])
    bounds = [tuple(b) for b in desc["bounds"]]
    init = desc["initial_positions"]
    init_obj = [list(p) for p in init] if init is not None else None  # built once, shared by all three runs

    def call(objective, minimize):
        cb, interval, ps = mk_progress(desc["progress"])
        res = ctx.call(
            particle_swarm,
            objective,
            bounds,
            minimize=minimize,
            n_particles=desc["n_particles"],
            max_iter=desc["max_iter"],
            inertia=desc["inertia"],
            inertia_decay=desc["inertia_decay"],
            cognitive=desc["cognitive"],
            social=desc["social"],
            v_max=desc["v_max"],
            seed=desc["seed"],
            initial_positions=init_obj,
            on_progress=cb,
            progress_interval=interval,
        )
        return res, ps

    starts = [p for p in (init or []) if _inside(p, bounds)]
    ctx.label(init and "initial-positions", init and len(starts) < len(init) and "start-outside-bounds", desc["v_max"] == 100.0 and "v_max-huge")
    group1("particle_swarm", ctx, desc, f, call, _valid_vec(len(bounds)), starts=starts, bounds=bounds)


# ============================================================================= nelder-mead
@st.composite
def nm_cases(draw, tier="quick"):
    d = draw(st.integers(1, 3))
    max_iter = _iters(draw, 40 if tier == "quick" else 150)
    return {
        "obj": draw(vec_obj(d, exact_ok=True)),
        "x0": draw(st.lists(dy(-4, 4), min_size=d, max_size=d)),
        "minimize": not _chance(draw, 50),
        "callable": draw(CALLABLE),
        "max_iter": max_iter,
        "tol": draw(st.sampled_from([1e-6, 1e-6, 1e-2, 0.0])),
        "adaptive": draw(st.booleans()),
        "initial_step": draw(st.sampled_from([0.05, 0.5, 1.0, -0.25, 2.0, 1.0, 0.5])),
        "progress": draw(progress_st(max_iter)),
    }


def run_nm(desc, ctx):
    from solvor.nelder_mead import nelder_mead

    f, _ = build_vec(desc["obj"])
    x0 = list(desc["x0"])

    def call(objective, minimize):
        cb, interval, ps = mk_progress(desc["progress"])
        res = ctx.call(
            nelder_mead,
            objective,
            x0,
            minimize=minimize,
            max_iter=desc["max_iter"],
            tol=desc["tol"],
            adaptive=desc["adaptive"],
            initial_step=desc["initial_step"],
            on_progress=cb,
            progress_interval=interval,
        )
        return res, ps

    ctx.label("dim-%d" % len(x0), desc["adaptive"] and "adaptive")
    group1("nelder_mead", ctx, desc, f, call, _valid_vec(len(x0)), starts=[x0])


# ============================================================================= bayesian optimisation (tiny budgets)
@st.composite
def bayes_cases(draw, tier="quick"):
    """Tiny budgets.  Dimension 2-3 in most cases, ei/ucb evenly, acq_restarts mostly 1 (the inner Nelder-Mead runs
    may then all fail to converge, which is when bayesian_opt falls back to a random point), sometimes 2, 3 or the
    default; ~45% linear objectives (monotone: the optimum is on the box boundary and the objective keeps improving
    outside the box, so any evaluated point that escaped the bounds is also the best one and gets returned)."""
    d = draw(st.sampled_from([1, 2, 2, 3, 3, 3, 3]))
    n_initial = draw(st.integers(1, 4))
    restarts = draw(st.sampled_from([1, 1, 1, 1, 2, 3, None]))  # None = the default (6)
    # max_iter counts the initial samples too; extra = model-guided evaluations (0 or -1: initial samples only)
    extras = [1, 2, 3, 4, 5, 3, 4, 5, 0, -1] if restarts is not None else [1, 2, 3]
    extra = draw(st.sampled_from(extras + ([6, 7] if tier != "quick" and restarts is not None else [])))
    max_iter = max(1, n_initial + extra)
    kinds = ("linear", "linear", "linear", "linear", "linear", "sphere", "sphere", "abs", "step", "rast", "vtable")
    return {
        "obj": draw(vec_obj(d, kinds=kinds)),
        "bounds": draw(bounds_st(d, fixed_pct=0)),
        "minimize": not _chance(draw, 50),
        "callable": draw(CALLABLE),
        "max_iter": max_iter,
        "n_initial": n_initial,
        "acquisition": draw(st.sampled_from(["ucb", "ei"])),  # sampled_from leans to the first element
        "kappa": draw(st.sampled_from([0.0, 1.0, 2.0, 2.5])),
        "acq_restarts": restarts,
        "seed": draw(SEED),
        "progress": draw(progress_st(max_iter, first=n_initial + 1)),
    }


def run_bayes(desc, ctx):
    from solvor.bayesian import bayesian_opt

    f, _ = build_vec(desc["obj"])
    bounds = [tuple(b) for b in desc["bounds"]]

    def call(objective, minimize):
        cb, interval, ps = mk_progress(desc["progress"])
        res = ctx.call(
            bayesian_opt,
            objective,
            bounds,
            minimize=minimize,
            max_iter=desc["max_iter"],
            n_initial=desc["n_initial"],
            acquisition=desc["acquisition"],
            kappa=desc["kappa"],
            seed=desc["seed"],
            **({"acq_restarts": desc["acq_restarts"]} if desc["acq_restarts"] is not None else {}),
            on_progress=cb,
            progress_interval=interval,
        )
        return res, ps

    ctx.label("acq-" + desc["acquisition"], desc["max_iter"] <= desc["n_initial"] and "initial-samples-only")
    ctx.label("dim-%d" % len(bounds), "restarts-%s" % (desc["acq_restarts"] or "default"))
    group1("bayesian_opt", ctx, desc, f, call, _valid_vec(len(bounds)), bounds=bounds)


# ============================================================================= group 2: powell, bfgs, lbfgs
@st.composite
def powell_cases(draw, tier="quick"):
    d = draw(st.integers(1, 3))
    max_iter = _iters(draw, 6 if tier == "quick" else 15)
    bounds = draw(bounds_st(d)) if draw(st.booleans()) else None
    if bounds is not None:
        x0 = draw(points_in(bounds, 1, outside_pct=25))[0][0]
    else:
        x0 = draw(st.lists(dy(-4, 4), min_size=d, max_size=d))
    return {
        "obj": draw(vec_obj(d)),
        "x0": x0,
        "bounds": bounds,
        "minimize": not _chance(draw, 50),
        "callable": draw(CALLABLE),
        "max_iter": max_iter,
        "tol": draw(st.sampled_from([1e-6, 1e-6, 1e-2, 0.0])),
        "progress": draw(progress_st(max_iter)),
    }


def run_powell(desc, ctx):
    from solvor.powell import powell

    f, _ = build_vec(desc["obj"])
    x0 = list(desc["x0"])
    bounds = [tuple(b) for b in desc["bounds"]] if desc["bounds"] else None

    def call(objective, minimize):
        cb, interval, ps = mk_progress(desc["progress"])
        res = ctx.call(
            powell,
            objective,
            x0,
            minimize=minimize,
            bounds=bounds if bounds else None,
            max_iter=desc["max_iter"],
            tol=desc["tol"],
            on_progress=cb,
            progress_interval=interval,
        )
        return res, ps

    group2("powell", ctx, desc, f, call, _valid_vec(len(x0)))


@st.composite
def bfgs_cases(draw, tier="quick"):
    d = draw(st.integers(1, 3))
    max_iter = _iters(draw, 15 if tier == "quick" else 40)
    obj = draw(vec_obj(d, kinds=("sphere", "sphere", "abs", "step", "rast", "vtable")))
    obj["gscale"] = draw(st.sampled_from([1.0, 1.0, 1.0, 0.5, 2.0, -1.0]))
    return {
        "solver": draw(st.sampled_from(["bfgs", "lbfgs"])),
        "obj": obj,
        "x0": draw(st.lists(dy(-4, 4), min_size=d, max_size=d)),
        "minimize": not _chance(draw, 50),
        "callable": draw(CALLABLE),
        "m": draw(st.integers(1, 5)),
        "max_iter": max_iter,
        "tol": draw(st.sampled_from([1e-6, 1e-6, 1e-2, 1.0])),
        "progress": draw(progress_st(max_iter)),
    }


def run_bfgs(desc, ctx):
    from solvor.bfgs import bfgs, lbfgs

    f, grad = build_vec(desc["obj"])
    x0 = list(desc["x0"])
    name = desc["solver"]

    def call(objective, minimize):
        cb, interval, ps = mk_progress(desc["progress"])
        kw = dict(minimize=minimize, objective_fn=objective, max_iter=desc["max_iter"], tol=desc["tol"], on_progress=cb, progress_interval=interval)
        if name == "lbfgs":
            res = ctx.call(lbfgs, grad, x0, m=desc["m"], **kw)
        else:
            res = ctx.call(bfgs, grad, x0, **kw)
        return res, ps

    ctx.label(desc["obj"].get("gscale", 1.0) != 1.0 and "inexact-gradient")
    group2(name, ctx, desc, f, call, _valid_vec(len(x0)))


# ============================================================================= registry
def _sub(name, run, strat, quick, thorough, wq=1, wt=4):
    return Sub(name, run, strategy=strat, quick=quick, thorough=thorough, workers_quick=wq, workers_thorough=wt, case_timeout=30.0, wall_quick=80.0, wall_thorough=600.0)


SUBS = [
    _sub("anneal", run_anneal, lambda tier: anneal_cases(tier).map(_orient), 1500, 4000),
    _sub("tabu_search", run_tabu, lambda tier: tabu_cases(tier).map(_orient), 1000, 3000),
    _sub("tabu_graph", run_tabu_graph, lambda tier: tabu_graph_cases(tier).map(_orient), 1500, 4000),
    _sub("lns", run_lns, lambda tier: lns_cases(tier).map(_orient), 1500, 4000),
    _sub("alns", run_alns, lambda tier: alns_cases(tier).map(_orient), 1300, 4000),
    _sub("evolve", run_evolve, lambda tier: evolve_cases(tier).map(_orient), 1200, 3500),
    _sub("differential_evolution", run_de, lambda tier: de_cases(tier), 1200, 3000),
    _sub("particle_swarm", run_pso, lambda tier: pso_cases(tier), 1200, 3000),
    _sub("nelder_mead", run_nm, lambda tier: nm_cases(tier), 900, 3500, wq=2),
    _sub("bayesian_opt", run_bayes, lambda tier: bayes_cases(tier), 250, 600, wq=2, wt=2),
    _sub("powell", run_powell, lambda tier: powell_cases(tier), 500, 1200),
    _sub("bfgs_lbfgs", run_bfgs, lambda tier: bfgs_cases(tier), 1000, 3000),
]
