"""C09 — min-cost flow solvers return feasible flows of minimum cost, agree, and terminate."""
from __future__ import annotations

import itertools

from hypothesis import strategies as st

from .. import budget
from ..harness import Sub, Violation
from ..oracles import flows as F
from .c08 import lab

PROPERTY = "C09"
META = {
    "level": "exploration",
    "rule": (
        "Generated networks (<=7 nodes quick / <=9 thorough, <=16 arcs, capacities 0-4, costs 0-6 or potential-shifted "
        "negative costs without negative cycles; parallel and anti-parallel arcs; uniform random and a cancellation-trap "
        "family; a fifth of the cases with offsets of 1e6/1e9 on the costs, exact in floats) run through min_cost_flow (two-terminal, demand 0..maxflow+2), network_simplex (balanced multi-node "
        "supplies; distinct (u,v) pairs for the full check, parallel arcs as a cost-only class) and both on shared "
        "instances; solve_assignment on integer matrices <=5x5 of either sign. Oracle: harness successive-shortest-path "
        "min-cost flow on an explicit arc list (self-tested against brute force), permutation enumeration for assignment; "
        "validity predicate for integrality/capacity/conservation/cost = sum cost*flow. Termination by a deterministic "
        "step budget. Non-trivial = feasible with demand>=2 and (forward-only greedy is suboptimal, or parallel/"
        "anti-parallel/negative-cost arcs), or INFEASIBLE with 0<maxflow<demand; assignment: non-square or negative or tied."
    ),
    "assumptions": ["reference SSP min-cost flow (cross-checked against brute force in vf.selftest)", "step budget >= 20x observed maximum"],
}

STEP_LIMIT = 2_000_000  # calibration: max observed ~6e3 events per call on the repaired tree (>300x margin)


def _mods():
    import importlib

    return importlib.import_module("solvor.flow"), importlib.import_module("solvor.network_simplex")


@st.composite
def networks(draw, tier="quick"):
    nmax = 9 if tier == "thorough" else 7
    family = draw(st.sampled_from(["uniform", "uniform", "trap", "dense-pairs", "dag-negative", "dag-negative", "tight"]))
    if family == "trap":
        # cheapest path s-a-b-t; detours s~>b and a~>t are dearer; demand 2 forces cancelling a->b
        l1 = draw(st.integers(1, 2))
        l2 = draw(st.integers(1, 2))
        k = draw(st.sampled_from([1, 1, 2, 3]))  # multi-unit main path: a later augmentation cancels only part of its flow
        arcs = [[0, 1, k, draw(st.integers(0, 1))], [1, 2, k, draw(st.integers(0, 1))], [2, 3, k, draw(st.integers(0, 1))]]
        nxt, prev = 4, 0
        for _ in range(l1):
            arcs.append([prev, nxt, draw(st.integers(1, 2)), draw(st.integers(1, 4))])
            prev, nxt = nxt, nxt + 1
        arcs.append([prev, 2, draw(st.integers(1, 2)), draw(st.integers(1, 4))])
        prev = 1
        for _ in range(l2):
            arcs.append([prev, nxt, draw(st.integers(1, 2)), draw(st.integers(1, 4))])
            prev, nxt = nxt, nxt + 1
        arcs.append([prev, 3, draw(st.integers(1, 2)), draw(st.integers(1, 4))])
        n = nxt
        for u, v, c, w in draw(st.lists(st.tuples(st.integers(0, n - 1), st.integers(0, n - 1), st.integers(0, 3), st.integers(0, 6)), max_size=3)):
            if u != v:
                arcs.append([u, v, c, w])
        s, t = 0, 3
    elif family == "dag-negative":
        # acyclic network: any integer costs (zero and negative included) are free of negative cycles; routes whose cost
        # is exactly 0 or negative, found in a late Bellman-Ford pass / pivot, are common here
        n = draw(st.integers(3, min(nmax, 6)))
        m = draw(st.integers(2, 10))
        arcs = []
        for _ in range(m):
            u = draw(st.integers(0, n - 2))
            v = draw(st.integers(u + 1, n - 1))
            arcs.append([u, v, draw(st.integers(1, 3)), draw(st.integers(-3, 4))])
        s, t = 0, n - 1
        if draw(st.integers(0, 3)) == 0:
            s = draw(st.integers(0, n - 2))
            t = draw(st.integers(s + 1, n - 1))
    else:
        n = draw(st.integers(2, nmax))
        m = draw(st.integers(1, 16))
        if family == "tight":  # few arcs, small capacities: supplies built from saturating flows (saturated-everything instances)
            n = draw(st.integers(3, 5))
            m = draw(st.integers(3, 7))
        if family == "dense-pairs":
            n = min(n, 4)
        arcs = [
            [u, v, c, w]
            for u, v, c, w in draw(st.lists(st.tuples(st.integers(0, n - 1), st.integers(0, n - 1), st.integers(0, 4), st.integers(0, 6)), min_size=m, max_size=m))
            if u != v
        ]
        s = draw(st.integers(0, n - 1))
        t = draw(st.integers(0, n - 2))
        if t >= s:
            t += 1
    if family != "dag-negative" and draw(st.integers(0, 2)) == 0:  # negative costs without negative cycles: shift by node potentials
        pot = draw(st.lists(st.integers(0, 4), min_size=n, max_size=n))
        arcs = [[u, v, c, w + pot[u] - pot[v]] for u, v, c, w in arcs]
    offset = draw(st.sampled_from([0, 0, 0, 0, 0, 10**6, 10**9]))
    if offset:  # large cost magnitudes (exact in floats: totals stay far below 2**53); alternatives still differ by a few units,
        # so a tolerance that scales with the cost magnitude (big-M) swallows the last improving pivot
        only_nonneg = draw(st.booleans())
        arcs = [[u, v, c, w + offset if (w >= 0 or not only_nonneg) else w] for u, v, c, w in arcs]
    if draw(st.booleans()):  # half of the cases without parallel arcs (network_simplex's dict can then be checked fully)
        seen, ded = set(), []
        for a in arcs:
            if (a[0], a[1]) not in seen:
                seen.add((a[0], a[1]))
                ded.append(a)
        arcs = ded
    perm = draw(st.permutations(range(n)))
    arcs = [[perm[u], perm[v], c, w] for u, v, c, w in arcs]
    arcs = [list(a) for a in draw(st.permutations(arcs))]
    return {
        "family": family, "huge": bool(offset), "n": n, "arcs": arcs, "s": perm[s], "t": perm[t], "scheme": draw(st.integers(0, 5)), "demand_off": draw(st.integers(-3, 2)), "supply_seed": draw(st.lists(st.integers(-3, 3), min_size=n, max_size=n)),
        "edit": draw(st.one_of(st.none(), st.tuples(st.integers(0, n - 1), st.integers(0, n - 1), st.integers(1, 3), st.integers(0, 4)).map(list))),
        "supply_mode": "from-flow" if family == "tight" else draw(st.sampled_from(["from-flow", "from-flow", "random"])),
        "flow_seed": draw(st.lists(st.sampled_from([4, 4, 4, 0, 1, 2]) if family == "tight" else st.integers(0, 4), min_size=len(arcs), max_size=len(arcs))),
    }


def pooled(arcs):
    cap = {}
    for u, v, c, _ in arcs:
        cap[(u, v)] = cap.get((u, v), 0) + c
    return cap


def cheapest_attribution(arcs, f):
    """Cost of pooled pair flows when each pair fills its cheapest parallel arcs first."""
    total = 0
    by = {}
    for u, v, c, w in arcs:
        by.setdefault((u, v), []).append((w, c))
    for pair, x in f.items():
        for w, c in sorted(by.get(pair, [])):
            y = min(c, x)
            total += y * w
            x -= y
        if x > 0:
            return None
    return total


def forward_only_cost(n, arcs, s, t, demand):
    """Greedy cheapest-path routing that never cancels flow (what a solver without reverse arcs would get)."""
    cap = [a[2] for a in arcs]
    sent = total = 0
    while sent < demand:
        dist = [None] * n
        par = [None] * n
        dist[s] = 0
        for _ in range(n):
            upd = False
            for i, (u, v, _, w) in enumerate(arcs):
                if cap[i] > 0 and dist[u] is not None and (dist[v] is None or dist[u] + w < dist[v]):
                    dist[v], par[v], upd = dist[u] + w, i, True
            if not upd:
                break
        if dist[t] is None:
            return None
        path, v, guard = [], t, 0
        while v != s and guard <= n:
            path.append(par[v])
            v = arcs[par[v]][0]
            guard += 1
        if v != s:
            return None
        b = min([demand - sent] + [cap[i] for i in path])
        for i in path:
            cap[i] -= b
            total += b * arcs[i][3]
        sent += b
    return total


def check_flow(tag, n, arcs, supply, flows, objective, want_cost, L=None, parallel_ok=True):
    idx = {L[i]: i for i in range(n)} if L is not None else None
    cap = pooled(arcs)
    f = {}
    if not isinstance(flows, dict):
        raise Violation(f"{tag}:flow-not-a-dict", repr(flows)[:100])
    for key, x in flows.items():
        try:
            u, v = (idx[key[0]], idx[key[1]]) if idx is not None else key
        except Exception:
            raise Violation(f"{tag}:unknown-arc", repr(key))
        if isinstance(x, bool) or (not isinstance(x, int) and not (isinstance(x, float) and x == int(x))):
            raise Violation(f"{tag}:non-integral-flow", {"arc": [u, v], "f": repr(x)})
        if x <= 0:
            raise Violation(f"{tag}:non-positive-entry", {"arc": [u, v], "f": x})
        if x > cap.get((u, v), 0):
            raise Violation(f"{tag}:capacity", {"arc": [u, v], "f": x, "cap": cap.get((u, v), 0)})
        f[(u, v)] = int(x)
    net = [0] * n
    for (u, v), x in f.items():
        net[u] += x
        net[v] -= x
    if net != list(supply):
        raise Violation(f"{tag}:conservation-or-supply", {"net": net, "supply": list(supply)})
    att = cheapest_attribution(arcs, f)
    if parallel_ok:
        if att is None or abs(objective - att) > 1e-9:
            raise Violation(f"{tag}:cost-not-sum-of-arc-costs", {"objective": objective, "sum": att})
    if abs(objective - want_cost) > 1e-9:
        raise Violation(f"{tag}:cost-not-minimum", {"objective": objective, "min": want_cost})


def run_mcf(desc, ctx, also_ns=False):
    flow_mod, ns_mod = _mods()

    budget.instrument(flow_mod, ns_mod)
    n, s, t = desc["n"], desc["s"], desc["t"]
    arcs = [tuple(a) for a in desc["arcs"]]
    L = [lab(desc["scheme"], i) for i in range(n)]
    mf = F.max_flow_value(n, [(u, v, c) for u, v, c, _ in arcs], s, t)
    demand = max(0, mf + desc["demand_off"])
    supply = [0] * n
    supply[s] += demand
    supply[t] -= demand
    ref = F.min_cost_flow(n, arcs, supply)
    cap = pooled(arcs)
    par = len(cap) < len(arcs)
    anti = any((v, u) in cap for u, v in cap)
    neg = any(w < 0 for *_, w in arcs)
    fo = forward_only_cost(n, arcs, s, t, demand) if ref is not None else None
    needs_cancel = ref is not None and (fo is None or fo > ref[0])
    ctx.label(desc["family"], desc.get("huge") and "huge-costs", par and "parallel", anti and "anti-parallel", neg and "negative-cost", needs_cancel and "needs-cancellation", "feasible" if ref is not None else "infeasible", demand == 0 and "demand-0", demand == mf and demand > 0 and "saturating")
    ctx.size("n", n)
    ctx.size("arcs", len(arcs))
    ctx.nontrivial((ref is not None and demand >= 2 and (needs_cancel or par or anti or neg)) or (ref is None and mf > 0))

    graph = {}
    for u, v, c, w in arcs:
        graph.setdefault(L[u], []).append((L[v], c, w))
    graph.setdefault(L[s], [])
    graph.setdefault(L[t], [])
    try:
        with budget.steps(STEP_LIMIT) as st_:
            res = ctx.call(flow_mod.min_cost_flow, graph, L[s], L[t], demand)
    except budget.StepBudgetExceeded:
        raise Violation("mcf:termination-step-budget", {"limit": STEP_LIMIT})
    ctx.size("steps-mcf", st_.count)
    status = res.status.name
    if ref is None:
        if status != "INFEASIBLE":
            raise Violation("mcf:infeasible-not-reported", {"status": status, "objective": res.objective})
    else:
        if status == "INFEASIBLE":
            raise Violation("mcf:spurious-INFEASIBLE", {"demand": demand, "maxflow": mf})
        if status != "OPTIMAL":
            raise Violation("mcf:unexpected-status", {"status": status})
        check_flow("mcf", n, arcs, supply, res.solution, res.objective, ref[0], L)

    edit = desc.get("edit")
    if edit and not also_ns and edit[0] != edit[1] and edit[0] < n and edit[1] < n and not F.has_negative_cycle(n, arcs + [tuple(edit)]):
        # second call on the SAME graph object after the caller added an arc (only when no negative cycle arises)
        u, v, c, w = edit
        graph.setdefault(L[u], []).append((L[v], c, w))
        arcs2 = arcs + [(u, v, c, w)]
        ref2 = F.min_cost_flow(n, arcs2, supply)
        ctx.label("second-call-after-edit")
        try:
            with budget.steps(STEP_LIMIT):
                res2 = ctx.call(flow_mod.min_cost_flow, graph, L[s], L[t], demand)
        except budget.StepBudgetExceeded:
            raise Violation("mcf@second-call:termination-step-budget", {"limit": STEP_LIMIT})
        if ref2 is None:
            if res2.status.name != "INFEASIBLE":
                raise Violation("mcf@second-call:infeasible-not-reported", {"status": res2.status.name})
        elif res2.status.name != "OPTIMAL":
            raise Violation("mcf@second-call:status", {"status": res2.status.name})
        else:
            check_flow("mcf@second-call", n, arcs2, supply, res2.solution, res2.objective, ref2[0], L)

    if also_ns:
        ns_status, ns_obj = run_ns_on(n, arcs, supply, ctx, ref)
        if ref is not None and status == "OPTIMAL" and ns_status == "OPTIMAL" and abs(ns_obj - res.objective) > 1e-9:
            raise Violation("agree:different-optimal-cost", {"mcf": res.objective, "ns": ns_obj})
        if (status == "INFEASIBLE") != (ns_status == "INFEASIBLE"):
            raise Violation("agree:different-feasibility-verdict", {"mcf": status, "ns": ns_status})


def run_ns_on(n, arcs, supply, ctx, ref):
    _, ns_mod = _mods()
    budget.instrument(ns_mod)
    cap = pooled(arcs)
    par = len(cap) < len(arcs)
    try:
        with budget.steps(STEP_LIMIT) as st_:
            res = ctx.call(ns_mod.network_simplex, n, [tuple(a) for a in arcs], list(supply))
    except budget.StepBudgetExceeded:
        raise Violation("ns:termination-step-budget", {"limit": STEP_LIMIT})
    ctx.size("steps-ns", st_.count)
    status = res.status.name
    if ref is None:
        if status != "INFEASIBLE":
            raise Violation("ns:infeasible-not-reported", {"status": status, "objective": res.objective})
    else:
        if status == "INFEASIBLE":
            raise Violation("ns:spurious-INFEASIBLE", {})
        if status != "OPTIMAL":
            raise Violation("ns:unexpected-status", {"status": status})
        if par:
            # the result dict cannot represent parallel arcs: cost only
            ctx.label("ns-parallel-cost-only")
            if abs(res.objective - ref[0]) > 1e-9:
                raise Violation("ns:cost-not-minimum", {"objective": res.objective, "min": ref[0]})
        else:
            check_flow("ns", n, arcs, supply, res.solution, res.objective, ref[0])
    return status, res.objective


def run_shared(desc, ctx):
    run_mcf(desc, ctx, also_ns=True)


def run_ns(desc, ctx):
    """Multi-source/multi-sink supplies: balanced vector derived from the generated seed."""
    n = desc["n"]
    arcs = [tuple(a) for a in desc["arcs"]]
    if desc.get("supply_mode") == "from-flow":  # net of an arbitrary feasible flow: feasible by construction
        supply = [0] * n
        for (u, v, c, _), x in zip(arcs, desc["flow_seed"]):
            supply[u] += min(c, x)
            supply[v] -= min(c, x)
    else:
        supply = list(desc["supply_seed"])
        supply[desc["s"]] -= sum(supply)  # balance
    ref = F.min_cost_flow(n, arcs, supply)
    cap = pooled(arcs)
    par = len(cap) < len(arcs)
    anti = any((v, u) in cap for u, v in cap)
    neg = any(w < 0 for *_, w in arcs)
    srcs = sum(1 for b in supply if b > 0)
    ctx.label(desc["family"], desc.get("huge") and "huge-costs", par and "parallel", anti and "anti-parallel", neg and "negative-cost", "feasible" if ref is not None else "infeasible", srcs >= 2 and "multi-source", all(b == 0 for b in supply) and "zero-supply")
    ctx.nontrivial((ref is not None and sum(b for b in supply if b > 0) >= 2) or (ref is None and any(c > 0 for *_, c, _ in arcs)))
    run_ns_on(n, arcs, supply, ctx, ref)


@st.composite
def matrices(draw, tier="quick"):
    r = draw(st.integers(1, 5))
    c = draw(st.integers(1, 5))
    pal = draw(st.sampled_from(["wide", "ties", "negative"]))
    el = {"wide": st.integers(-9, 9), "ties": st.sampled_from([0, 1, 2]), "negative": st.integers(-9, -1)}[pal]
    return {"palette": pal, "matrix": draw(st.lists(st.lists(el, min_size=c, max_size=c), min_size=r, max_size=r))}


def run_assignment(desc, ctx):
    flow_mod, _ = _mods()
    budget.instrument(flow_mod)
    M = desc["matrix"]
    r, c = len(M), len(M[0])
    k = min(r, c)
    best = None
    n_best = 0
    if r <= c:
        for cols in itertools.permutations(range(c), r):
            v = sum(M[i][cols[i]] for i in range(r))
            if best is None or v < best:
                best, n_best = v, 1
            elif v == best:
                n_best += 1
    else:
        for rows in itertools.permutations(range(r), c):
            v = sum(M[rows[j]][j] for j in range(c))
            if best is None or v < best:
                best, n_best = v, 1
            elif v == best:
                n_best += 1
    ctx.label(desc["palette"], "square" if r == c else ("wide" if c > r else "tall"), n_best > 1 and "ties")
    ctx.nontrivial(r != c or n_best > 1 or any(x < 0 for row in M for x in row))
    try:
        with budget.steps(STEP_LIMIT) as st_:
            res = ctx.call(flow_mod.solve_assignment, M)
    except budget.StepBudgetExceeded:
        raise Violation("assignment:termination-step-budget", {})
    ctx.size("steps-assign", st_.count)
    a = res.solution
    if res.status.name != "OPTIMAL":
        raise Violation("assignment:status", {"status": res.status.name})
    if not isinstance(a, list) or len(a) != r:
        raise Violation("assignment:shape", repr(a)[:100])
    used = [j for j in a if j != -1]
    if any((not isinstance(j, int)) or j < 0 or j >= c for j in used):
        raise Violation("assignment:column-out-of-range", a)
    if len(used) != k:
        raise Violation("assignment:wrong-number-assigned", {"assigned": len(used), "want": k})
    if len(set(used)) != len(used):
        raise Violation("assignment:column-used-twice", a)
    tot = sum(M[i][j] for i, j in enumerate(a) if j != -1)
    if abs(res.objective - tot) > 1e-9:
        raise Violation("assignment:objective-not-sum", {"objective": res.objective, "sum": tot})
    if tot != best:
        raise Violation("assignment:not-optimal", {"got": tot, "optimum": best})


SUBS = [
    Sub("min_cost_flow", run_mcf, strategy=lambda tier: networks(tier), quick=3000, thorough=8000, workers_quick=4),
    Sub("network_simplex", run_ns, strategy=lambda tier: networks(tier), quick=4000, thorough=10000, workers_quick=4),
    Sub("shared_instances", run_shared, strategy=lambda tier: networks(tier), quick=2000, thorough=6000, workers_quick=4),
    Sub("solve_assignment", run_assignment, strategy=lambda tier: matrices(tier), quick=800, thorough=4000, workers_quick=2),
]
