"""C01 — SAT models are models: every returned assignment satisfies the formula."""
from __future__ import annotations

from .. import budget
from ..gens import cnf
from ..harness import Sub, Violation
from ..oracles import sat_ref

PROPERTY = "C01"
META = {
    "level": "exploration",
    "rule": (
        "CNF formulas from four families (small n<=8 with sparse numbering, clause length 0-5, duplicates, tautologies; "
        "near-threshold 3-SAT n=10-40 with units/binaries mixed in; structured pigeonhole/parity; 'deep' 10-13 variable "
        "enumerations that push >2000 blocking clauses through reduce_db, plus a deterministic 'deep_default' list with all tuning parameters at their defaults so the database is reduced twice) x assumption lists (0-3 literals, may repeat, "
        "contradict, or name an absent variable) x solution_limit, luby_factor, max_restarts, max_conflicts. Oracle = "
        "validity predicate: every returned assignment (solution and each of solutions) makes every clause true under "
        "every completion, agrees with every assumption, solutions pairwise distinct, solution among solutions. "
        "Non-trivial = >=1 model returned after >=1 learned or blocking clause (hook events), or a unit clause next to a "
        "clause of length>=3. Distinct = canonical JSON of the case."
    ),
    "assumptions": ["validity predicate is a direct transcription of 'satisfies every clause'", "SOLVOR_VERIF hook only reports events"],
}


# >= 30x (small: 100x) the maximum observed on the repaired tree over the calibration runs (small 1.2M, threshold 2.2M,
# structured 0.04M, deep 72M events); a genuine endless loop trips any finite limit.
STEP_LIMIT = {"gadget": 20_000_000, "duplicate": 20_000_000, "small": 40_000_000, "threshold": 120_000_000, "structured": 5_000_000, "deep": 1_500_000_000}


def call_sat(desc, ctx, events=None):
    """solve_sat under the deterministic step budget (DESIGN §2.4); StepBudgetExceeded propagates."""
    from solvor import sat

    budget.instrument(sat)
    if events is not None:
        sat._verif_set_sink(lambda *a: events.append(a))
    fam = desc["family"].split("-")[0]
    try:
        with budget.steps(STEP_LIMIT.get(fam, 30_000_000)) as s:
            res = ctx.call(sat.solve_sat, desc["clauses"], assumptions=desc["assumptions"] or None, **desc["opts"])
        ctx.size("steps-" + fam, s.count)
        return res
    finally:
        if events is not None:
            sat._verif_set_sink(None)


def all_empty(desc, v=None):
    cl = desc.get("clauses") if isinstance(desc, dict) else None
    return bool(cl) and all(len(c) == 0 for c in cl)


KNOWN_CLASSES = {"all-clauses-empty": all_empty}


def check_models(desc, res, ctx):
    clauses, ass = desc["clauses"], desc["assumptions"]
    models = []
    if res.solution is not None:
        models.append(("solution", res.solution))
    sols = getattr(res, "solutions", None)
    if sols:
        for i, m in enumerate(sols):
            models.append((f"solutions[{i}]", m))
    for name, m in models:
        if not isinstance(m, dict):
            raise Violation("model:not-a-dict", {"which": name})
        bad = sat_ref.model_ok(clauses, m)
        if bad is not None:
            raise Violation("model:falsifies-clause", {"which": name, "clause": clauses[bad], "model": {str(k): v for k, v in m.items()}})
        for l in ass:
            if m.get(abs(l)) != (l > 0):
                raise Violation("model:disagrees-with-assumption", {"which": name, "assumption": l, "value": m.get(abs(l))})
    if sols:
        seen = set()
        for i, m in enumerate(sols):
            key = tuple(sorted(m.items()))
            if key in seen:
                raise Violation("model:duplicate-in-solutions", {"index": i, "n_solutions": len(sols)})
            seen.add(key)
        if res.solution is not None and tuple(sorted(res.solution.items())) not in seen:
            raise Violation("model:solution-not-in-solutions", {})
        if len(sols) > desc["opts"]["solution_limit"]:
            raise Violation("model:more-than-solution_limit", {"n": len(sols)})
    return len(models)


def run(desc, ctx):
    events = []
    res = call_sat(desc, ctx, events)
    clauses = desc["clauses"]
    learned = sum(1 for e in events if e[0] == "learned" and not e[2])
    blocking = sum(1 for e in events if e[0] == "learned" and e[2])
    restarts = sum(1 for e in events if e[0] == "restart")
    reduced = sum(1 for e in events if e[0] == "reduce_db")
    has_unit = any(len(c) == 1 for c in clauses)
    ctx.label(
        desc["family"],
        has_unit and "has-unit",
        desc["assumptions"] and "has-assumption",
        desc["opts"]["solution_limit"] > 1 and "enumerating",
        restarts and "restarted",
        reduced and "reduce_db-fired",
        learned and "learned",
        blocking and "blocking",
        f"status-{res.status.name}",
    )
    ctx.size("vars", len({abs(l) for c in clauses for l in c}))
    ctx.size("clauses", len(clauses))
    ctx.size("blocking", blocking)
    n_models = check_models(desc, res, ctx)
    ctx.count("models_checked", n_models)
    ctx.nontrivial(n_models >= 1 and (learned + blocking >= 1 or (has_unit and any(len(c) >= 3 for c in clauses))))


def deep_default_cases(tier):
    """Long enumerations with every tuning parameter at its default (luby_factor 100): the clause database is reduced
    twice or more, so what a reduction does to the blocking clauses it kept decides whether a model comes back.
    A pure function of VERIF_SEED (no Hypothesis here: with two examples per worker it mostly draws its simplest case)."""
    import os, random

    rng = random.Random(int(os.environ.get("VERIF_SEED", "1")) * 7919 + 17)
    out = []
    for i in range(4 if tier == "quick" else 16):
        n = 12 if tier == "quick" else rng.choice([12, 13])
        vs = list(range(1, n + 1))
        cl = [list(vs), [-v for v in vs]]
        for _ in range(i % 3):  # 0, 1, 2 extra clauses of 5-6 literals: the model count stays above 3700
            idx = rng.sample(range(n), rng.choice([5, 6]))
            cl.append([vs[j] if rng.random() < 0.5 else -vs[j] for j in idx])
        out.append({"family": "deep", "clauses": cl, "assumptions": [], "opts": {"solution_limit": 10**6, "luby_factor": 100, "max_restarts": 10_000, "max_conflicts": 100_000}})
    return out


SUBS = [
    Sub("mixed", run, strategy=lambda tier: cnf.mixed(tier), quick=800, thorough=8000, workers_quick=4),
    Sub("gadget", run, strategy=lambda tier: cnf.gadget_cnf(), quick=5000, thorough=30000, workers_quick=4),
    Sub("deep", run, strategy=lambda tier: cnf.deep_cnf(12 if tier == "quick" else 10, 13 if tier == "thorough" else 12), quick=1, thorough=12, workers_quick=4, case_timeout=300),
    Sub("deep_default", run, enumerate=deep_default_cases, workers_quick=4, workers_thorough=16, case_timeout=300),
]
AMPLIFY = [("mixed", 15000, 4)]  # (sub-check, executions, parallel copies) for the thorough tier (vf/fuzz.py)
