"""C12 — the Rust and the Python back-end of the nine accelerated graph functions are observably equivalent.

Every case is one JSON description of a valid call (node count, ordered edge list with repetitions, the keyword
arguments).  The function is called four times on fresh copies of the input — backend="python", backend="rust",
backend omitted (default) and backend="auto" — through ctx.call, each result is validated *against the problem*
(reference answers from vf/oracles/graphs_rs.py, exact Fractions) and reduced to its *meaning* (status + the part of
the answer the problem determines uniquely); the four meanings must be equal.  Iterations/evaluations are never
looked at.  The extension is the one built by the runner from VERIF_REPO/rust (vf/shadow.py); before the first case
the module makes sure that this extension is importable from the shadow package, that default/auto resolve to it,
that every one of the nine functions has a registered adapter and (through a counting wrapper around the extension's
entry points) that the rust/default/auto route of each function does reach the Rust kernel: an adapter may answer an
individual input by itself (counted, compared like any other answer), but 30 route calls of a function with not one
kernel call are a harness error (exit 2), as is a missing adapter - python is never silently compared with python.
Every case also draws a call style (all positional / all by keyword under the public function's parameter names /
mixed); an exception raised by some back-ends only is the bucket <fn>:exception-from-some-backends-only.
"""
from __future__ import annotations

import copy
import importlib
import inspect
import math
import os
from collections import Counter
from fractions import Fraction

from hypothesis import strategies as st

from ..harness import Crash, Inconclusive, Sub, Violation
from ..oracles import graphs_rs as G
from .. import budget
from ..shadow import HarnessError

PROPERTY = "C12"
META = {
    "level": "exploration",
    "rule": (
        "One sub-check per accelerated function (floyd_warshall, bellman_ford, dijkstra_edges, bfs_edges, dfs_edges, "
        "kruskal, pagerank_edges, strongly_connected_components_edges, topological_sort_edges). Generated: 1..8 nodes "
        "(quick) / 1..12 (thorough), ordered edge lists over 0..n-1 with 0..2n+2 drawn pairs plus up to 3 planted "
        "repeats / reversals / self loops, shuffled; weights from {0,1,2,3,5,0.5,2.5} (ints and dyadic floats, so every "
        "sum is exact), negative weights either drawn freely (negative cycles likely) or as w+p[u]-p[v] from node "
        "potentials (negative edges, no negative cycle); half of the shortest-path/traversal graphs are an out-tree over a drawn "
        "permutation plus extras (multi-hop answers by construction); floyd_warshall directed and undirected; source and target "
        "none / equal to source / a reachable node (deepest first) / an unreachable node / any node; kruskal with and without allow_forest on sparse, "
        "tree+extra (connected) and few-distinct-weights graphs; topological sort on DAGs (edges oriented along a drawn "
        "permutation, duplicates kept), DAG plus one arbitrary edge, and arbitrary digraphs; SCC on arbitrary and "
        "planted-cycle digraphs; PageRank damping in {0.25,0.5,0.85,0.9}, tol in {1e-3,1e-6,1e-8,1e-10}, max_iter in "
        "{1,2,3,5,10,30,100,1000}. Each of backend=python/rust/default/auto is validated against the reference and the "
        "four meanings (status; distances / visited list / total weight / component partition and count / "
        "feasibility; objective where it carries meaning) must be equal; paths, trees and orders are validated, not "
        "compared verbatim; every case draws a call style (positional / keyword by the documented names / mixed); round-4 families: heavy-dup "
        "(1-4 distinct pairs each listed 2-4 times on 2-6 nodes) for every function, dag-dup for the topological sort, a caller-mirrored "
        "edge layout for undirected floyd_warshall; round-3 families: hairline cycles (total -k*2^-40, 0 or +k*2^-40 on ordinary weights) for bellman_ford / "
        "directed floyd_warshall, large sparse graphs (33..80 nodes, thorough ..140: long paths / deep trees + noise) for every function, "
        "braids (2-3 routes of different length merging before the target) and bundles (1..6 parallel edges per tree edge in decreasing "
        "weight order) for the single-source functions; every call runs under a deterministic step budget; PageRank ||p-r||_1 <= 2*n*tol*d/(1-d)+1e-12. A case is non-trivial when the edge list has a "
        "repeated or an anti-parallel ordered pair, or a negative cycle, or the target is unreachable. Distinct = "
        "canonical JSON of the description."
    ),
    "assumptions": [
        "reference answers of vf/oracles/graphs_rs.py (min-plus closure, relaxation over the pair table, BFS levels, matrix Prim, "
        "reachability closure; each cross-checked against a second implementation in vf.selftest)",
        "the extension under test is the one cargo built from VERIF_REPO/rust in this run (vf/shadow.py); the check refuses to run "
        "(exit 2) when it is not importable from the shadow package, when default/auto do not resolve to it, when an adapter is "
        "not registered or when a rust/default/auto call returns without having called the extension",
        "weights are ints or dyadic floats of small magnitude: float sums in both back-ends are exact, so == is the right comparison",
    ],
}

BACKENDS = ["python", "rust", "default", "auto"]
WHERE = {  # function -> (module, extension entry point the adapter must reach)
    "floyd_warshall": ("solvor.floyd_warshall", "floyd_warshall"),
    "bellman_ford": ("solvor.bellman_ford", "bellman_ford"),
    "dijkstra_edges": ("solvor.dijkstra", "dijkstra"),
    "bfs_edges": ("solvor.bfs", "bfs"),
    "dfs_edges": ("solvor.bfs", "dfs"),
    "kruskal": ("solvor.mst", "kruskal"),
    "pagerank_edges": ("solvor.pagerank", "pagerank"),
    "strongly_connected_components_edges": ("solvor.scc", "strongly_connected_components"),
    "topological_sort_edges": ("solvor.scc", "topological_sort"),
}
INF = float("inf")
# JUMP|BRANCH events allowed per call (vf/budget.py).  >= 100 x the largest count seen on /repo (thorough tier, n <= 140:
# bellman_ford 69 843, pagerank_edges 47 427, topological sort 3 268, scc 2 008, dijkstra 1 984, bfs/dfs 1 811, kruskal 576,
# floyd_warshall 320 = adapter only; evidence sizes "steps-<fn>"), and small enough that a runaway list-building loop
# (the adapter's predecessor walk) is stopped below ~100 MB.
STEP_LIMIT = {
    "floyd_warshall": 1_000_000,
    "bellman_ford": 8_000_000,
    "dijkstra_edges": 3_000_000,
    "bfs_edges": 3_000_000,
    "dfs_edges": 3_000_000,
    "kruskal": 3_000_000,
    "pagerank_edges": 20_000_000,
    "strongly_connected_components_edges": 3_000_000,
    "topological_sort_edges": 3_000_000,
}

_ready = False
_kernel_calls: Counter = Counter()
_route_calls: Counter = Counter()


# ----------------------------------------------------------------------------- is the Rust back-end really there?
def _require_rust():
    """Once per process.  Raises HarnessError unless backend='rust' means the freshly built extension."""
    global _ready
    if _ready:
        return
    import solvor
    import solvor.rust as R

    pkg = os.path.dirname(os.path.abspath(solvor.__file__))
    if not R.rust_available():
        raise HarnessError("C12: solvor._solvor_rust is not importable from the shadow package; refusing to compare python with python")
    ext = R.get_rust_module()
    if not os.path.abspath(getattr(ext, "__file__", "")).startswith(pkg + os.sep):
        raise HarnessError(f"C12: extension loaded from {getattr(ext, '__file__', None)}, not from the shadow package {pkg}")
    for req in (None, "auto", "rust"):
        if R.get_backend(req) != "rust":
            raise HarnessError(f"C12: get_backend({req!r}) does not resolve to rust although the extension is present")
    registry = getattr(R, "_adapters", None)
    if not isinstance(registry, dict):
        raise HarnessError("C12: solvor.rust._adapters (adapter registry) not found; cannot tell whether rust is used")
    missing = [f for f in WHERE if f not in registry]
    if missing:
        raise HarnessError(f"C12: no Rust adapter registered for {missing}; backend='rust' would silently run the Python code")
    for fname, (_, kernel) in WHERE.items():
        orig = getattr(ext, kernel, None)
        if orig is None:
            raise HarnessError(f"C12: extension has no entry point {kernel!r} (needed by {fname})")
        if getattr(orig, "_c12_spy", False):
            continue

        def spy(*a, _orig=orig, _k=kernel, **kw):
            _kernel_calls[_k] += 1
            return _orig(*a, **kw)

        spy._c12_spy = True
        setattr(ext, kernel, spy)  # adapters look the entry point up on the module at call time
    # deterministic step budget on the Python side of every call (adapters + pure-Python algorithms; floyd_warshall is
    # left out: three plain nested loops, nothing that can fail to terminate, and the O(n^3) body would only pay the overhead)
    # (importlib, not attribute access: the package re-exports functions named like their modules, e.g. solvor.bfs)
    names = ["solvor.rust.adapters", "solvor.bellman_ford", "solvor.bfs", "solvor.dijkstra", "solvor.mst", "solvor.pagerank", "solvor.scc", "solvor.utils"]
    budget.instrument(*[importlib.import_module(m) for m in names])
    _ready = True


def _split_call(fn, args, npos):
    """Call style.  npos None: every regular argument positional (as in the repository's tests).  npos = k: the first k
    positional, the others by keyword under the names of the *public* function's signature (inspect.signature follows
    functools.wraps to the documented Python function) - the style of docs/getting-started/performance.md."""
    if npos is None or npos >= len(args):
        return tuple(args), {}
    names = [p.name for p in inspect.signature(fn).parameters.values() if p.kind in (p.POSITIONAL_ONLY, p.POSITIONAL_OR_KEYWORD)]
    if len(names) < len(args):
        raise HarnessError(f"C12: {fn.__name__} has {len(names)} regular parameters, the check passes {len(args)}")
    return tuple(args[:npos]), {names[i]: args[i] for i in range(npos, len(args))}


def _call4(ctx, fname, make_args, kwargs, npos=None):
    """The four calls.  Returns {backend: Result}."""
    _require_rust()
    modname, kernel = WHERE[fname]
    fn = getattr(importlib.import_module(modname), fname)
    out = {}
    mutated = {}
    over = []
    raised = {}
    ctx.label("call-positional" if npos is None else "call-all-keyword" if npos == 0 else "call-mixed")
    for b in BACKENDS:
        kw = dict(kwargs)
        if b != "default":
            kw["backend"] = b
        before = _kernel_calls[kernel]
        args = make_args()
        pristine = copy.deepcopy(args)
        pos, named = _split_call(fn, args, npos)
        try:
            with budget.steps(STEP_LIMIT[fname]) as meter:
                out[b] = ctx.call(fn, *pos, **named, **kw)
        except Crash as c:
            # decided after the loop: an exception from every back-end is a crash, from some only a visible difference
            raised[b] = c
            continue
        except budget.StepBudgetExceeded:
            # e.g. an adapter that walks a cyclic predecessor array for ever (and would eat the memory while doing so)
            over.append(b)
            continue
        except BaseException as e:  # a Rust panic surfaces as pyo3's PanicException (a BaseException)
            if type(e).__name__ == "PanicException":
                raise Violation(f"{fname}:rust-panic", {"backend": b, "message": str(e)[:300]})
            raise
        ctx.size(f"steps-{fname}", meter.count)
        if args != pristine:
            # a back-end that edits the caller's arguments makes itself visible in later calls on the same objects
            mutated[b] = True
        used = _kernel_calls[kernel] - before
        if b == "python":
            if used:
                raise Violation(f"{fname}:python-backend-called-extension", {"backend": b})
        else:
            # An adapter may answer an input by itself (that is still the Rust route and is compared like any other
            # answer); what must not happen is that the route NEVER reaches the extension, i.e. that backend='rust'
            # quietly is the Python implementation.  Decided over the process, not per call.
            _route_calls[fname] += 1
            if not used:
                ctx.count("rust-route-answered-without-kernel-call")
                ctx.label("rust-route-answered-without-kernel-call")
            if _route_calls[fname] >= 30 and _kernel_calls[kernel] == 0:
                raise HarnessError(f"C12: {_route_calls[fname]} calls of {fname} with backend rust/default/auto and none reached the extension; python would be compared with python")
        ctx.count("extension-calls", used)
    if raised:
        if len(raised) == len(BACKENDS):
            raise next(iter(raised.values()))
        raise Violation(
            f"{fname}:exception-from-some-backends-only",
            {"raising": {b: f"{c.exc_type} at {c.where}: {c.msg}" for b, c in raised.items()}, "returned": _showall(out), "call_style": "positional" if npos is None else f"first {npos} positional, rest by keyword"},
        )
    if over:
        if len(over) == len(BACKENDS):
            raise budget.StepBudgetExceeded(fname)  # nobody returns: inconclusive, not a statement about equivalence
        raise Violation(f"{fname}:some-backends-do-not-return-within-the-step-budget", {"not_returning": over, "returned": _showall(out), "step_limit": STEP_LIMIT[fname]})
    if mutated and len(mutated) != len(BACKENDS):
        raise Violation(f"{fname}:arguments-mutated-by-some-backends-only", {"mutating": sorted(mutated), "all": list(BACKENDS)})
    return out


# ----------------------------------------------------------------------------- small helpers
def _status(r):
    return getattr(r.status, "name", str(r.status))


def _show(r):
    sol = r.solution
    if isinstance(sol, (set, frozenset)):
        sol = sorted(sol)
    return {"status": _status(r), "objective": r.objective, "solution": sol}


def _showall(res):
    return {b: _show(r) for b, r in res.items()}


def _num(x):
    """Exact value of a returned number (None for inf)."""
    if isinstance(x, bool) or not isinstance(x, (int, float)):
        raise ValueError(x)
    if isinstance(x, float) and math.isnan(x):
        raise ValueError(x)
    if x == INF:
        return None
    if x == -INF:
        raise ValueError(x)
    return Fraction(x)


def _fnum(q):
    return None if q is None else float(q)


def _same_meaning(fname, res, meanings, names):
    """meanings[b] = (status, part, ...); names = what each further part is called.  First difference names the bucket."""
    ref = meanings["python"]
    names = ("status",) + tuple(names)
    for b in BACKENDS[1:]:
        m = meanings[b]
        if m == ref:
            continue
        i = next((i for i, (x, y) in enumerate(zip(m, ref)) if x != y), min(len(m), len(ref)))
        raise Violation(f"{fname}:{names[min(i, len(names) - 1)]}-differs", {"differs": b, "results": _showall(res)})


def _pair_facts(ctx, n, pairs, weights=None):
    """Labels about the shape of the multigraph; returns True if it has a repeated or anti-parallel pair."""
    cnt = Counter(pairs)
    dup = any(c > 1 for c in cnt.values())
    anti = any(u != v and (v, u) in cnt for u, v in cnt)
    loop = any(u == v for u, v in cnt)
    touched = {x for p in pairs for x in p}
    ctx.label(dup and "duplicate-pair", anti and "anti-parallel-pair", loop and "self-loop", len(touched) < n and "isolated-node",
              not pairs and "no-edges", n == 1 and "n=1", n >= 33 and "n>=33", n > 64 and "n>64")
    if weights is not None:
        byp = {}
        for p, w in zip(pairs, weights):
            byp.setdefault(p, set()).add(w)
        ctx.label(any(len(s) > 1 for s in byp.values()) and "duplicate-pair-different-weights",
                  any(u != v and (v, u) in byp and byp[(v, u)] != s for (u, v), s in byp.items()) and "anti-parallel-different-weights",
                  any(w < 0 for w in weights) and "negative-weight", any(w == 0 for w in weights) and "zero-weight")
    ctx.size("n", n)
    ctx.size("edges", len(pairs))
    return dup or anti


def _check_path(fname, b, res, path, s, t, table):
    """path is a list of vertices from s to t along input edges; returns its cost (cheapest parallel edge per hop)."""
    if not isinstance(path, list) or not path or any(isinstance(x, bool) or not isinstance(x, int) for x in path):
        raise Violation(f"{fname}:path-malformed", {"backend": b, "results": _showall(res)})
    if path[0] != s or path[-1] != t:
        raise Violation(f"{fname}:path-endpoints", {"backend": b, "results": _showall(res)})
    c = G.walk_cost(path, table)
    if c is None:
        raise Violation(f"{fname}:path-uses-non-edge", {"backend": b, "results": _showall(res)})
    return c


def _expect_none(fname, b, res, r, objective, clause):
    if r.solution is not None or r.objective != objective:
        raise Violation(f"{fname}:{clause}", {"backend": b, "expected_objective": objective, "results": _showall(res)})


# ----------------------------------------------------------------------------- strategies
W_POS = [0, 1, 2, 3, 5, 0.5, 2.5]
W_NEG = [-1, -2, -3, -0.5, -2.5]


def _nmax(tier):
    return 12 if tier == "thorough" else 8


def _draw_pairs(draw, n, mmax=None, plant=3, wstrat=None):
    """m drawn pairs (or triples when wstrat is given) in drawn order, plus up to `plant` planted repeats / reversals /
    self loops inserted at drawn positions.  No permutation on top: the list order is already arbitrary and stays shrinkable."""
    node = st.integers(0, n - 1)
    m = draw(st.integers(0, 2 * n + 2 if mmax is None else mmax))
    elem = st.tuples(node, node) if wstrat is None else st.tuples(node, node, wstrat)
    out = [list(p) for p in draw(st.lists(elem, min_size=m, max_size=m))]
    plants = st.tuples(st.sampled_from(["dup", "anti", "loop"]), st.integers(0, 40), st.integers(0, 40))
    for kind, i, pos in draw(st.lists(plants, max_size=plant)):
        if kind == "loop":
            new = [i % n, i % n]
        elif out:
            u, v = out[i % len(out)][:2]
            new = [u, v] if kind == "dup" else [v, u]
        else:
            continue
        if wstrat is not None:
            new.append(draw(wstrat))
        out.insert(pos % (len(out) + 1), new)
    return out


def _shuffled(draw, items):
    return [list(x) for x in draw(st.permutations(items))] if 1 < len(items) <= 40 else items


TINY = 2.0**-40  # ~9.1e-13; k*TINY next to halves and small integers keeps every float sum in both back-ends exact


def _draw_large(draw, tier, wstrat=None, nmax=None, forward_only=False):
    """(n, edges, root): 33..80 nodes (thorough: ..140), sparse.  Over a drawn permutation either up to four long
    directed paths or an out-tree in which every node hangs under one of its four predecessors, plus up to 6 noise
    edges (forward_only: oriented along the permutation, so the graph stays acyclic).  Sizes beyond one machine word of
    a bit set / beyond u8 counters etc. are only reached here; the uniform families stop at 8 (12) nodes."""
    n = draw(st.integers(33, nmax or (140 if tier == "thorough" else 80)))
    perm = draw(st.permutations(range(n)))
    if draw(st.booleans()):
        starts = {0, *draw(st.lists(st.integers(1, n - 1), max_size=3))}
        idx = [(i - 1, i) for i in range(1, n) if i not in starts]
    else:
        offs = draw(st.lists(st.integers(0, 3), min_size=n - 1, max_size=n - 1))
        idx = [(max(i - 1 - offs[i - 1], 0), i) for i in range(1, n)]
    pos = st.integers(0, n - 1)
    for a, b in draw(st.lists(st.tuples(pos, pos), max_size=6)):
        if not forward_only:
            idx.append((a, b))
        elif a != b:
            idx.append((min(a, b), max(a, b)))
    if draw(st.booleans()):
        idx.reverse()
    edges = [[perm[a], perm[b]] for a, b in idx]
    if wstrat is not None:
        ws = draw(st.lists(wstrat, min_size=len(edges), max_size=len(edges)))
        edges = [e + [w] for e, w in zip(edges, ws)]
    return n, edges, perm[0]


def _draw_braid(draw, wstrat=None):
    """(n, edges, (s, t)): 2..3 routes of different lengths (2..5 hops each) from s to a merge node, then a tail of 0..2
    hops to t, plus up to 3 noise edges; nodes relabelled by a drawn permutation, edge list shuffled (the order decides
    which neighbour a search tries first).  The shortest route is one among several, the others reach the same late
    nodes one or two hops later: the shape on which 'first contact' / 'first push' shortcuts of a search go wrong.
    Up to 16 nodes, also in the quick tier."""
    k = draw(st.integers(2, 3))
    lens = draw(st.lists(st.integers(2, 5), min_size=k, max_size=k))
    tail = draw(st.integers(0, 2))
    nxt = 1
    raw = []
    inner = sum(x - 1 for x in lens)
    merge = 1 + inner
    for L in lens:
        prev = 0
        for _ in range(L - 1):
            raw.append((prev, nxt))
            prev = nxt
            nxt += 1
        raw.append((prev, merge))
    prev = merge
    for i in range(tail):
        raw.append((prev, merge + 1 + i))
        prev = merge + 1 + i
    n = merge + 1 + tail
    pos = st.integers(0, n - 1)
    raw += draw(st.lists(st.tuples(pos, pos), max_size=3))
    perm = draw(st.permutations(range(n)))
    edges = [[perm[a], perm[b]] + ([draw(wstrat)] if wstrat is not None else []) for a, b in raw]
    return n, _shuffled(draw, edges), (perm[0], perm[prev])


def _draw_bundles(draw, wstrat):
    """(n, edges, root): an out-tree on 2..5 nodes in which every tree edge is a bundle of 1..6 parallel edges with drawn
    weights, listed in decreasing weight order in two of three cases (each copy then improves on the previous one, so a
    label-correcting search re-pushes the same node again and again), plus up to 3 extra edges; list order is kept."""
    n = draw(st.integers(2, 5))
    perm = draw(st.permutations(range(n)))
    edges = []
    for i in range(1, n):
        j = i - 1 - (draw(st.integers(0, i - 1)) if draw(st.booleans()) else 0)
        k = draw(st.integers(1, 6))
        ws = draw(st.lists(wstrat, min_size=k, max_size=k))
        if draw(st.integers(0, 2)):
            ws.sort(reverse=True)
        edges += [[perm[j], perm[i], w] for w in ws]
    edges += _draw_pairs(draw, n, mmax=3, plant=0, wstrat=wstrat)
    if draw(st.booleans()):
        edges.reverse()
    return n, edges, perm[0]


def _draw_heavy_dup(draw, wstrat=None, forward_only=False):
    """(n, edges, root): 2..6 nodes, 1..4 distinct ordered pairs (forward_only: oriented along a drawn permutation, so the
    graph is a DAG), every pair listed 2..4 times (each copy with its own drawn weight), shuffled.  The edge list is
    longer than any simple graph on n nodes could make it (often > n(n-1)/2 edges) while the graph itself is tiny:
    whatever reasons about len(edges) instead of the set of pairs goes wrong here."""
    n = draw(st.integers(2, 6))
    perm = draw(st.permutations(range(n)))
    pos = st.integers(0, n - 1)
    pairs = []
    for a, b in draw(st.lists(st.tuples(pos, pos), min_size=1, max_size=4)):
        if forward_only:
            if a == b:
                b = (a + 1) % n
            a, b = min(a, b), max(a, b)
        pairs.append((perm[a], perm[b]))
    edges = []
    for u, v in pairs:
        for _ in range(draw(st.integers(2, 4))):
            edges.append([u, v] + ([draw(wstrat)] if wstrat is not None else []))
    return n, _shuffled(draw, edges), perm[0]


def _draw_graph(draw, tier, wstrat=None, reps=1, large_nmax=None):
    """(family, n, edges, root).  uniform: drawn pairs.  backbone: an out-tree over a drawn permutation (every node hangs
    under its predecessor in the permutation or under an earlier one, so multi-hop routes from the root exist by
    construction) plus drawn extra pairs, shuffled; root = first node of the permutation.  braid, bundles (weighted
    only), heavy-dup, large: see _draw_braid, _draw_bundles, _draw_heavy_dup, _draw_large (large: one case in 12*reps+1).
    root is None, a node, or a pair (source, far target) for the braid."""
    base = ["uniform"] * 4 + ["backbone"] * 3 + ["braid"] * 2 + (["bundles"] * 2 if wstrat is not None else ["braid", "uniform"]) + ["heavy-dup"]
    fams = base * reps + ["large"]
    family = draw(st.sampled_from(fams))
    if family == "large":
        n, edges, root = _draw_large(draw, tier, wstrat, large_nmax)
        return family, n, edges, root
    if family == "braid":
        n, edges, root = _draw_braid(draw, wstrat)
        return family, n, edges, root
    if family == "bundles":
        n, edges, root = _draw_bundles(draw, wstrat)
        return family, n, edges, root
    if family == "heavy-dup":
        n, edges, root = _draw_heavy_dup(draw, wstrat)
        return family, n, edges, root
    n = _draw_n(draw, tier)
    if family == "uniform" or n < 3:
        return "uniform", n, _draw_pairs(draw, n, wstrat=wstrat), None
    perm = draw(st.permutations(range(n)))
    edges = []
    for i in range(1, n):
        j = i - 1 - (draw(st.integers(0, i - 1)) if draw(st.booleans()) else 0)
        edges.append([perm[j], perm[i]] + ([draw(wstrat)] if wstrat is not None else []))
    edges += _draw_pairs(draw, n, mmax=n + 2, wstrat=wstrat)
    return family, n, _shuffled(draw, edges), perm[0]


def _draw_hairline(draw, tier):
    """(n, edges, root): a planted cycle through 1..4 nodes whose total weight is -k*2^-40, +k*2^-40 or 0 (k <= 500, i.e.
    |total| between 9e-13 and 4.6e-10) although its edges are ordinary halves and small integers of both signs, plus
    non-negative noise edges.  Whether a negative cycle exists is decided by amounts far below any 'epsilon'; all
    weights are dyadic, so the exact reference and the float arithmetic of both back-ends agree on every sum."""
    n = _draw_n(draw, tier)
    length = draw(st.integers(1, min(n, 4)))
    cyc = list(draw(st.permutations(range(n))))[:length]
    ws = [draw(st.sampled_from(W_POS + W_NEG)) for _ in range(length - 1)]
    total = draw(st.sampled_from([-1, -1, 1, 0])) * draw(st.integers(1, 500)) * TINY
    ws.append(total - sum(ws))
    edges = [[cyc[i], cyc[(i + 1) % length], w] for i, w in enumerate(ws)]
    edges += _draw_pairs(draw, n, mmax=n, wstrat=st.sampled_from(W_POS))
    return n, _shuffled(draw, edges), cyc[0]


def _draw_weighted(draw, tier, mode, reps=2, large_nmax=None):
    """(family, mode, n, edges, root)"""
    if mode == "hairline":
        n, edges, root = _draw_hairline(draw, tier)
        return "hairline", mode, n, edges, root
    wst = st.sampled_from(W_POS + W_POS + W_NEG if mode == "free" else W_POS)
    family, n, edges, root = _draw_graph(draw, tier, wst, reps, large_nmax)
    if mode == "fewneg" and edges:
        for i in draw(st.lists(st.integers(0, len(edges) - 1), min_size=1, max_size=2)):
            edges[i][2] = draw(st.sampled_from(W_NEG))
    if mode == "potential":
        if family == "large":
            mode = "nonneg"  # no potentials on the large graphs (one draw per node for nothing)
        else:
            pot = draw(st.lists(st.integers(0, 3), min_size=n, max_size=n))
            edges = [[u, v, w + pot[u] - pot[v]] for u, v, w in edges]  # ints stay ints, halves stay exact floats
    return family, mode, n, edges, root


def _draw_source(draw, n, root):
    if isinstance(root, tuple):
        root = root[0]
    if root is not None and draw(st.integers(0, 3)):
        return root
    return draw(st.integers(0, n - 1))


def _draw_n(draw, tier):
    return draw(st.one_of(st.integers(2, _nmax(tier)), st.integers(1, _nmax(tier))))


def _draw_target(draw, n, source, edges, root=None):
    """None / the source / a node chosen among the reachable ones / among the unreachable ones / any node.
    (Reachability is computed here so that both classes are produced by construction rather than by luck.)"""
    if isinstance(root, tuple) and source == root[0] and draw(st.integers(0, 3)):
        return root[1]  # the far end the family was built for
    tmode = draw(st.sampled_from(["none", "reachable", "unreachable", "source", "node", "reachable"]))
    if tmode == "none":
        return None
    if tmode == "source":
        return source
    if tmode != "node":
        adj = {}
        for e in edges:
            adj.setdefault(e[0], []).append(e[1])
        seen, order = {source}, [source]
        for u in order:  # breadth first, so `order` lists the reachable nodes by increasing hop count
            for v in adj.get(u, []):
                if v not in seen:
                    seen.add(v)
                    order.append(v)
        # reachable: deepest first (small draws = many hops, which is where path validation matters)
        pool = order[:0:-1] if tmode == "reachable" else [v for v in range(n) if v not in seen]
        if pool:
            return pool[draw(st.integers(0, len(pool) - 1))]
    return draw(st.integers(0, n - 1))


@st.composite
def fw_cases(draw, tier):
    directed = draw(st.booleans())
    if not directed and draw(st.integers(0, 5)) == 0:
        # the caller has symmetrised the list himself: forward edges, then the same edges reversed in the same order -
        # with independently drawn weights, so the two directions of an undirected edge may disagree (the minimum counts)
        n = draw(st.integers(2, 6))
        node = st.integers(0, n - 1)
        fwd = draw(st.lists(st.tuples(node, node, st.sampled_from(W_POS)), min_size=1, max_size=6))
        back = [[v, u, w if draw(st.booleans()) else draw(st.sampled_from(W_POS))] for u, v, w in fwd]
        return {"n": n, "directed": False, "mode": "nonneg", "family": "mirrored-layout", "edges": [list(e) for e in fwd] + back}
    mode = draw(st.sampled_from(["nonneg", "nonneg", "potential", "potential", "fewneg", "free", "hairline"] if directed else ["nonneg", "nonneg", "nonneg", "fewneg"]))
    # large graphs stay <= 40 nodes here: the pure-Python triple loop and the exact all-pairs reference are cubic
    family, mode, n, edges, _ = _draw_weighted(draw, tier, mode, reps=3, large_nmax=40)
    return {"n": n, "directed": directed, "mode": mode, "family": family, "edges": edges}


@st.composite
def bf_cases(draw, tier):
    mode = draw(st.sampled_from(["nonneg", "potential", "potential", "fewneg", "free", "hairline", "hairline"]))
    family, mode, n, edges, root = _draw_weighted(draw, tier, mode)
    s = _draw_source(draw, n, root)
    return {"n": n, "mode": mode, "family": family, "edges": edges, "source": s, "target": _draw_target(draw, n, s, edges, root)}


@st.composite
def dj_cases(draw, tier):
    family, _, n, edges, root = _draw_weighted(draw, tier, "nonneg")
    s = _draw_source(draw, n, root)
    return {"n": n, "family": family, "edges": edges, "source": s, "target": _draw_target(draw, n, s, edges, root)}


@st.composite
def trav_cases(draw, tier):
    family, n, edges, root = _draw_graph(draw, tier)
    s = _draw_source(draw, n, root)
    return {"n": n, "family": family, "edges": edges, "source": s, "target": _draw_target(draw, n, s, edges, root)}


def _binomial_case(draw):
    """Drives a union-by-rank forest to its maximal depth before cycle-closing edges arrive.

    2^k nodes; the level-j edges (weight class j) join blocks of 2^j nodes pairwise, so Kruskal must merge pairs, then
    pairs of pairs, then halves: a rank-k tree with a node k hops from its root (k = 3 needs 8 nodes, which uniform
    graphs on <= 8 nodes essentially never produce).  Then 2..2^k heavier edges inside the block (all of them close a
    cycle; the ones that start at the deepest node are the ones a lazy find() gets wrong), then 1..3 further nodes hanging
    on still heavier edges (kruskal stops after n-1 accepted edges, so without them the cycle-closing edges would
    never be looked at), 0..2 noise edges of any weight class; nodes relabelled by a drawn permutation, edge list
    shuffled, weights = (base + class) * step with step 1 or 0.5.  Up to 11 nodes, also in the quick tier."""
    k = draw(st.sampled_from([3, 3, 3, 2]))
    blk = 2**k
    inblk = st.integers(0, blk - 1)
    tri = []
    for j in range(k):
        size = 2**j
        for a in range(0, blk, 2 * size):
            u = a + draw(st.integers(0, size - 1))
            v = a + size + draw(st.integers(0, size - 1))
            tri.append([u, v, j] if draw(st.booleans()) else [v, u, j])
    tri += [list(t) for t in draw(st.lists(st.tuples(inblk, inblk, st.integers(k, k + 1)), min_size=2, max_size=blk))]
    n = blk
    for _ in range(draw(st.integers(1, 3))):
        host = draw(st.integers(0, n - 1))
        tri.append([host, n, k + 2 + draw(st.integers(0, 1))] if draw(st.booleans()) else [n, host, k + 2 + draw(st.integers(0, 1))])
        n += 1
    anynode = st.integers(0, n - 1)
    tri += [list(t) for t in draw(st.lists(st.tuples(anynode, anynode, st.integers(0, k + 3)), max_size=2))]
    perm = draw(st.permutations(range(n)))
    base = draw(st.integers(-3, 2))
    step = draw(st.sampled_from([1, 1, 0.5]))
    edges = _shuffled(draw, [[perm[u], perm[v], (base + c) * step] for u, v, c in tri])
    return {"n": n, "family": "binomial", "edges": edges, "allow_forest": draw(st.booleans()), "explicit": draw(st.booleans())}


@st.composite
def mst_cases(draw, tier):
    family = draw(st.sampled_from(["sparse", "tree+extra", "tree+extra", "ties", "binomial", "binomial"] * 4 + ["large", "heavy-dup", "heavy-dup"]))
    if family == "heavy-dup":
        n, edges, _ = _draw_heavy_dup(draw, st.sampled_from(W_POS + W_NEG))
        return {"n": n, "family": family, "edges": edges, "allow_forest": draw(st.booleans()), "explicit": draw(st.booleans())}
    if family == "binomial":
        return _binomial_case(draw)
    if family == "large":
        n, edges, _ = _draw_large(draw, tier, st.sampled_from(W_POS + W_NEG))
        return {"n": n, "family": family, "edges": edges, "allow_forest": draw(st.booleans()), "explicit": draw(st.booleans())}
    n = _draw_n(draw, tier)
    if family == "tree+extra":
        perm = draw(st.permutations(range(n)))
        pairs = []
        for i in range(1, n):
            j = draw(st.integers(0, i - 1))
            pairs.append([perm[i], perm[j]] if draw(st.booleans()) else [perm[j], perm[i]])
        pairs += _draw_pairs(draw, n, mmax=n + 2)
    else:
        pairs = _draw_pairs(draw, n, mmax=(n + 1 if family == "sparse" else None))
    pal = [1, 2, 2.5] if family == "ties" else W_POS + W_NEG
    ws = draw(st.lists(st.sampled_from(pal), min_size=len(pairs), max_size=len(pairs)))
    edges = _shuffled(draw, [[u, v, w] for (u, v), w in zip(pairs, ws)])
    # allow_forest: True, False passed explicitly, or omitted (documented default False)
    return {"n": n, "family": family, "edges": edges, "allow_forest": draw(st.booleans()), "explicit": draw(st.booleans())}


@st.composite
def pr_cases(draw, tier):
    pick = draw(st.integers(0, 24))
    if pick == 24:
        n, edges, _ = _draw_large(draw, tier, nmax=64)
        family = "large"
    elif pick >= 22:
        n, edges, _ = _draw_heavy_dup(draw)
        family = "heavy-dup"
    else:
        n = _draw_n(draw, tier)
        edges = _draw_pairs(draw, n)
        family = "uniform"
    return {
        "n": n,
        "family": family,
        "edges": edges,
        "damping": draw(st.sampled_from([0.25, 0.5, 0.85, 0.9])),
        "tol": draw(st.sampled_from([1e-3, 1e-6, 1e-8, 1e-10])),
        "max_iter": draw(st.sampled_from([1, 2, 3, 5, 10, 30, 100, 1000])),
        "defaults": draw(st.sampled_from([0, 0, 0, 0, 0, 1, 2, 4, 3, 7])),  # bit i set => keyword i is omitted (the default is used)
    }


@st.composite
def scc_cases(draw, tier):
    family = draw(st.sampled_from(["uniform", "planted"] * 6 + ["large", "heavy-dup"]))
    if family == "heavy-dup":
        n, pairs, _ = _draw_heavy_dup(draw)
        return {"n": n, "family": family, "edges": pairs}
    if family == "large":  # long paths / a tree with a few arbitrary extra edges: back edges close long cycles
        n, pairs, _ = _draw_large(draw, tier)
        return {"n": n, "family": family, "edges": pairs}
    n = _draw_n(draw, tier)
    if family == "uniform":
        pairs = _draw_pairs(draw, n)
    else:  # blocks of consecutive positions of a permutation, a cycle through each block, forward edges between blocks
        perm = draw(st.permutations(range(n)))
        cuts = sorted(set(draw(st.lists(st.integers(1, max(n - 1, 1)), max_size=3)))) if n > 1 else []
        bounds = [0] + [c for c in cuts if c < n] + [n]
        pairs = []
        for a, b in zip(bounds, bounds[1:]):
            blk = perm[a:b]
            if len(blk) > 1:
                pairs += [[blk[i], blk[(i + 1) % len(blk)]] for i in range(len(blk))]
        for _ in range(draw(st.integers(0, n))):
            i = draw(st.integers(0, n - 1))
            j = draw(st.integers(0, n - 1))
            pairs.append([perm[min(i, j)], perm[max(i, j)]])  # never against the block order (may be a self loop)
    return {"n": n, "family": family, "edges": _shuffled(draw, pairs)}


@st.composite
def topo_cases(draw, tier):
    family = draw(st.sampled_from(["dag", "dag", "dag+1", "uniform"] * 3 + ["dag-dup", "dag-dup", "large"]))
    if family == "dag-dup":  # a tiny DAG whose edge list repeats every edge 2..4 times (more edges than n(n-1)/2, still acyclic)
        n, pairs, _ = _draw_heavy_dup(draw, forward_only=True)
        return {"n": n, "family": family, "edges": pairs}
    if family == "large":  # acyclic in 3 of 4 cases (noise edges oriented along the permutation), else arbitrary noise edges
        n, pairs, _ = _draw_large(draw, tier, forward_only=draw(st.integers(0, 3)) > 0)
        return {"n": n, "family": family, "edges": pairs}
    n = _draw_n(draw, tier)
    if family == "uniform":
        pairs = _draw_pairs(draw, n, mmax=n)
    else:
        perm = draw(st.permutations(range(n)))
        pairs = []
        if n > 1:
            for _ in range(draw(st.integers(0, 2 * n + 2))):
                i = draw(st.integers(0, n - 2))
                j = draw(st.integers(i + 1, n - 1))
                pairs.append([perm[i], perm[j]])
            for i in draw(st.lists(st.integers(0, 40), max_size=2)):  # duplicated edges keep the graph acyclic
                if pairs:
                    pairs.append(list(pairs[i % len(pairs)]))
        if family == "dag+1":
            pairs.append([draw(st.integers(0, n - 1)), draw(st.integers(0, n - 1))])
    return {"n": n, "family": family, "edges": _shuffled(draw, pairs)}


# ----------------------------------------------------------------------------- the nine comparisons
def run_fw(desc, ctx):
    fname = "floyd_warshall"
    n, directed = desc["n"], desc["directed"]
    edges = [tuple(e) for e in desc["edges"]]
    res = _call4(ctx, fname, lambda: (n, list(edges)), {"directed": directed}, desc.get("npos"))
    A = G.apsp(n, edges, directed) if n <= 16 else G.apsp_by_source(n, edges, directed)
    dupanti = _pair_facts(ctx, n, [(u, v) for u, v, _ in edges], [w for *_, w in edges])
    ctx.label("directed" if directed else "undirected", f"mode-{desc['mode']}", f"family-{desc.get('family', 'uniform')}", "negative-cycle" if A is None else "no-negative-cycle")
    ctx.nontrivial(dupanti or A is None)
    meanings = {}
    for b, r in res.items():
        s = _status(r)
        if s == "UNBOUNDED":
            _expect_none(fname, b, res, r, -INF, "unbounded-result-shape")
            meanings[b] = (s, None)
            continue
        D = r.solution
        try:
            assert isinstance(D, list) and len(D) == n and all(isinstance(row, list) and len(row) == n for row in D)
            M = tuple(tuple(_num(x) for x in row) for row in D)
        except (AssertionError, ValueError):
            raise Violation(f"{fname}:matrix-malformed", {"backend": b, "results": _showall(res)})
        meanings[b] = (s, M)
    _same_meaning(fname, res, meanings, ("distances",))
    s, M = meanings["python"]
    if (A is None) != (s == "UNBOUNDED") or (A is not None and (s != "OPTIMAL" or M != tuple(tuple(row) for row in A))):
        raise Violation(f"{fname}:all-backends-differ-from-reference", {"reference": None if A is None else [[_fnum(x) for x in row] for row in A], "results": _showall(res)})
    ctx.label(f"status-{s}")


def _single_source(fname, desc, ctx, res, d, weighted):
    """Shared by bellman_ford, dijkstra_edges (weighted) and bfs_edges (hops): d = reference distances or None (negative cycle)."""
    n, s, t = desc["n"], desc["source"], desc["target"]
    edges = [tuple(e) for e in desc["edges"]]
    table = G.best(edges) if weighted else {(u, v): Fraction(1) for u, v in edges}
    meanings = {}
    for b, r in res.items():
        stt = _status(r)
        if stt == "UNBOUNDED":  # whatever the reference says: the comparison of the meanings names the disagreement
            _expect_none(fname, b, res, r, -INF, "unbounded-result-shape")
            meanings[b] = (stt, None)
        elif d is None:
            meanings[b] = (stt, None)
        elif t is None:
            sol = r.solution
            if weighted:
                try:
                    assert isinstance(sol, dict)
                    got = {k: _num(v) for k, v in sol.items()}
                    assert None not in got.values()
                except (AssertionError, ValueError):
                    raise Violation(f"{fname}:distances-malformed", {"backend": b, "results": _showall(res)})
                meanings[b] = (stt, tuple(sorted(got.items())))
            else:
                meanings[b] = (stt, ("list", tuple(sol)) if isinstance(sol, list) else ("other", repr(sol)))
        elif stt == "INFEASIBLE":
            _expect_none(fname, b, res, r, INF, "infeasible-result-shape")
            meanings[b] = (stt, None)
        else:
            c = _check_path(fname, b, res, r.solution, s, t, table)
            try:
                obj = _num(r.objective)
            except ValueError:
                obj = "bad"
            if obj != c:
                raise Violation(f"{fname}:objective-is-not-the-path-cost", {"backend": b, "path_cost": float(c), "results": _showall(res)})
            meanings[b] = (stt, c)
            ctx.label(len(r.solution) >= 3 and "path-hops>=2")
            if b != "python" and _status(res["python"]) == stt and r.solution != res["python"].solution:
                ctx.label("backends-return-different-paths")
    return meanings


def _target_labels(ctx, desc, d):
    t = desc["target"]
    ctx.label(f"family-{desc.get('family', 'uniform')}")
    unreachable = t is not None and d is not None and d[t] is None
    ctx.label("target-none" if t is None else "target=source" if t == desc["source"] else "target-unreachable" if unreachable else "target-reachable")
    return unreachable


def _judge_single_source(fname, desc, ctx, res, d, weighted, what):
    n, t = desc["n"], desc["target"]
    meanings = _single_source(fname, desc, ctx, res, d, weighted)
    _same_meaning(fname, res, meanings, (what,))
    stt, m = meanings["python"]
    if d is None:
        ok = stt == "UNBOUNDED"
        ref = "negative cycle reachable"
    elif t is None:
        ok = stt == "OPTIMAL" and (
            m == tuple((i, d[i]) for i in range(n) if d[i] is not None) if weighted else m == ("list", tuple(i for i in range(n) if d[i] is not None))
        )
        ref = [_fnum(x) for x in d]
    elif d[t] is None:
        ok = stt == "INFEASIBLE"
        ref = "unreachable"
    else:
        ok = stt == "OPTIMAL" and m == d[t]
        ref = float(d[t])
    if not ok:
        raise Violation(f"{fname}:all-backends-differ-from-reference", {"reference": ref, "results": _showall(res)})
    ctx.label(f"status-{stt}")


def run_bf(desc, ctx):
    fname = "bellman_ford"
    n, s, t = desc["n"], desc["source"], desc["target"]
    edges = [tuple(e) for e in desc["edges"]]
    res = _call4(ctx, fname, lambda: (s, list(edges), n), {} if t is None else {"target": t}, desc.get("npos"))
    d = G.sssp(n, edges, s)
    dupanti = _pair_facts(ctx, n, [(u, v) for u, v, _ in edges], [w for *_, w in edges])
    ctx.label(f"mode-{desc['mode']}", "negative-cycle-reachable" if d is None else "no-reachable-negative-cycle")
    if d is not None and n <= 16 and G.apsp(n, edges) is None:
        ctx.label("negative-cycle-unreachable-from-source")
    unreach = _target_labels(ctx, desc, d)
    ctx.nontrivial(dupanti or d is None or unreach)
    _judge_single_source(fname, desc, ctx, res, d, True, "distances")


def run_dj(desc, ctx):
    fname = "dijkstra_edges"
    n, s, t = desc["n"], desc["source"], desc["target"]
    edges = [tuple(e) for e in desc["edges"]]
    res = _call4(ctx, fname, lambda: (n, list(edges), s), {} if t is None else {"target": t}, desc.get("npos"))
    d = G.sssp(n, edges, s)
    dupanti = _pair_facts(ctx, n, [(u, v) for u, v, _ in edges], [w for *_, w in edges])
    unreach = _target_labels(ctx, desc, d)
    ctx.nontrivial(dupanti or unreach)
    _judge_single_source(fname, desc, ctx, res, d, True, "distances")


def run_bfs(desc, ctx):
    fname = "bfs_edges"
    n, s, t = desc["n"], desc["source"], desc["target"]
    edges = [tuple(e) for e in desc["edges"]]
    res = _call4(ctx, fname, lambda: (n, list(edges), s), {} if t is None else {"target": t}, desc.get("npos"))
    lev = G.hops(n, edges, s)
    d = [None if x is None else Fraction(x) for x in lev]
    dupanti = _pair_facts(ctx, n, edges)
    unreach = _target_labels(ctx, desc, d)
    ctx.nontrivial(dupanti or unreach)
    if t is None:
        ctx.label("visit-order-not-sorted" if _bfs_order(n, edges, s) != sorted(_bfs_order(n, edges, s)) else "visit-order-sorted")
    _judge_single_source(fname, desc, ctx, res, d, False, "visited-list" if t is None else "path-length")


def _bfs_order(n, edges, s):
    adj = [[] for _ in range(n)]
    for u, v in edges:
        adj[u].append(v)
    seen, order = {s}, [s]
    for u in order:
        for v in adj[u]:
            if v not in seen:
                seen.add(v)
                order.append(v)
    return order


def run_dfs(desc, ctx):
    fname = "dfs_edges"
    n, s, t = desc["n"], desc["source"], desc["target"]
    edges = [tuple(e) for e in desc["edges"]]
    res = _call4(ctx, fname, lambda: (n, list(edges), s), {} if t is None else {"target": t}, desc.get("npos"))
    lev = G.hops(n, edges, s)
    reach = [i for i in range(n) if lev[i] is not None]
    dupanti = _pair_facts(ctx, n, edges)
    unreach = _target_labels(ctx, desc, lev)
    ctx.nontrivial(dupanti or unreach)
    table = {(u, v): Fraction(1) for u, v in edges}
    meanings = {}
    for b, r in res.items():
        stt = _status(r)
        if t is None:
            sol = r.solution
            meanings[b] = (stt, ("list", tuple(sol)) if isinstance(sol, list) else ("other", repr(sol)))
        elif stt == "INFEASIBLE":
            _expect_none(fname, b, res, r, INF, "infeasible-result-shape")
            meanings[b] = (stt, None)
        else:
            # any path is acceptable (DFS promises no shortest path): validate it, the objective is its own hop count
            c = _check_path(fname, b, res, r.solution, s, t, table)
            if r.objective != c:
                raise Violation(f"{fname}:objective-is-not-the-path-length", {"backend": b, "results": _showall(res)})
            if len(set(r.solution)) != len(r.solution):
                ctx.label("dfs-path-repeats-a-vertex")
            if c != lev[t]:
                ctx.label("dfs-path-longer-than-shortest")
            meanings[b] = (stt, "a valid path")
            if b != "python" and _status(res["python"]) == stt and r.solution != res["python"].solution:
                ctx.label("backends-return-different-paths")
    _same_meaning(fname, res, meanings, ("visited-list",) if t is None else ("reachability",))
    stt, m = meanings["python"][:2]
    if t is None:
        ok = m == ("list", tuple(reach))
    else:
        ok = (stt == "INFEASIBLE") == (lev[t] is None)
    if not ok:
        raise Violation(f"{fname}:all-backends-differ-from-reference", {"reachable": reach, "results": _showall(res)})
    ctx.label(f"status-{stt}")


def _uf_depth_at_find(n, edges):
    """Generator measurement only: the largest number of parent hops a find() has to walk while Kruskal (stable sort by
    weight, union by rank with ties resolved as 'second root under first', full path compression, stop after n-1
    accepted edges) examines the edges.  >= 3 is the regime where a find() that does not walk to the root goes wrong."""
    parent, rank = list(range(n)), [0] * n
    deepest = accepted = 0

    def find(x):
        nonlocal deepest
        path = []
        while parent[x] != x:
            path.append(x)
            x = parent[x]
        deepest = max(deepest, len(path))
        for y in path:
            parent[y] = x
        return x

    for u, v, _ in sorted(edges, key=lambda e: e[2]):
        a, b = find(u), find(v)
        if a == b:
            continue
        if rank[a] < rank[b]:
            parent[a] = b
        else:
            parent[b] = a
            rank[a] += rank[a] == rank[b]
        accepted += 1
        if accepted == n - 1:
            break
    return deepest


def run_mst(desc, ctx):
    fname = "kruskal"
    n, af = desc["n"], desc["allow_forest"]
    edges = [tuple(e) for e in desc["edges"]]
    res = _call4(ctx, fname, lambda: (n, list(edges)), {"allow_forest": af} if af or desc.get("explicit") else {}, desc.get("npos"))
    wmin, comps = G.msf(n, edges)
    dupanti = _pair_facts(ctx, n, [(u, v) for u, v, _ in edges], [w for *_, w in edges])
    ctx.label(f"family-{desc['family']}", "connected" if comps == 1 else "disconnected", "allow_forest" if af else "tree-only")
    ctx.size("components", comps)
    ctx.nontrivial(dupanti)
    deep = _uf_depth_at_find(n, edges)
    ctx.size("union-find-depth-at-find", deep)
    ctx.label(deep >= 3 and "union-find-depth>=3-when-an-edge-is-examined")
    meanings = {}
    for b, r in res.items():
        stt = _status(r)
        if r.solution is None:
            _expect_none(fname, b, res, r, INF, "infeasible-result-shape")
            meanings[b] = (stt, None, None)
            continue
        out = r.solution
        if not isinstance(out, list):
            raise Violation(f"{fname}:solution-malformed", {"backend": b, "results": _showall(res)})
        try:
            why = G.spanning_forest_ok(n, edges, out)
            total = sum((Fraction(e[2]) for e in out), Fraction(0))
            obj = _num(r.objective)
        except (TypeError, ValueError, IndexError):
            raise Violation(f"{fname}:solution-malformed", {"backend": b, "results": _showall(res)})
        if why:
            raise Violation(f"{fname}:forest-{why}", {"backend": b, "results": _showall(res)})
        if obj != total:
            raise Violation(f"{fname}:objective-is-not-the-edge-sum", {"backend": b, "edge_sum": float(total), "results": _showall(res)})
        meanings[b] = (stt, obj, len(out))
    _same_meaning(fname, res, meanings, ("total-weight", "edge-count"))
    stt, obj, k = meanings["python"]
    want = ("OPTIMAL", wmin, n - 1) if comps == 1 else ("FEASIBLE", wmin, n - comps) if af else ("INFEASIBLE", None, None)
    if (stt, obj, k) != want:
        raise Violation(f"{fname}:all-backends-differ-from-reference", {"reference": [want[0], _fnum(want[1]), want[2]], "results": _showall(res)})
    ctx.label(f"status-{stt}")


def _pagerank_knife_edge(n, edges, d, tol, max_iter):
    """Exact (Fraction) power iteration, multigraph reading, uniform dangling redistribution: is the first
    iteration whose max-norm step is not clearly above tol within 1e-9*tol of tol itself?"""
    D, T = Fraction(d), Fraction(tol)
    out = Counter(u for u, _ in edges)
    s = [Fraction(1, n)] * n
    for _ in range(min(max_iter, 200)):
        new = [(1 - D) / n] * n
        dang = sum(s[u] for u in range(n) if out[u] == 0)
        for u, v in edges:
            new[v] += D * s[u] / out[u]
        new = [x + D * dang / n for x in new]
        step = max(abs(a - b) for a, b in zip(new, s))
        if abs(step - T) <= T / 10**9:
            return True
        if step < T:
            return False
        s = new
    return False


def run_pr(desc, ctx):
    fname = "pagerank_edges"
    n, d, tol, mi = desc["n"], desc["damping"], desc["tol"], desc["max_iter"]
    edges = [tuple(e) for e in desc["edges"]]
    kw = {}
    eff = {"damping": 0.85, "max_iter": 100, "tol": 1e-6}  # documented defaults
    for bit, (k, v) in enumerate([("damping", d), ("max_iter", mi), ("tol", tol)]):
        if not desc["defaults"] >> bit & 1:
            kw[k] = v
            eff[k] = v
    d, tol, mi = eff["damping"], eff["tol"], eff["max_iter"]
    res = _call4(ctx, fname, lambda: (n, list(edges)), kw, desc.get("npos"))
    dupanti = _pair_facts(ctx, n, edges)
    outdeg = Counter(u for u, _ in edges)
    ctx.label(f"family-{desc.get('family', 'uniform')}", any(outdeg[v] == 0 for v in range(n)) and "dangling-node", f"max_iter={mi}" if mi <= 10 else "max_iter>10", f"damping={d}", f"tol={tol}")
    ctx.nontrivial(dupanti)
    vec = {}
    for b, r in res.items():
        sol = r.solution
        ok = isinstance(sol, dict) and sorted(sol) == list(range(n)) and all(isinstance(x, float) and math.isfinite(x) for x in sol.values())
        if not ok:
            raise Violation(f"{fname}:scores-malformed", {"backend": b, "results": _showall(res)})
        if _status(r) not in ("OPTIMAL", "MAX_ITER"):
            raise Violation(f"{fname}:unexpected-status", {"backend": b, "results": _showall(res)})
        vec[b] = [sol[i] for i in range(n)]
    sts = {b: _status(r) for b, r in res.items()}
    ctx.label("statuses-" + "/".join(sorted(set(sts.values()))))
    if len(set(sts.values())) > 1:
        if _pagerank_knife_edge(n, edges, d, tol, mi):
            # the step that decides convergence equals tol up to float rounding (|step - tol| <= 1e-9*tol in exact
            # arithmetic): which side of the strict '<' a back-end lands on depends on summation order, not on meaning
            ctx.label("pagerank-stop-decided-by-float-rounding")
            raise Inconclusive("pagerank status differs at a float knife-edge (step == tol in exact arithmetic)")
        raise Violation(f"{fname}:status-differs", {"statuses": sts, "l1": {b: sum(abs(x - y) for x, y in zip(vec[b], vec["python"])) for b in BACKENDS[1:]}, "results": _showall(res)})
    # Both converged (or both did exactly max_iter rounds of the same update from the same start): the distance bound
    # of two converged power iterations, see oracles.graphs_rs.pagerank_bound.
    bound = G.pagerank_bound(n, d, tol)
    for b in BACKENDS[1:]:
        l1 = sum(abs(x - y) for x, y in zip(vec[b], vec["python"]))
        ctx.size("l1/bound", l1 / bound)
        if l1 > bound:
            raise Violation(f"{fname}:scores-differ-beyond-tolerance", {"differs": b, "l1": l1, "bound": bound, "results": _showall(res)})


def _partition_of(fname, b, res, comps, n):
    try:
        assert isinstance(comps, list) and all(isinstance(c, list) for c in comps)
        flat = [x for c in comps for x in c]
        assert all(isinstance(x, int) and not isinstance(x, bool) for x in flat)
    except AssertionError:
        raise Violation(f"{fname}:components-malformed", {"backend": b, "results": _showall(res)})
    if sorted(flat) != list(range(n)) or any(not c for c in comps):
        raise Violation(f"{fname}:not-a-partition-of-the-nodes", {"backend": b, "results": _showall(res)})
    return frozenset(frozenset(c) for c in comps)


def run_scc(desc, ctx):
    fname = "strongly_connected_components_edges"
    n = desc["n"]
    edges = [tuple(e) for e in desc["edges"]]
    res = _call4(ctx, fname, lambda: (n, list(edges)), {}, desc.get("npos"))
    want = frozenset(G.scc_of(n, edges))
    dupanti = _pair_facts(ctx, n, edges)
    ctx.label(f"family-{desc['family']}", any(len(c) >= 3 for c in want) and "scc-size>=3", len(want) == n and "all-singletons", len(want) == 1 and n > 1 and "one-component")
    ctx.size("components", len(want))
    ctx.nontrivial(dupanti)
    meanings = {}
    for b, r in res.items():
        part = _partition_of(fname, b, res, r.solution, n)
        where = {x: i for i, c in enumerate(r.solution) for x in c}
        for u, v in edges:  # sinks first: an edge between different components points to an earlier one
            if where[u] < where[v]:
                raise Violation(f"{fname}:order-not-sinks-first", {"backend": b, "edge": [u, v], "results": _showall(res)})
        if r.objective != len(r.solution):
            raise Violation(f"{fname}:objective-is-not-the-component-count", {"backend": b, "results": _showall(res)})
        meanings[b] = (_status(r), part, len(r.solution))
    _same_meaning(fname, res, meanings, ("partition", "component-count"))
    if meanings["python"][1] != want:
        raise Violation(f"{fname}:all-backends-differ-from-reference", {"reference": sorted(sorted(c) for c in want), "results": _showall(res)})


def run_topo(desc, ctx):
    fname = "topological_sort_edges"
    n = desc["n"]
    edges = [tuple(e) for e in desc["edges"]]
    res = _call4(ctx, fname, lambda: (n, list(edges)), {}, desc.get("npos"))
    dag = G.acyclic(n, edges)
    dupanti = _pair_facts(ctx, n, edges)
    ctx.label(f"family-{desc['family']}", "acyclic" if dag else "cyclic")
    ctx.nontrivial(dupanti)
    meanings = {}
    for b, r in res.items():
        stt = _status(r)
        if r.solution is None:
            meanings[b] = (stt, False, r.objective)
            continue
        order = r.solution
        if not isinstance(order, list) or any(isinstance(x, bool) or not isinstance(x, int) for x in order) or sorted(order) != list(range(n)):
            raise Violation(f"{fname}:order-is-not-a-permutation", {"backend": b, "results": _showall(res)})
        pos = {x: i for i, x in enumerate(order)}
        for u, v in edges:
            if pos[u] >= pos[v]:
                raise Violation(f"{fname}:edge-points-backward", {"backend": b, "edge": [u, v], "results": _showall(res)})
        meanings[b] = (stt, True, r.objective)
    _same_meaning(fname, res, meanings, ("feasibility", "objective"))
    stt, feasible, obj = meanings["python"]
    if feasible != dag or stt != ("OPTIMAL" if dag else "INFEASIBLE"):
        raise Violation(f"{fname}:all-backends-differ-from-reference", {"acyclic": dag, "results": _showall(res)})
    ctx.label(f"status-{stt}")


# call style: all regular arguments positional (None), all by keyword (0), or the first k positional and the rest by keyword
_NPOS = st.sampled_from([None, None, None, 0, 0, 1, 2])


def _styled(cases):
    return lambda tier: st.tuples(cases(tier), _NPOS).map(lambda t: {**t[0], "npos": t[1]})


SUBS = [
    Sub("floyd_warshall", run_fw, strategy=_styled(fw_cases), quick=1500, thorough=2500, workers_quick=2),
    Sub("bellman_ford", run_bf, strategy=_styled(bf_cases), quick=1500, thorough=2500, workers_quick=2),
    Sub("dijkstra_edges", run_dj, strategy=_styled(dj_cases), quick=1500, thorough=2500, workers_quick=2),
    Sub("bfs_edges", run_bfs, strategy=_styled(trav_cases), quick=1500, thorough=2500, workers_quick=2),
    Sub("dfs_edges", run_dfs, strategy=_styled(trav_cases), quick=1500, thorough=2500, workers_quick=2),
    Sub("kruskal", run_mst, strategy=_styled(mst_cases), quick=1500, thorough=2500, workers_quick=2),
    Sub("pagerank_edges", run_pr, strategy=_styled(pr_cases), quick=1500, thorough=2500, workers_quick=2),
    Sub("strongly_connected_components_edges", run_scc, strategy=_styled(scc_cases), quick=1500, thorough=2500, workers_quick=2),
    Sub("topological_sort_edges", run_topo, strategy=_styled(topo_cases), quick=1500, thorough=2500, workers_quick=2),
]
