"""Hypothesis strategies for CP model descriptions (format: vf/oracles/cp_sem.py)."""
from __future__ import annotations

import os

from hypothesis import strategies as st

NAMES = ["a", "b", "c", "d", "e", "f"]


def _expr(names, depth):
    leaf = st.one_of(
        st.sampled_from(names).map(lambda n: ["var", n]),
        st.sampled_from(names).map(lambda n: ["var", n]),
        st.integers(-4, 6).map(lambda k: ["const", k]),
    )
    if depth == 0:
        return leaf
    sub = _expr(names, depth - 1)
    k = st.integers(-3, 3)
    kc = st.integers(-4, 6)
    # (defined before use in `cancel` below)
    cancel = st.one_of(  # constants and terms that cancel EXACTLY (folding / normalisation slips show only there)
        st.tuples(kc, sub).map(lambda t: ["add", ["rsub", t[0], t[1]], ["const", -t[0]]]),   # (k - e) - k
        st.tuples(kc, sub).map(lambda t: ["sub", ["radd", t[0], t[1]], ["const", t[0]]]),    # (k + e) - k
        st.tuples(kc, sub).map(lambda t: ["add", ["add", t[1], ["const", t[0]]], ["const", -t[0]]]),
        sub.map(lambda e: ["sub", e, e]),                                                      # e - e
        st.tuples(sub, sub).map(lambda t: ["sub", ["add", t[0], t[1]], ["add", t[1], t[0]]]),  # (a + b) - (b + a)
        st.tuples(sub, k).map(lambda t: ["add", ["mul", t[0], t[1]], ["mul", t[0], -t[1]]]),   # k*e + (-k)*e
    )
    return st.one_of(
        leaf,
        cancel,
        st.tuples(sub, sub).map(lambda t: ["add", t[0], t[1]]),
        st.tuples(sub, sub).map(lambda t: ["sub", t[0], t[1]]),
        st.tuples(sub, k).map(lambda t: ["mul", t[0], t[1]]),
        st.tuples(k, sub).map(lambda t: ["rmul", t[0], t[1]]),
        st.tuples(kc, sub).map(lambda t: ["rsub", t[0], t[1]]),
        st.tuples(kc, sub).map(lambda t: ["radd", t[0], t[1]]),
    )


@st.composite
def _rel(draw, names):
    shape = draw(st.sampled_from(["var-var", "var-const", "const-var", "linear", "linear", "linear"]))
    op = draw(st.sampled_from(["==", "!="]))
    if shape == "var-var":
        return ["rel", op, ["var", draw(st.sampled_from(names))], ["var", draw(st.sampled_from(names))]]
    if shape == "var-const":
        return ["rel", op, ["var", draw(st.sampled_from(names))], ["const", draw(st.integers(-3, 5))]]
    if shape == "const-var":
        return ["rel", op, ["const", draw(st.integers(-3, 5))], ["var", draw(st.sampled_from(names))]]
    op = draw(st.sampled_from(["==", "!=", "!="]))  # random linear equalities are mostly unsatisfiable: lean to !=
    return ["rel", op, draw(_expr(names, 2)), draw(_expr(names, 1))]


@st.composite
def _vars(draw, n, lo=-3, hi=3, wmax=4):
    out = []
    for i in range(n):
        lb = draw(st.integers(lo, hi))
        out.append([NAMES[i], lb, lb + draw(st.integers(0, wmax))])
    return out


@st.composite
def _subset(draw, names, kmin, kmax):
    k = draw(st.integers(min(kmin, len(names)), min(kmax, len(names))))
    return list(draw(st.permutations(names))[:k])


@st.composite
def model(draw, for_tv=False):
    """for_tv=True keeps the product of domains small enough to enumerate every assignment (C06)."""
    flavour = draw(st.sampled_from(["dfs-native", "dfs-native", "needle", "needle", "needle", "sums", "circuit", "no_overlap", "cumulative", "mixed"]))
    if os.environ.get("CP_FLAVOUR"):  # experiments only
        flavour = os.environ["CP_FLAVOUR"]
    cons = []
    if flavour == "needle":
        # a hidden target assignment t; every constraint holds at t, most are disequalities that cut away other
        # assignments: few solutions, so the DFS has to fail in first-tried branches and recover in siblings
        n = draw(st.integers(2, 4))
        vs = draw(_vars(n, -1, 1, 2))
        vs = [[nm, lb, max(ub, lb + 1)] for nm, lb, ub in vs]
        names = [v[0] for v in vs]
        t = {nm: draw(st.integers(lb, ub)) for nm, lb, ub in vs}
        for _ in range(draw(st.integers(2, 6))):
            kind = draw(st.sampled_from(["ne-var", "ne-diff", "ne-sum", "ne-const", "eq-lin"]))
            x = draw(st.sampled_from(names))
            y = draw(st.sampled_from([m for m in names if m != x]))
            if kind == "ne-var":
                if t[x] != t[y]:
                    cons.append(["rel", "!=", ["var", x], ["var", y]])
            elif kind == "ne-diff":
                k = draw(st.integers(-2, 2))
                if t[x] - t[y] != k:
                    lhs = ["sub", ["var", x], ["var", y]]
                    cons.append(["rel", "!=", lhs, ["const", k]] if draw(st.booleans()) else ["rel", "!=", ["var", x], ["add", ["var", y], ["const", k]]])
            elif kind == "ne-sum":
                k = draw(st.integers(-2, 3))
                if t[x] + t[y] != k:
                    cons.append(["rel", "!=", ["add", ["var", x], ["var", y]], ["const", k]])
            elif kind == "ne-const":
                k = draw(st.integers(-1, 3))
                if t[x] != k:
                    cons.append(["rel", "!=", ["var", x], ["const", k]])
            else:
                c1 = draw(st.sampled_from([1, 1, 2, -1]))
                cons.append(["rel", "==", ["add", ["mul", ["var", x], c1], ["var", y]], ["const", c1 * t[x] + t[y]]])
        if not cons:
            cons.append(["rel", "!=", ["var", names[0]], ["const", t[names[0]] + 1]])
    elif flavour == "circuit":
        n = draw(st.integers(2, 5 if not for_tv else 4))
        vs = []
        for i in range(n):
            lb = draw(st.sampled_from([0, 0, 0, -1, 1]))
            ub = draw(st.sampled_from([n - 1, n - 1, n - 1, n, n - 2]))
            vs.append([NAMES[i], min(lb, ub), max(lb, ub)])
        names = [v[0] for v in vs]
        cons.append(["circuit", list(draw(st.permutations(names))) if draw(st.booleans()) else names])
        for _ in range(draw(st.integers(0, 1))):
            cons.append(draw(_rel(names)))
    elif flavour == "cumulative":
        crowded = draw(st.sampled_from([True, False, False, "disjunctive"]))
        if crowded == "disjunctive":
            # every demand fits alone, no two fit together (a unit resource) and some tasks have zero duration:
            # a zero-length task is never active, so it may sit strictly inside another task's window
            n = draw(st.integers(2, 4))
            cap = draw(st.integers(1, 3))
            vs = draw(_vars(n, 0, 2, 2))
            names = [v[0] for v in vs]
            durs = [draw(st.sampled_from([0, 0, 1, 2, 3])) for _ in names]
            dems = [draw(st.integers(cap // 2 + 1, cap)) for _ in names]
            cons.append(["cumulative", names, durs, dems, cap])
        elif crowded:
            # many (task, start) candidates per time point: > 10 literals at the busiest instant
            n = draw(st.integers(4, 6 if not for_tv else 4))
            w = 3 if n == 4 else 2
            vs = [[NAMES[i], 0, w] for i in range(n)]
            names = [v[0] for v in vs]
            cons.append(["cumulative", names, [draw(st.integers(2, 3)) for _ in names], [draw(st.sampled_from([1, 1, 2])) for _ in names], draw(st.integers(2, 3))])
        else:
            n = draw(st.integers(1, 6 if not for_tv else 4))
            vs = draw(_vars(n, 0, 2, 3 if n <= 4 else 2))
            names = [v[0] for v in vs]
            cons.append(["cumulative", names, [draw(st.integers(0, 3)) for _ in names], [draw(st.integers(0, 3)) for _ in names], draw(st.integers(1, 4))])
        for _ in range(draw(st.integers(0, 1))):
            cons.append(draw(_rel(names)))
    elif flavour == "no_overlap":
        n = draw(st.integers(2, 4))
        vs = draw(_vars(n, -1, 2, 4))
        names = [v[0] for v in vs]
        durs = [draw(st.integers(1, 3)) for _ in names]
        if draw(st.booleans()):  # twins: identical domains and durations, so only the other constraints tell them apart
            vs = [[nm, vs[0][1], vs[0][2]] for nm in names]
            durs = [durs[0]] * n
        cons.append(["no_overlap", names, durs])
        for _ in range(draw(st.integers(0, 1))):
            cons.append(draw(_rel(names)))
    else:
        n = draw(st.integers(1, 4))
        vs = draw(_vars(n))
        names = [v[0] for v in vs]
        k = draw(st.integers(1, 3 if for_tv else 4))
        for _ in range(k):
            if flavour == "dfs-native":
                kind = draw(st.sampled_from(["rel", "rel", "rel", "all_different"]))
            elif flavour == "sums":
                kind = draw(st.sampled_from(["sum", "sum", "rel"]))
            else:
                kind = draw(st.sampled_from(["rel", "all_different", "sum", "no_overlap", "cumulative"]))
            if kind == "rel":
                cons.append(draw(_rel(names)))
            elif kind == "all_different":
                cons.append(["all_different", draw(_subset(names, 1, 4))])
            elif kind == "sum":
                terms = draw(st.lists(st.sampled_from(names), min_size=1, max_size=5))
                lo = sum(next(v[1] for v in vs if v[0] == t) for t in terms)
                hi = sum(next(v[2] for v in vs if v[0] == t) for t in terms)
                cons.append([draw(st.sampled_from(["sum_eq", "sum_le", "sum_ge"])), terms, draw(st.integers(lo - 1, hi + 1))])
            elif kind == "no_overlap":
                sub = draw(_subset(names, 2, 4))
                cons.append(["no_overlap", sub, [draw(st.integers(1, 3)) for _ in sub]])
            else:
                sub = draw(_subset(names, 1, 4))
                cons.append(["cumulative", sub, [draw(st.integers(0, 3)) for _ in sub], [draw(st.integers(0, 3)) for _ in sub], draw(st.integers(1, 4))])
    return {"flavour": flavour, "vars": vs, "cons": cons}


@st.composite
def solve_case(draw):
    m = draw(model())
    return {
        "model": m,
        "solver": draw(st.sampled_from(["auto", "dfs", "sat"])),
        "solution_limit": draw(st.sampled_from([1, 1, 3, 50])),
        "hints": {
            "kind": draw(st.sampled_from(["none", "none", "consistent", "conflicting", "out-of-domain"])),
            "pick": draw(st.integers(0, 10**6)),
            "mask": draw(st.integers(1, 63)),
            "offsets": [draw(st.integers(0, 4)) for _ in m["vars"]],
        },
    }
