"""Hypothesis strategies for CNF formulas + solve_sat options (shared by C01, C02, C05/C06 support).

A case is {"family", "clauses", "assumptions", "opts": {solution_limit, luby_factor, max_restarts, max_conflicts}}.
"""
from __future__ import annotations

from hypothesis import strategies as st


def _numbering(draw, n, sparse):
    if not sparse:
        return list(range(1, n + 1))
    pool = list(range(1, 3 * n + 1))
    return sorted(draw(st.permutations(pool))[:n])


@st.composite
def options(draw, deep=False, big=False):
    if deep:
        return {"solution_limit": 10**6, "luby_factor": draw(st.sampled_from([1, 2, 100])), "max_restarts": 10_000, "max_conflicts": 100_000}
    return {
        "solution_limit": draw(st.sampled_from([1, 1, 1, 2, 3, 10, 100] + ([50] if big else [10**6]))),
        "luby_factor": draw(st.sampled_from([1, 2, 3, 10, 100])),
        "max_restarts": draw(st.sampled_from([10_000, 10_000, 10_000, 0, 1, 3, 20])),
        "max_conflicts": draw(st.sampled_from([100_000, 100_000, 100_000, 1, 5, 30, 200])),
    }


@st.composite
def assumptions_for(draw, vars_, extra_ok=True):
    k = draw(st.sampled_from([0, 0, 0, 1, 1, 2, 3]))
    out = []
    for _ in range(k):
        if extra_ok and draw(st.integers(0, 19)) == 0:
            v = max(vars_, default=0) + draw(st.integers(1, 3))  # a variable that occurs in no clause
        else:
            v = draw(st.sampled_from(vars_)) if vars_ else 1
        out.append(v if draw(st.booleans()) else -v)
    return out


@st.composite
def small_cnf(draw):
    n = draw(st.integers(1, 8))
    vs = _numbering(draw, n, draw(st.booleans()))
    lit = st.builds(lambda v, s: v if s else -v, st.sampled_from(vs), st.booleans())
    ratio = draw(st.sampled_from([0.5, 1.5, 3.0, 4.2, 5.0, 7.0]))
    m = max(1, int(n * ratio))
    minlen = 0 if draw(st.integers(0, 24)) == 0 else 1
    clauses = draw(st.lists(st.lists(lit, min_size=minlen, max_size=5), min_size=0 if draw(st.integers(0, 30)) == 0 else 1, max_size=m))
    opts = draw(options())
    ass = draw(assumptions_for(vs))
    # solve_sat works over variables 1..max id, so a sparse numbering enlarges the model space: keep full
    # enumerations (solution_limit 10^6) to <= 2^10 models, otherwise the call is legitimately long (work is
    # bounded by solution_limit, not a hang) and would trip the step budget of C02
    top = max([abs(l) for c in clauses for l in c] + [abs(a) for a in ass] + [0])
    if top > 10 and opts["solution_limit"] > 100:
        opts = dict(opts, solution_limit=100)
    return {"family": "small", "clauses": clauses, "assumptions": ass, "opts": opts}


@st.composite
def threshold_cnf(draw, nmax=40):
    n = draw(st.integers(10, nmax))
    vs = _numbering(draw, n, draw(st.integers(0, 3)) == 0)
    ratio = draw(st.sampled_from([3.6, 4.0, 4.26, 4.5, 4.8]))
    m = int(n * ratio)
    clauses = []
    for _ in range(m):
        k = draw(st.sampled_from([3, 3, 3, 3, 2, 4, 5]))
        idx = draw(st.lists(st.integers(0, n - 1), min_size=k, max_size=k, unique=True))
        signs = draw(st.integers(0, 2**k - 1))
        clauses.append([vs[i] if (signs >> j) & 1 else -vs[i] for j, i in enumerate(idx)])
    for _ in range(draw(st.sampled_from([0, 0, 1, 2, 3]))):
        v = draw(st.sampled_from(vs))
        clauses.append([v if draw(st.booleans()) else -v])
    if draw(st.integers(0, 2)) == 0:  # repeated clauses (same clause listed twice or more) are valid input too
        for _ in range(draw(st.integers(1, 4))):
            clauses.append(list(clauses[draw(st.integers(0, len(clauses) - 1))]))
    clauses = draw(st.permutations(clauses))
    return {"family": "threshold", "clauses": [list(c) for c in clauses], "assumptions": draw(assumptions_for(vs)), "opts": draw(options(big=True))}


def pigeonhole(holes):
    """holes+1 pigeons into `holes` holes: UNSAT, needs real search."""
    P = holes + 1
    var = lambda p, h: p * holes + h + 1
    cl = [[var(p, h) for h in range(holes)] for p in range(P)]
    for h in range(holes):
        for p in range(P):
            for q in range(p + 1, P):
                cl.append([-var(p, h), -var(q, h)])
    return cl


def parity_chain(n, rhs):
    """x1 xor x2 xor ... xor xn = rhs encoded pairwise with chain variables; plus the opposite parity => UNSAT."""
    cl = []
    nxt = n + 1

    def xor3(a, b, c):  # c = a xor b
        return [[-a, -b, -c], [a, b, -c], [a, -b, c], [-a, b, c]]

    def chain(target):
        nonlocal nxt
        acc = 1
        out = []
        for i in range(2, n + 1):
            c = nxt
            nxt += 1
            out += xor3(acc, i, c)
            acc = c
        out.append([acc] if target else [-acc])
        return out

    cl += chain(rhs)
    cl += chain(not rhs)
    return cl


@st.composite
def structured_cnf(draw):
    kind = draw(st.sampled_from(["php", "php", "parity", "php-minus-one"]))
    if kind == "php":
        cl = pigeonhole(draw(st.integers(2, 4)))
    elif kind == "php-minus-one":
        cl = pigeonhole(draw(st.integers(2, 4)))
        i = draw(st.integers(0, len(cl) - 1))
        cl = cl[:i] + cl[i + 1 :]  # usually satisfiable again
    else:
        cl = parity_chain(draw(st.integers(3, 7)), draw(st.booleans()))
    cl = [list(c) for c in draw(st.permutations(cl))]
    cl = [list(draw(st.permutations(c))) for c in cl] if len(cl) < 60 else cl
    vs = sorted({abs(l) for c in cl for l in c})
    if draw(st.booleans()):  # polarity flip of a random subset keeps (un)satisfiability, changes the search
        flip = set(draw(st.lists(st.sampled_from(vs), max_size=len(vs))))
        cl = [[-l if abs(l) in flip else l for l in c] for c in cl]
    return {"family": "structured-" + kind, "clauses": cl, "assumptions": draw(assumptions_for(vs, extra_ok=False)) if draw(st.booleans()) else [], "opts": draw(options(big=True))}


@st.composite
def duplicate_cnf(draw):
    """Long clauses listed two or three times (equal, separate list objects) next to short ones: valid input that
    exposes any sharing of per-clause state (watch positions, reason indices) between equal clauses."""
    n = draw(st.integers(4, 7))
    vs = list(range(1, n + 1))
    lit = st.builds(lambda v, s: v if s else -v, st.sampled_from(vs), st.booleans())
    cl = []
    for _ in range(draw(st.integers(2, 5))):
        k = draw(st.integers(3, 4))
        idx = draw(st.lists(st.sampled_from(vs), min_size=k, max_size=k, unique=True))
        c = [v if draw(st.booleans()) else -v for v in idx]
        for _ in range(draw(st.integers(1, 3))):
            cl.append(list(c))
    for _ in range(draw(st.integers(1, 4))):
        cl.append([draw(lit) for _ in range(draw(st.integers(1, 2)))])
    cl = [list(c) for c in draw(st.permutations(cl))]
    return {"family": "duplicate", "clauses": cl, "assumptions": draw(assumptions_for(vs, extra_ok=False)) if draw(st.integers(0, 3)) == 0 else [], "opts": draw(options(big=True))}


@st.composite
def gadget_cnf(draw):
    """Implication chains and guarded contradictions: decisions propagate several variables at once, conflicts jump
    back over them and force the parent the other way - search histories that uniform random clauses rarely produce."""
    n = draw(st.integers(4, 10))
    vs = list(range(1, n + 1))
    lit = st.builds(lambda v, s: v if s else -v, st.sampled_from(vs), st.booleans())
    cl = []
    for _ in range(draw(st.integers(2, 6))):
        kind = draw(st.sampled_from(["fan", "fan", "guarded-contradiction", "chain", "at-most-one", "random"]))
        g = draw(lit)
        if kind == "fan":  # g -> a, g -> b (, g -> c)
            for _ in range(draw(st.integers(2, 3))):
                cl.append([-g, draw(lit)])
        elif kind == "guarded-contradiction":  # g -> false, through every sign pattern of (p, q)
            p_, q_ = draw(lit), draw(lit)
            for sp in (1, -1):
                for sq in (1, -1):
                    cl.append([-g, sp * p_, sq * q_])
        elif kind == "chain":  # (g or not x or h), (g or not h): not g -> not h -> not x
            x, h = draw(lit), draw(lit)
            cl.append([g, -x, h])
            cl.append([g, -h])
        elif kind == "at-most-one":  # g -> a, g -> b, not a or not b: g is impossible
            a, b2 = draw(lit), draw(lit)
            cl += [[-g, a], [-g, b2], [-a, -b2]]
        else:
            cl.append([draw(lit) for _ in range(draw(st.integers(2, 3)))])
    cl = [list(c) for c in draw(st.permutations(cl))]
    opts = draw(options(big=True))
    return {"family": "gadget", "clauses": cl, "assumptions": draw(assumptions_for(vs, extra_ok=False)) if draw(st.integers(0, 2)) == 0 else [], "opts": opts}


@st.composite
def deep_cnf(draw, lo=10, hi=13):
    """Few clauses, no pure literals, enumerate everything: thousands of blocking clauses → reduce_db."""
    n = draw(st.integers(lo, hi))
    vs = list(range(1, n + 1))
    cl = [[v for v in vs], [-v for v in vs]]
    for _ in range(draw(st.integers(0, 3))):
        k = draw(st.integers(3, 6))
        idx = draw(st.lists(st.integers(0, n - 1), min_size=k, max_size=k, unique=True))
        cl.append([vs[i] if draw(st.booleans()) else -vs[i] for i in idx])
    return {"family": "deep", "clauses": cl, "assumptions": [], "opts": draw(options(deep=True))}


def mixed(tier):
    nmax = 40
    return st.one_of(small_cnf(), small_cnf(), threshold_cnf(nmax), structured_cnf(), gadget_cnf(), duplicate_cnf())
