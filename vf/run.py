"""Entry point:  python -m vf.run Cxx [--tier quick|thorough] [--replay FILE] [--sub NAME]

exit 0  property held on everything explored (KNOWN-FINDING lines may be printed)
exit 1  a line `VIOLATION property=Cxx replay=<path>` was printed
exit 2  harness error (nothing it reports is a statement about solvOR)
"""
from __future__ import annotations

import argparse
import importlib
import os
import sys
import traceback


def main(argv=None) -> int:
    ap = argparse.ArgumentParser()
    ap.add_argument("prop")
    ap.add_argument("--tier", default=os.environ.get("VERIF_TIER", "quick"), choices=["quick", "thorough"])
    ap.add_argument("--replay")
    ap.add_argument("--sub", action="append")
    a = ap.parse_args(argv)
    try:
        seed = int(os.environ.get("VERIF_SEED", "1") or "1")
    except ValueError:
        seed = 1
    if os.environ.get("PYTHONHASHSEED") != "0":
        os.environ["PYTHONHASHSEED"] = "0"
        os.execv(sys.executable, [sys.executable, "-m", "vf.run", *(argv or sys.argv[1:])])
    from . import harness, shadow

    prop = a.prop.upper()
    try:
        shadow.build_shadow(prop, with_rust=(prop == "C12"))
        module = importlib.import_module(f"vf.checks.{prop.lower()}")
        if a.replay:
            v = harness.replay_file(module, a.replay, harness.load_findings(prop))
            if isinstance(v, harness.Inconclusive):
                print(f"replay inconclusive: {v.reason}")
                return 0
            if v is not None:
                print(f"bucket: {v.bucket}\ndetail: {v.detail}")
                print(f"VIOLATION property={prop} replay={a.replay}")
                return 1
            print("replay: property holds on this case")
            return 0
        return harness.run_property(module, a.tier, seed, a.sub)
    except shadow.HarnessError as e:
        print(f"HARNESS-ERROR: {e}", file=sys.stderr)
        return 2
    except Exception:
        traceback.print_exc()
        print("HARNESS-ERROR: unexpected exception in the machinery", file=sys.stderr)
        return 2


if __name__ == "__main__":
    sys.exit(main())
