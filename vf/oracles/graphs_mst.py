"""Reference minimum spanning tree / forest on an explicit undirected multigraph.

Nodes are 0..n-1, edges are (u, v, w) triples (u == v allowed, repeated pairs
allowed, w any int or float that `fractions.Fraction` converts exactly).  All
weight arithmetic is done in `Fraction`, so comparisons are exact.

Deliberately written differently from solvor/mst.py and solvor/utils/data_structures.py:
the disjoint-set structure is iterative with union by *size* and path halving,
the Kruskal reference sorts (weight, index) pairs, and two further independent
references exist for the self-test: brute force over all (n-c)-edge subsets, and
an O(n^2) array Prim on the matrix of cheapest parallel edges.
"""
from __future__ import annotations

import itertools
import random
from fractions import Fraction


class DSU:
    """Disjoint sets: iterative find with path halving, union by size."""

    def __init__(self, n):
        self.p = list(range(n))
        self.sz = [1] * n
        self.parts = n

    def find(self, x):
        p = self.p
        while p[x] != x:
            p[x] = p[p[x]]
            x = p[x]
        return x

    def union(self, a, b):
        a, b = self.find(a), self.find(b)
        if a == b:
            return False
        if self.sz[a] < self.sz[b]:
            a, b = b, a
        self.p[b] = a
        self.sz[a] += self.sz[b]
        self.parts -= 1
        return True


def components(n, edges):
    """comp[i] = smallest node index of i's connected component (by graph search, no DSU)."""
    nb = [[] for _ in range(n)]
    for u, v, _ in edges:
        nb[u].append(v)
        nb[v].append(u)
    comp = [-1] * n
    for s in range(n):
        if comp[s] != -1:
            continue
        comp[s] = s
        stack = [s]
        while stack:
            x = stack.pop()
            for y in nb[x]:
                if comp[y] == -1:
                    comp[y] = s
                    stack.append(y)
    return comp


def msf_weight(n, edges, maximum=False):
    """Reference Kruskal.  Returns (total weight as Fraction, number of trees)."""
    order = sorted(range(len(edges)), key=lambda i: (Fraction(edges[i][2]), i), reverse=maximum)
    d = DSU(n)
    total = Fraction(0)
    for i in order:
        u, v, w = edges[i]
        if d.union(u, v):
            total += Fraction(w)
    return total, d.parts


def msf_bruteforce(n, edges):
    """Minimum over every acyclic edge subset of size n - c (c = number of components)."""
    c = len(set(components(n, edges)))
    k = n - c
    best = None
    for sub in itertools.combinations(range(len(edges)), k):
        d = DSU(n)
        ok = True
        for i in sub:
            if not d.union(edges[i][0], edges[i][1]):
                ok = False
                break
        if ok:
            tot = sum((Fraction(edges[i][2]) for i in sub), Fraction(0))
            if best is None or tot < best:
                best = tot
    return best, c


def msf_prim_matrix(n, edges):
    """Array Prim per component on the matrix of cheapest parallel edges (no heap, no DSU)."""
    best = [[None] * n for _ in range(n)]
    for u, v, w in edges:
        if u == v:
            continue
        w = Fraction(w)
        if best[u][v] is None or w < best[u][v]:
            best[u][v] = best[v][u] = w
    done = [False] * n
    total = Fraction(0)
    trees = 0
    for s in range(n):
        if done[s]:
            continue
        trees += 1
        done[s] = True
        key = list(best[s])
        while True:
            pick = None
            for x in range(n):
                if not done[x] and key[x] is not None and (pick is None or key[x] < key[pick]):
                    pick = x
            if pick is None:
                break
            done[pick] = True
            total += key[pick]
            for y in range(n):
                if not done[y] and best[pick][y] is not None and (key[y] is None or best[pick][y] < key[y]):
                    key[y] = best[pick][y]
    return total, trees


def check_spanning_forest(n, edges, out):
    """Validity predicate for a claimed spanning forest `out` of the multigraph (n, edges).

    Returns (defect, detail, total):  defect is None when `out` is a list of triples, each an
    input edge (as a multiset, either orientation, equal weight), the set is acyclic, has
    n - c edges and joins exactly the nodes the input joins.  total = exact sum of weights.
    """
    if not isinstance(out, (list, tuple)):
        return "solution-format", repr(out)[:120], None
    avail = {}
    for u, v, w in edges:
        k = (min(u, v), max(u, v), Fraction(w))
        avail[k] = avail.get(k, 0) + 1
    d = DSU(n)
    total = Fraction(0)
    cyc = None
    for e in out:
        try:
            u, v, w = e
            fw = Fraction(w)
            ok = isinstance(u, int) and isinstance(v, int) and not isinstance(u, bool) and not isinstance(v, bool) and 0 <= u < n and 0 <= v < n
        except Exception:  # noqa: BLE001
            ok = False
        if not ok:
            return "solution-format", repr(e)[:120], None
        k = (min(u, v), max(u, v), fw)
        if avail.get(k, 0) <= 0:
            return "edge-not-in-input", [u, v, str(fw)], None
        avail[k] -= 1
        total += fw
        if not d.union(u, v) and cyc is None:
            cyc = [u, v]
    comp = components(n, edges)
    c = len(set(comp))
    if len(out) != n - c:
        return "edge-count", {"got": len(out), "want": n - c}, total
    if cyc is not None:
        return "cycle", cyc, total
    for x in range(n):
        if d.find(x) != d.find(comp[x]):
            return "not-spanning", {"node": x, "component_of": comp[x]}, total
    return None, None, total


def _rand_graph(rng, nmax, mmax):
    n = rng.randint(1, nmax)
    kind = rng.randrange(4)
    pal = [rng.randint(-3, 5) for _ in range(3)]
    edges = []
    for _ in range(rng.randint(0, mmax)):
        u, v = rng.randrange(n), rng.randrange(n)
        if kind == 0:
            w = rng.choice(pal)
        elif kind == 1:
            w = rng.randint(-6, 9)
        elif kind == 2:
            w = rng.randint(-20, 40) / 4
        else:
            w = rng.choice([rng.randint(-6, 9), rng.randint(-20, 40) / 8])
        edges.append((u, v, w))
        if rng.random() < 0.15:
            edges.append((v, u, rng.choice([w, rng.randint(-3, 5)])))
    return n, edges


def selftest():
    rng = random.Random(20250913)
    cases = 0
    for _ in range(500):  # Kruskal vs brute force over subsets (and Prim) on n <= 6
        n, edges = _rand_graph(rng, 6, 9)
        a = msf_weight(n, edges)
        b = msf_bruteforce(n, edges)
        c = msf_prim_matrix(n, edges)
        assert a == b == c, (n, edges, a, b, c)
        neg = [(u, v, -w) for u, v, w in edges]
        mx = msf_weight(n, edges, maximum=True)
        assert mx[0] == -msf_weight(n, neg)[0] and mx[0] >= a[0], (n, edges)
        assert a[1] == len(set(components(n, edges)))
        cases += 1
    for _ in range(400):  # Kruskal vs matrix Prim on the sizes used by the thorough tier
        n, edges = _rand_graph(rng, 11, 30)
        assert msf_weight(n, edges) == msf_prim_matrix(n, edges), (n, edges)
        cases += 1
    for _ in range(300):  # the validity predicate accepts a reference forest and rejects damaged ones
        n, edges = _rand_graph(rng, 7, 12)
        d = DSU(n)
        forest = []
        for i in sorted(range(len(edges)), key=lambda i: Fraction(edges[i][2])):
            u, v, w = edges[i]
            if d.union(u, v):
                forest.append((v, u, w) if rng.random() < 0.5 else (u, v, w))
        defect, _, tot = check_spanning_forest(n, edges, forest)
        assert defect is None and tot == msf_weight(n, edges)[0], (n, edges, forest, defect)
        if forest:
            assert check_spanning_forest(n, edges, forest[1:])[0] == "edge-count"
            assert check_spanning_forest(n, edges, forest + forest[:1])[0] in ("edge-not-in-input", "edge-count")
            u, v, w = forest[0]
            assert check_spanning_forest(n, edges, [(u, v, w + 1000)] + forest[1:])[0] == "edge-not-in-input"
            rest = [e for e in edges if e[0] != e[1]]
            # replace one tree edge by a non-tree edge: either still a spanning forest or flagged cycle/not-spanning
            for e in rest:
                alt = forest[1:] + [e]
                got = check_spanning_forest(n, edges, alt)[0]
                dd = DSU(n)
                acyclic = all(dd.union(a, b) for a, b, _ in alt)
                multiset_ok = got != "edge-not-in-input"
                if multiset_ok:
                    assert (got is None) == acyclic, (n, edges, alt, got)
        cases += 1
    return cases
