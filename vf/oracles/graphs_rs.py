"""Reference answers for the nine edge-list graph functions compared in C12 (Rust vs Python back-end).

Everything is written from the definitions on exact numbers (`fractions.Fraction`), on vertices 0..n-1 and an
ordered edge list with repetitions (multigraph).  Nothing here imports solvOR.

  best(edges, directed)          cheapest weight per ordered pair
  sssp(n, edges, s)              single source distances by n-1 rounds of relaxation over the *pair table*;
                                 None when a negative cycle is reachable from s
  apsp(n, edges, directed)       all pairs by min-plus closure (repeated squaring); None when some closed walk is negative
  apsp_by_source(...)            the same table as n single-source runs (for sparse graphs with dozens of nodes)
  hops(n, pairs, s)              BFS levels
  msf(n, edges)                  (weight of a minimum spanning forest, number of components)  — Boruvka-free: Prim on a matrix
  spanning_forest_ok(...)        validity of an edge list as a spanning forest of the input multigraph
  scc_of(n, pairs)               strongly connected classes from the reachability closure
  acyclic(n, pairs)              no closed walk of length >= 1
  walk_cost(path, table)         cost of a vertex sequence using the cheapest parallel edge per hop (None = not a walk)
  pagerank_bound(n, d, tol)      the L1 distance two converged power iterations may have (see the derivation below)

selftest() cross-checks each against a second, differently written implementation.
"""
from __future__ import annotations

import itertools
import random
from fractions import Fraction

INF = None  # "no path" in exact tables


def fr(x) -> Fraction:
    return x if isinstance(x, Fraction) else Fraction(x)  # floats used by the generators are dyadic => exact


# ----------------------------------------------------------------------------- shortest paths
def best(edges, directed=True):
    t = {}
    for u, v, w in edges:
        w = fr(w)
        for a, b in ((u, v),) if directed else ((u, v), (v, u)):
            if (a, b) not in t or w < t[(a, b)]:
                t[(a, b)] = w
    return t


def sssp(n, edges, s):
    """dist list (None = unreachable), or None if a negative cycle can be reached from s."""
    t = best(edges)
    d = [INF] * n
    d[s] = Fraction(0)
    for _round in range(n):
        changed = False
        for (u, v), w in t.items():
            if d[u] is not None and (d[v] is None or d[u] + w < d[v]):
                d[v] = d[u] + w
                changed = True
        if not changed:
            return d
    return None  # still changing in round n => negative cycle reachable


def apsp(n, edges, directed=True):
    """n x n table (None = unreachable) or None if a negative closed walk exists anywhere."""
    t = best(edges, directed)
    D = [[Fraction(0) if i == j else t.get((i, j)) for j in range(n)] for i in range(n)]
    for i in range(n):  # a negative self loop is a negative cycle
        if (i, i) in t and t[(i, i)] < 0:
            return None

    def mul(A, B):
        C = [[None] * n for _ in range(n)]
        for i in range(n):
            for k in range(n):
                a = A[i][k]
                if a is None:
                    continue
                for j in range(n):
                    b = B[k][j]
                    if b is None:
                        continue
                    if C[i][j] is None or a + b < C[i][j]:
                        C[i][j] = a + b
        return C

    steps = 1
    while steps < 2 * n:  # walks of up to 2n edges: enough to expose any negative cycle on the diagonal
        D = mul(D, D)
        steps *= 2
        if any(D[i][i] < 0 for i in range(n)):
            return None
    return D


def apsp_by_source(n, edges, directed=True):
    """Same answer as apsp(), computed as n single-source runs (cheaper on sparse graphs with dozens of nodes).
    A negative closed walk anywhere is reachable from its own vertices, so some run reports it."""
    if not directed:
        edges = list(edges) + [(v, u, w) for u, v, w in edges]
    rows = []
    for s in range(n):
        d = sssp(n, edges, s)
        if d is None:
            return None
        rows.append(d)
    return rows


def hops(n, pairs, s):
    adj = [[] for _ in range(n)]
    for u, v in pairs:
        adj[u].append(v)
    lev = [None] * n
    lev[s] = 0
    frontier = [s]
    k = 0
    while frontier:
        k += 1
        nxt = []
        for u in frontier:
            for v in adj[u]:
                if lev[v] is None:
                    lev[v] = k
                    nxt.append(v)
        frontier = nxt
    return lev


def walk_cost(path, table):
    """Cost of the vertex sequence using the cheapest parallel edge for every hop; None if some hop is no edge."""
    c = Fraction(0)
    for a, b in zip(path, path[1:]):
        if (a, b) not in table:
            return None
        c += table[(a, b)]
    return c


# ----------------------------------------------------------------------------- spanning forests
def msf(n, edges):
    """(minimum spanning forest weight, number of connected components): Prim on the cheapest-edge matrix."""
    t = best([e for e in edges if e[0] != e[1]], directed=False)
    seen = [False] * n
    total = Fraction(0)
    comps = 0
    for root in range(n):
        if seen[root]:
            continue
        comps += 1
        seen[root] = True
        key = {v: t[(root, v)] for v in range(n) if (root, v) in t and not seen[v]}
        while key:
            v = min(key, key=lambda x: (key[x], x))
            total += key.pop(v)
            seen[v] = True
            for x in range(n):
                if not seen[x] and (v, x) in t and (x not in key or t[(v, x)] < key[x]):
                    key[x] = t[(v, x)]
    return total, comps


def spanning_forest_ok(n, edges, out):
    """None if `out` is a spanning forest built from distinct input edges, else a short reason.

    Each output edge must be an input edge (either orientation, multiset: an input edge is used at most once),
    the set must be acyclic and connect everything the input connects.
    """
    pool = {}
    for u, v, w in edges:
        k = (min(u, v), max(u, v), fr(w))
        pool[k] = pool.get(k, 0) + 1
    parent = list(range(n))

    def find(x):
        while parent[x] != x:
            parent[x] = parent[parent[x]]
            x = parent[x]
        return x

    for e in out:
        if len(e) != 3:
            return "edge-not-a-triple"
        u, v, w = e
        k = (min(u, v), max(u, v), fr(w))
        if pool.get(k, 0) <= 0:
            return "edge-not-in-input"
        pool[k] -= 1
        a, b = find(u), find(v)
        if a == b:
            return "cycle"
        parent[a] = b
    got = len({find(x) for x in range(n)})
    _, want = msf(n, edges)
    if got != want:
        return "not-spanning"
    return None


# ----------------------------------------------------------------------------- SCC / DAG
def closure(n, pairs):
    """R[u][v] = there is a walk of length >= 1 from u to v."""
    R = [[False] * n for _ in range(n)]
    for u, v in pairs:
        R[u][v] = True
    for k in range(n):
        Rk = R[k]
        for i in range(n):
            if R[i][k]:
                Ri = R[i]
                for j in range(n):
                    if Rk[j]:
                        Ri[j] = True
    return R


def closure_bits(n, pairs):
    """Same relation as closure(), rows as Python ints (bit v of row u = u reaches v by a walk of length >= 1).
    Warshall with whole-row unions: O(n^2) big-int operations, so graphs with ~100 nodes cost a millisecond."""
    R = [0] * n
    for u, v in pairs:
        R[u] |= 1 << v
    for k in range(n):
        Rk, bit = R[k], 1 << k
        for i in range(n):
            if R[i] & bit:
                R[i] |= Rk
        # R[k] itself may have grown (k on a cycle) only by bits already in Rk: Rk |= Rk is a no-op
    return R


def scc_of(n, pairs):
    """Set of frozensets: u ~ v iff u == v or (u reaches v and v reaches u)."""
    R = closure_bits(n, pairs)
    out = set()
    for u in range(n):
        out.add(frozenset(v for v in range(n) if v == u or (R[u] >> v & 1 and R[v] >> u & 1)))
    return out


def acyclic(n, pairs):
    R = closure_bits(n, pairs)
    return not any(R[i] >> i & 1 for i in range(n))


# ----------------------------------------------------------------------------- PageRank tolerance
def pagerank_bound(n, d, tol):
    """Largest L1 distance between two *converged* power iterations of the same PageRank map.

    The map x -> (1-d)/n + d*S x with S column-stochastic (dangling columns uniform) is a contraction with
    factor d in L1, so an iterate x_{k+1} with step ||x_{k+1}-x_k||_1 = s lies within s*d/(1-d) of the fixed point.
    Stopping rules in use: max-norm step < tol (=> L1 step < n*tol) and L1 step < tol.  Two converged results
    therefore differ by less than (n*tol + n*tol)*d/(1-d) whichever rule each one used.  1e-12 absorbs rounding
    (n <= 12 terms of magnitude <= 1 per sum, error ~1e-16 per step, amplified by at most 1/(1-d) <= 100).
    """
    return 2 * n * tol * d / (1 - d) + 1e-12


def pagerank_iterates(n, pairs, d, k):
    """x_k of the power iteration from the uniform vector, exact arithmetic (multigraph: parallel edges count)."""
    d = fr(d)
    out = [0] * n
    for u, _ in pairs:
        out[u] += 1
    x = [Fraction(1, n)] * n
    for _ in range(k):
        dang = sum(x[u] for u in range(n) if out[u] == 0)
        y = [(1 - d) / n + d * dang / n] * n
        for u, v in pairs:
            y[v] += d * x[u] / out[u]
        x = y
    return x


# ----------------------------------------------------------------------------- second implementations (selftest only)
def _floyd(n, edges, directed=True):
    t = best(edges, directed)
    D = [[Fraction(0) if i == j else t.get((i, j)) for j in range(n)] for i in range(n)]
    for i in range(n):
        if (i, i) in t and t[(i, i)] < 0:
            D[i][i] = t[(i, i)]
    for k in range(n):
        for i in range(n):
            for j in range(n):
                if D[i][k] is not None and D[k][j] is not None and (D[i][j] is None or D[i][k] + D[k][j] < D[i][j]):
                    D[i][j] = D[i][k] + D[k][j]
    if any(D[i][i] < 0 for i in range(n)):
        return None
    return D


def _simple_path_min(n, edges, s, t_):
    """Cheapest simple path by exhaustive DFS (valid as the distance when there is no negative cycle)."""
    t = best(edges)
    bestc = [None]

    def go(u, cost, seen):
        if u == t_:
            if bestc[0] is None or cost < bestc[0]:
                bestc[0] = cost
            return
        for v in range(n):
            if v not in seen and (u, v) in t:
                go(v, cost + t[(u, v)], seen | {v})

    go(s, Fraction(0), {s})
    return bestc[0]


def _msf_brute(n, edges):
    """Minimum over all edge subsets that form a spanning forest with the right number of trees."""
    es = [(u, v, fr(w)) for u, v, w in edges if u != v]

    def comps(sub):
        p = list(range(n))

        def f(x):
            while p[x] != x:
                x = p[x]
            return x

        c = n
        for u, v, _ in sub:
            a, b = f(u), f(v)
            if a == b:
                return None
            p[a] = b
            c -= 1
        return c

    full = n
    p = list(range(n))

    def f0(x):
        while p[x] != x:
            x = p[x]
        return x

    for u, v, _ in es:
        a, b = f0(u), f0(v)
        if a != b:
            p[a] = b
            full -= 1
    k = n - full
    bestw = None
    for sub in itertools.combinations(es, k):
        if comps(sub) == full:
            w = sum((e[2] for e in sub), Fraction(0))
            if bestw is None or w < bestw:
                bestw = w
    return bestw, full


def _kosaraju(n, pairs):
    adj = [[] for _ in range(n)]
    radj = [[] for _ in range(n)]
    for u, v in pairs:
        adj[u].append(v)
        radj[v].append(u)
    seen = [False] * n
    order = []
    for r in range(n):
        if seen[r]:
            continue
        seen[r] = True
        st = [(r, 0)]
        while st:
            u, i = st.pop()
            if i < len(adj[u]):
                st.append((u, i + 1))
                v = adj[u][i]
                if not seen[v]:
                    seen[v] = True
                    st.append((v, 0))
            else:
                order.append(u)
    comp = [None] * n
    out = set()
    for r in reversed(order):
        if comp[r] is not None:
            continue
        comp[r] = r
        members = [r]
        st = [r]
        while st:
            u = st.pop()
            for v in radj[u]:
                if comp[v] is None:
                    comp[v] = r
                    members.append(v)
                    st.append(v)
        out.add(frozenset(members))
    return out


def _kahn_acyclic(n, pairs):
    indeg = [0] * n
    for _, v in pairs:
        indeg[v] += 1
    free = [v for v in range(n) if indeg[v] == 0]
    done = 0
    while free:
        u = free.pop()
        done += 1
        for a, b in pairs:
            if a == u:
                indeg[b] -= 1
                if indeg[b] == 0:
                    free.append(b)
    return done == n


def selftest():
    rng = random.Random(20250925)
    W = [0, 1, 2, 3, 5, 0.5, 2.5, -1, -2, -0.5]
    cases = 0
    for it in range(400):
        n = rng.randint(1, 6)
        m = rng.randint(0, 2 * n + 2)
        neg = it % 3 == 0
        edges = [(rng.randrange(n), rng.randrange(n), rng.choice(W if neg else W[:7])) for _ in range(m)]
        pairs = [(u, v) for u, v, _ in edges]
        # all pairs: min-plus squaring vs Floyd-Warshall, directed and undirected
        for directed in (True, False):
            a, b = apsp(n, edges, directed), _floyd(n, edges, directed)
            assert a == b, ("apsp", n, edges, directed)
            assert apsp_by_source(n, edges, directed) == a, ("apsp_by_source", n, edges, directed)
        A = apsp(n, edges)
        # single source vs all pairs (only comparable when no negative cycle anywhere) and vs exhaustive simple paths
        for s in range(n):
            d = sssp(n, edges, s)
            if A is not None:
                assert d == A[s], ("sssp", n, edges, s)
                for t_ in range(n):
                    assert _simple_path_min(n, edges, s, t_) == d[t_], ("simple", n, edges, s, t_)
            elif d is not None:
                # a negative cycle exists but is not reachable from s: distances still equal simple-path minima
                for t_ in range(n):
                    assert _simple_path_min(n, edges, s, t_) == d[t_], ("simple-unreach", n, edges, s, t_)
            else:
                R = closure(n, pairs)
                tb = best(edges)
                # some vertex reachable from s lies on a negative closed walk: witness via a restricted Floyd run
                reach = {s} | {v for v in range(n) if R[s][v]}
                sub = [(u, v, w) for u, v, w in edges if u in reach and v in reach]
                assert _floyd(n, sub) is None, ("negcycle", n, edges, s)
                assert tb
            # BFS levels vs unit-weight distances
            unit = [(u, v, 1) for u, v in pairs]
            assert hops(n, pairs, s) == [None if x is None else int(x) for x in sssp(n, unit, s)], ("hops", n, pairs, s)
        # spanning forests
        if m <= 9:
            assert msf(n, edges) == _msf_brute(n, edges), ("msf", n, edges)
        # SCC and acyclicity
        Rb, Rl = closure_bits(n, pairs), closure(n, pairs)
        assert [[bool(Rb[u] >> v & 1) for v in range(n)] for u in range(n)] == Rl, ("closure_bits", n, pairs)
        assert scc_of(n, pairs) == _kosaraju(n, pairs), ("scc", n, pairs)
        assert acyclic(n, pairs) == _kahn_acyclic(n, pairs), ("acyclic", n, pairs)
        # pagerank iterates: mass is conserved and steps contract by the damping factor in L1
        d_ = rng.choice([0.5, 0.25, 0.75])
        x1, x2, x3 = (pagerank_iterates(n, pairs, d_, k) for k in (1, 2, 3))
        assert sum(x3) == 1, ("pr-mass", n, pairs)
        s12 = sum(abs(a - b) for a, b in zip(x1, x2))
        s23 = sum(abs(a - b) for a, b in zip(x2, x3))
        assert s23 <= fr(d_) * s12, ("pr-contraction", n, pairs, d_)
        cases += 1
    # larger sparse graphs (the 'large-n' family of C12): closure / SCC / acyclicity / hops / all-pairs by source
    for it in range(40):
        n = rng.randint(33, 70)
        perm = list(range(n))
        rng.shuffle(perm)
        pairs = [(perm[i - 1 - min(rng.randint(0, 3), i - 1)], perm[i]) for i in range(1, n)]
        pairs += [(rng.randrange(n), rng.randrange(n)) for _ in range(rng.randint(0, 8))]
        Rb, Rl = closure_bits(n, pairs), closure(n, pairs)
        assert [[bool(Rb[u] >> v & 1) for v in range(n)] for u in range(n)] == Rl, ("closure_bits-large", n, pairs)
        assert scc_of(n, pairs) == _kosaraju(n, pairs), ("scc-large", n, pairs)
        assert acyclic(n, pairs) == _kahn_acyclic(n, pairs), ("acyclic-large", n, pairs)
        s0 = perm[0]
        lev = hops(n, pairs, s0)
        assert [x is not None for x in lev] == [v == s0 or bool(Rb[s0] >> v & 1) for v in range(n)], ("hops-large", n, pairs)
        if it < 8:
            edges = [(u, v, rng.choice(W[:7])) for u, v in pairs]
            assert apsp_by_source(n, edges) == _floyd(n, edges), ("apsp_by_source-large", n)
        cases += 1
    # spanning_forest_ok: accepts a Kruskal forest, rejects a cycle / foreign edge / missing edge
    for it in range(200):
        n = rng.randint(1, 6)
        edges = [(rng.randrange(n), rng.randrange(n), rng.choice(W)) for _ in range(rng.randint(0, 10))]
        p = list(range(n))

        def f(x):
            while p[x] != x:
                x = p[x]
            return x

        forest = []
        for u, v, w in sorted(edges, key=lambda e: e[2]):
            a, b = f(u), f(v)
            if a != b:
                p[a] = b
                forest.append((v, u, w) if it % 2 else (u, v, w))
        assert spanning_forest_ok(n, edges, forest) is None, ("forest", n, edges, forest)
        assert sum((fr(e[2]) for e in forest), Fraction(0)) == msf(n, edges)[0], ("forest-weight", n, edges)
        if forest:
            assert spanning_forest_ok(n, edges, forest[:-1]) == "not-spanning"
            assert spanning_forest_ok(n, edges, forest + [forest[0]]) in ("cycle", "edge-not-in-input")
            u, v, w = forest[0]
            assert spanning_forest_ok(n, edges, [(u, v, fr(w) + 1000)] + forest[1:]) == "edge-not-in-input"
        cases += 1
    return cases


if __name__ == "__main__":
    print(selftest())
