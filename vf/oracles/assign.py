"""Reference optimum of the linear assignment problem on an r x c matrix.

A *matching* pairs min(r, c) rows with distinct columns (every row/column at most
once); its value is the sum of the chosen entries.  Three differently written
references, all exact (entries may be ints or Fractions; they are scaled to
integers over their common denominator, which is exact rational arithmetic):

* `enum_opt`  - enumerates every injective map of the shorter side into the longer
                one (max(r,c)! / (max-min)! of them) - the definition itself;
* `flow_opt`  - bipartite min-cost flow of value min(r,c) through
                `vf.oracles.flows.min_cost_flow` (successive shortest paths with
                Bellman-Ford; negative costs are fine, the network is a DAG);
* `dp_opt`    - dynamic programme over subsets of the longer side.

None of them shares anything with solvor/hungarian.py (no potentials, no slack).
"""
from __future__ import annotations

import itertools
import math
import random
from fractions import Fraction

from . import flows as F

ENUM_LIMIT = 5040  # 7!: the largest number of matchings decided by enumeration


def n_matchings(r, c):
    return math.perm(max(r, c), min(r, c))


def _scaled(m):
    """(integer matrix, den) with m[i][j] == im[i][j] / den exactly."""
    den = 1
    for row in m:
        for x in row:
            den = math.lcm(den, Fraction(x).denominator)
    return [[int(Fraction(x) * den) for x in row] for row in m], den


def _wide(im):
    """Orientation with rows <= cols (matchings are sets of cells, so transposing keeps them)."""
    if len(im) > len(im[0]):
        return [list(col) for col in zip(*im)]
    return im


def enum_opt(m, minimize=True):
    """-> (optimum as Fraction, number of optimal matchings).  Exhaustive."""
    im, den = _scaled(m)
    im = _wide(im)
    r, c = len(im), len(im[0])
    best, cnt = None, 0
    rows = range(r)
    for p in itertools.permutations(range(c), r):
        s = 0
        for i in rows:
            s += im[i][p[i]]
        if best is None or (s < best if minimize else s > best):
            best, cnt = s, 1
        elif s == best:
            cnt += 1
    return Fraction(best, den), cnt


def flow_opt(m, minimize=True):
    """-> optimum as Fraction, through the reference min-cost flow (integers after scaling)."""
    im, den = _scaled(m)
    r, c = len(im), len(im[0])
    k = min(r, c)
    sgn = 1 if minimize else -1
    # nodes: rows 0..r-1, columns r..r+c-1, hub r+c (collects from columns if r<=c, feeds rows otherwise)
    hub = r + c
    arcs = [(i, r + j, 1, sgn * im[i][j]) for i in range(r) for j in range(c)]
    supply = [0] * (r + c + 1)
    if r <= c:
        for i in range(r):
            supply[i] = 1
        arcs += [(r + j, hub, 1, 0) for j in range(c)]
        supply[hub] = -k
    else:
        for j in range(c):
            supply[r + j] = -1
        arcs += [(hub, i, 1, 0) for i in range(r)]
        supply[hub] = k
    res = F.min_cost_flow(r + c + 1, arcs, supply)
    assert res is not None, "assignment network must be feasible"
    cost, fl = res
    # the returned flow must itself be a matching of that cost (integrality of the reference)
    cells = [(i, j) for i in range(r) for j in range(c)]
    chosen = [cell for cell, x in zip(cells, fl) if x == 1]
    assert all(x in (0, 1) for x in fl[: r * c]) and len(chosen) == k
    assert len({i for i, _ in chosen}) == k and len({j for _, j in chosen}) == k
    assert sum(sgn * im[i][j] for i, j in chosen) == cost
    return Fraction(sgn * cost, den)


def dp_opt(m, minimize=True):
    """-> (optimum, number of optimal matchings) by a subset DP: rows of the wide orientation are placed
    one after the other, state = set of used columns."""
    im, den = _scaled(m)
    im = _wide(im)
    r, c = len(im), len(im[0])
    layer = {0: (0, 1)}
    for i in range(r):
        nxt = {}
        row = im[i]
        for mask, (val, cnt) in layer.items():
            for j in range(c):
                bit = 1 << j
                if mask & bit:
                    continue
                v = val + row[j]
                cur = nxt.get(mask | bit)
                if cur is None or (v < cur[0] if minimize else v > cur[0]):
                    nxt[mask | bit] = (v, cnt)
                elif v == cur[0]:
                    nxt[mask | bit] = (v, cur[1] + cnt)
        layer = nxt
    best, cnt = None, 0
    for val, k in layer.values():
        if best is None or (val < best if minimize else val > best):
            best, cnt = val, k
        elif val == best:
            cnt += k
    return Fraction(best, den), cnt


def is_matching(assignment, r, c):
    """Validity predicate from the definition: None if `assignment` (row -> column or -1) is a matching of
    min(r,c) pairs, else the name of the broken clause."""
    if len(assignment) != r:
        return "length"
    for a in assignment:
        if isinstance(a, bool) or not isinstance(a, int) or not (a == -1 or 0 <= a < c):
            return "entry-invalid"
    cols = [a for a in assignment if a != -1]
    if len(set(cols)) != len(cols):
        return "column-twice"
    if len(cols) != min(r, c):
        return "count-assigned"
    return None


def _rand_matrix(rng, r, c):
    kind = rng.randrange(5)
    if kind == 0:
        return [[rng.randint(-9, 9) for _ in range(c)] for _ in range(r)]
    if kind == 1:
        return [[Fraction(rng.randint(-36, 36), 4) for _ in range(c)] for _ in range(r)]
    if kind == 2:
        pal = [rng.randint(-3, 3) for _ in range(3)]
        return [[rng.choice(pal) for _ in range(c)] for _ in range(r)]
    if kind == 3:
        a = [rng.randint(-4, 4) for _ in range(r)]
        b = [rng.randint(-4, 4) for _ in range(c)]
        return [[a[i] + b[j] + (rng.random() < 0.2) for j in range(c)] for i in range(r)]
    return [[Fraction(rng.randint(0, 20), 3) for _ in range(c)] for _ in range(r)]


def selftest():
    rng = random.Random(1010)
    cases = 0
    # the example of the solvOR docstring, decided by hand: 5 + 3 + 12
    ex = [[10, 5, 13], [3, 9, 18], [10, 6, 12]]
    assert enum_opt(ex) == (20, 1) and dp_opt(ex) == (20, 1) and flow_opt(ex) == 20
    assert enum_opt([[1, 2], [3, 4]], False) == (5, 2)
    assert enum_opt([[Fraction(1, 4), -2, 5]]) == (-2, 1) and enum_opt([[1], [-3], [2]], False) == (2, 1)
    cases += 4
    for _ in range(500):
        r, c = rng.randint(1, 6), rng.randint(1, 6)
        m = _rand_matrix(rng, r, c)
        for mn in (True, False):
            e = enum_opt(m, mn)
            d = dp_opt(m, mn)
            f = flow_opt(m, mn)
            assert e == d and e[0] == f, (m, mn, e, d, f)
            cases += 1
    for _ in range(60):  # beyond enumeration: DP against flow
        big = rng.randint(7, 9)
        small = rng.randint(5, big)
        r, c = (big, small) if rng.random() < 0.5 else (small, big)
        m = _rand_matrix(rng, r, c)
        for mn in (True, False):
            assert dp_opt(m, mn)[0] == flow_opt(m, mn), (m, mn)
            cases += 1
    # validity predicate
    assert is_matching([1, -1, 0], 3, 2) is None and is_matching([1, 1, -1], 3, 2) == "column-twice"
    assert is_matching([0, -1], 2, 2) == "count-assigned" and is_matching([2, 0], 2, 2) == "entry-invalid"
    assert is_matching([0], 2, 2) == "length" and is_matching([True, 0], 2, 2) == "entry-invalid"
    cases += 6
    return cases
