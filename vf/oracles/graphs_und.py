"""Reference definitions for small undirected graphs (and PageRank on small digraphs).

Nodes are 0..n-1.  Everything is written from the definition, by brute force:

* connected components by BFS, cut vertices / bridges by *deleting* the vertex / edge
  and counting components again;
* core numbers by literally repeating "delete every node of degree < k" from the
  full graph, for k = 1, 2, ...;
* the PageRank fixed point exactly, in Fractions, by Gaussian elimination on
  (I - d*M) p = (1-d)/n * 1, M column-stochastic with uniform columns for dangling nodes;
* modularity  Q = sum_c [ L_c/m - gamma * (d_c/2m)^2 ]  exactly in Fractions.

Each has a second, differently written implementation (low-link DFS on an explicit
stack with edge ids, min-degree peeling, float power iteration + exact fixed-point
verification, the pairwise (1/2m) sum_ij form) used only by selftest().
No solvOR code is called here.
"""
from __future__ import annotations

import random
from collections import deque
from fractions import Fraction


# ----------------------------------------------------------------------------- graph as listed -> simple graph
def symmetrise(n, lists):
    """lists[u] = neighbours of u *as listed* (possibly one-sided, duplicated, with loops).

    Returns nb: list of sets of the symmetrised simple loop-free graph.
    """
    nb = [set() for _ in range(n)]
    for u in range(n):
        for v in lists[u]:
            if v != u:
                nb[u].add(v)
                nb[v].add(u)
    return nb


def edge_list(n, nb):
    return [(u, v) for u in range(n) for v in sorted(nb[u]) if u < v]


def component_of(n, nb, skip_node=None, skip_edge=None):
    """comp[v] = component index (BFS), -1 for the skipped node."""
    comp = [-1] * n
    c = 0
    for s in range(n):
        if s == skip_node or comp[s] != -1:
            continue
        comp[s] = c
        q = deque([s])
        while q:
            u = q.popleft()
            for v in nb[u]:
                if v == skip_node or comp[v] != -1:
                    continue
                if skip_edge is not None and (u, v) in (skip_edge, skip_edge[::-1]):
                    continue
                comp[v] = c
                q.append(v)
        c += 1
    return comp, c


def n_components(n, nb, skip_node=None, skip_edge=None):
    return component_of(n, nb, skip_node, skip_edge)[1]


def cut_vertices(n, nb):
    """v is a cut vertex  <=>  #components(G - v) > #components(G)."""
    base = n_components(n, nb)
    return {v for v in range(n) if n_components(n, nb, skip_node=v) > base}


def bridges(n, nb):
    """{u,v} (u<v) is a bridge  <=>  #components(G - e) > #components(G)."""
    base = n_components(n, nb)
    return {e for e in edge_list(n, nb) if n_components(n, nb, skip_edge=e) > base}


def has_cycle(n, nb):
    """A simple graph has a cycle iff m > n - #components."""
    return len(edge_list(n, nb)) > n - n_components(n, nb)


def lowlink(n, nb):
    """Second implementation: iterative DFS, parent *edge id* (not parent node), returns (cut, bridges)."""
    edges = edge_list(n, nb)
    inc = [[] for _ in range(n)]
    for i, (u, v) in enumerate(edges):
        inc[u].append((i, v))
        inc[v].append((i, u))
    disc = [None] * n
    low = [0] * n
    cut, br = set(), set()
    t = 0
    for root in range(n):
        if disc[root] is not None:
            continue
        disc[root] = low[root] = t
        t += 1
        root_children = 0
        stack = [(root, -1, iter(inc[root]))]
        while stack:
            v, pe, it = stack[-1]
            step = next(it, None)
            if step is None:
                stack.pop()
                if stack:
                    p = stack[-1][0]
                    low[p] = min(low[p], low[v])
                    if low[v] > disc[p]:
                        br.add(edges[pe])
                    if p != root and low[v] >= disc[p]:
                        cut.add(p)
                continue
            eid, w = step
            if eid == pe:
                continue
            if disc[w] is None:
                disc[w] = low[w] = t
                t += 1
                if v == root:
                    root_children += 1
                stack.append((w, eid, iter(inc[w])))
            else:
                low[v] = min(low[v], disc[w])
        if root_children >= 2:
            cut.add(root)
    return cut, br


# ----------------------------------------------------------------------------- k-cores
def core_numbers(n, nb):
    """core[v] = largest k such that v survives repeated deletion of nodes of degree < k.

    Literal: for every k the deletion process restarts from the full graph.
    """
    core = [0] * n
    k = 1
    while True:
        alive = set(range(n))
        while True:
            doomed = [v for v in alive if sum(1 for w in nb[v] if w in alive) < k]
            if not doomed:
                break
            alive.difference_update(doomed)
        if not alive:
            return core
        for v in alive:
            core[v] = k
        k += 1


def core_numbers_peel(n, nb):
    """Second implementation: remove a minimum-degree node, core = running maximum of those degrees."""
    deg = [len(nb[v]) for v in range(n)]
    alive = set(range(n))
    core = [0] * n
    cur = 0
    while alive:
        v = min(alive, key=lambda x: (deg[x], x))
        cur = max(cur, deg[v])
        core[v] = cur
        alive.discard(v)
        for w in nb[v]:
            if w in alive:
                deg[w] -= 1
    return core


# ----------------------------------------------------------------------------- PageRank
def pagerank_matrix(n, out, multigraph=True):
    """Column-stochastic M (Fractions): M[i][j] = probability of the step j -> i.

    out[j] = successors of j as listed.  multigraph=True: a successor listed twice gets
    twice the share; False: successors are a set.  Dangling j: uniform column.
    """
    M = [[Fraction(0)] * n for _ in range(n)]
    for j in range(n):
        tgt = list(out[j]) if multigraph else sorted(set(out[j]))
        if not tgt:
            for i in range(n):
                M[i][j] = Fraction(1, n)
        else:
            share = Fraction(1, len(tgt))
            for i in tgt:
                M[i][j] += share
    return M


def solve_fractions(A, b):
    """Gaussian elimination with exact pivoting on a square non-singular system."""
    n = len(A)
    A = [row[:] + [b[i]] for i, row in enumerate(A)]
    for c in range(n):
        p = next(r for r in range(c, n) if A[r][c] != 0)
        A[c], A[p] = A[p], A[c]
        inv = 1 / A[c][c]
        A[c] = [x * inv for x in A[c]]
        for r in range(n):
            if r != c and A[r][c] != 0:
                f = A[r][c]
                A[r] = [x - f * y for x, y in zip(A[r], A[c])]
    return [A[i][n] for i in range(n)]


def pagerank_exact(n, out, damping, multigraph=True):
    """The unique p with p = (1-d)/n + d*M p, as Fractions (d = exact value of the float given)."""
    if n == 0:
        return []
    d = Fraction(damping)
    M = pagerank_matrix(n, out, multigraph)
    A = [[(1 if i == j else 0) - d * M[i][j] for j in range(n)] for i in range(n)]
    return solve_fractions(A, [(1 - d) / n] * n)


def pagerank_step(n, out, damping, p, multigraph=True):
    """One exact application of the PageRank map (used to verify the fixed point)."""
    d = Fraction(damping)
    M = pagerank_matrix(n, out, multigraph)
    return [(1 - d) / n + d * sum(M[i][j] * p[j] for j in range(n)) for i in range(n)]


def pagerank_float_iter(n, out, damping, eps=1e-15, multigraph=True, cap=100000):
    """Second implementation: push-style float power iteration until the L1 change is < eps."""
    p = [1.0 / n] * n
    for _ in range(cap):
        q = [(1.0 - damping) / n] * n
        for j in range(n):
            tgt = list(out[j]) if multigraph else sorted(set(out[j]))
            if tgt:
                for i in tgt:
                    q[i] += damping * p[j] / len(tgt)
            else:
                for i in range(n):
                    q[i] += damping * p[j] / n
        diff = sum(abs(a - b) for a, b in zip(p, q))
        p = q
        if diff < eps:
            break
    return p


def has_directed_cycle(n, out):
    """Self loop or a cycle of length >= 2 (colour DFS)."""
    col = [0] * n

    def dfs(u):
        col[u] = 1
        for v in out[u]:
            if col[v] == 1 or (col[v] == 0 and dfs(v)):
                return True
        col[u] = 2
        return False

    return any(col[s] == 0 and dfs(s) for s in range(n))


# ----------------------------------------------------------------------------- modularity
def modularity(n, weights, comms, gamma):
    """Q = sum_c [ L_c/m - gamma*(d_c/2m)^2 ]  exactly.

    weights {(u,v): w} with u <= v (u == v: a self loop, contributing w to m, 2w to the
    degree of u and w to L_c);  comms: iterable of node collections.  None when m == 0.
    """
    g = Fraction(gamma)
    m = sum(Fraction(w) for w in weights.values())
    if m == 0:
        return None
    deg = [Fraction(0)] * n
    for (u, v), w in weights.items():
        deg[u] += w
        deg[v] += w
    q = Fraction(0)
    for c in comms:
        cs = set(c)
        L = sum(Fraction(w) for (u, v), w in weights.items() if u in cs and v in cs)
        dc = sum(deg[v] for v in cs)
        q += L / m - g * (dc / (2 * m)) ** 2
    return q


def modularity_pairwise(n, weights, comms, gamma):
    """Second implementation: Q = (1/2m) sum_{i,j} [A_ij - gamma k_i k_j / 2m] delta(c_i, c_j)."""
    g = Fraction(gamma)
    A = [[Fraction(0)] * n for _ in range(n)]
    for (u, v), w in weights.items():
        A[u][v] += w
        A[v][u] += w  # a loop ends up with A_uu = 2w, the usual convention
    k = [sum(row) for row in A]
    two_m = sum(k)
    if two_m == 0:
        return None
    where = {}
    for ci, c in enumerate(comms):
        for v in c:
            where[v] = ci
    q = Fraction(0)
    for i in range(n):
        for j in range(n):
            if where[i] == where[j]:
                q += A[i][j] - g * k[i] * k[j] / two_m
    return q / two_m


# ----------------------------------------------------------------------------- selftest
def _random_lists(rng, n):
    lists = [[] for _ in range(n)]
    if n == 0:
        return lists
    for _ in range(rng.randint(0, 2 * n + 2)):
        u, v = rng.randrange(n), rng.randrange(n)
        side = rng.randrange(3)
        if side != 1:
            lists[u].append(v)
        if side != 0:
            lists[v].append(u)
    return lists


def selftest():
    rng = random.Random(15015)
    cases = 0
    for _ in range(500):
        n = rng.randint(0, 9)
        lists = _random_lists(rng, n)
        nb = symmetrise(n, lists)
        for u in range(n):
            assert u not in nb[u] and all(u in nb[v] for v in nb[u])
        cut2, br2 = lowlink(n, nb)
        assert cut_vertices(n, nb) == cut2, (n, lists)
        assert bridges(n, nb) == br2, (n, lists)
        # an edge is a non-bridge iff it lies on a cycle: G has a cycle <=> some edge is not a bridge
        assert has_cycle(n, nb) == (len(bridges(n, nb)) < len(edge_list(n, nb))), (n, lists)
        core = core_numbers(n, nb)
        assert core == core_numbers_peel(n, nb), (n, lists)
        for k in range(0, max(core, default=0) + 1):  # the k-core really has min degree >= k and is maximal
            S = {v for v in range(n) if core[v] >= k}
            assert all(len(nb[v] & S) >= k for v in S), (n, lists, k)
        cases += 1
    for _ in range(250):
        n = rng.randint(1, 8)
        out = [[rng.randrange(n) for _ in range(rng.choice([0, 0, 1, 2, 3]))] for _ in range(n)]
        d = rng.choice([0.05, 0.5, 0.85, 0.95, rng.uniform(0.05, 0.95)])
        for multi in (True, False):
            p = pagerank_exact(n, out, d, multi)
            assert sum(p) == 1 and all(x > 0 for x in p), (n, out, d)
            assert pagerank_step(n, out, d, p, multi) == p, (n, out, d)
            f = pagerank_float_iter(n, out, d, multigraph=multi)
            assert sum(abs(float(a) - b) for a, b in zip(p, f)) < 1e-12, (n, out, d)
        cases += 1
    for _ in range(250):
        n = rng.randint(1, 8)
        weights = {}
        for _ in range(rng.randint(0, 12)):
            u, v = sorted((rng.randrange(n), rng.randrange(n)))
            weights[(u, v)] = weights.get((u, v), 0) + rng.choice([1, 1, 2])
        k = rng.randint(1, n)
        assign = [rng.randrange(k) for _ in range(n)]
        comms = [[v for v in range(n) if assign[v] == c] for c in range(k)]
        comms = [c for c in comms if c]
        g = rng.choice([0.25, 1.0, 1.7, 3.0])
        assert modularity(n, weights, comms, g) == modularity_pairwise(n, weights, comms, g), (n, weights, comms, g)
        if weights and g == 1.0:  # one community containing everything has modularity 0 at gamma = 1
            assert modularity(n, weights, [list(range(n))], 1.0) == 0
        cases += 1
    return cases
