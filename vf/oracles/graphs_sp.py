"""Reference shortest-path machinery on exact numbers (nodes are 0..n-1, weights -> Fraction).

Nothing here looks like the code under test on purpose:

* single source: the textbook *synchronous* dynamic programme over the number of edges
  (d_k[v] = min(d_{k-1}[v], min_u d_{k-1}[u] + w(u,v))), not in-place relaxation;
* all pairs: min-plus matrix squaring, not the k-i-j triple loop;
* negative-cycle reachability: closure restricted to the nodes reachable from the source;
* grids: label-correcting search over exact numbers a + b*sqrt(2) (pairs of Fractions with
  an exact comparison), not a float A*;
* brute force: enumeration of simple paths / simple cycles (used by selftest() and by the
  "two simple paths of different length" non-triviality rule).

`None` stands for "unreachable" (+infinity) everywhere.
"""
from __future__ import annotations

import heapq
import random
from collections import deque
from fractions import Fraction

SQRT2 = 2 ** 0.5


def fr(x) -> Fraction:
    """Exact value of an int or float weight (dyadic data -> no rounding anywhere)."""
    return x if isinstance(x, Fraction) else Fraction(x)


# ----------------------------------------------------------------------------- basic graph helpers
def cheapest(edges, directed=True):
    """{(u,v): minimum weight among parallel edges} (both orientations when undirected)."""
    m = {}
    for u, v, w in edges:
        w = fr(w)
        for a, b in ((u, v),) if directed else ((u, v), (v, u)):
            if (a, b) not in m or w < m[(a, b)]:
                m[(a, b)] = w
    return m


def weight_sets(edges):
    """{(u,v): set of weights of all parallel edges}"""
    m = {}
    for u, v, w in edges:
        m.setdefault((u, v), set()).add(fr(w))
    return m


def reach(n, pairs, s):
    """Set of nodes reachable from s (s included).  pairs: iterable of (u, v, ...)"""
    succ = [[] for _ in range(n)]
    for e in pairs:
        succ[e[0]].append(e[1])
    seen = {s}
    todo = [s]
    while todo:
        u = todo.pop()
        for v in succ[u]:
            if v not in seen:
                seen.add(v)
                todo.append(v)
    return seen


def bfs_hops(n, pairs, s):
    """Fewest number of edges from s to every node (None = unreachable)."""
    succ = [set() for _ in range(n)]
    for e in pairs:
        succ[e[0]].add(e[1])
    hops = [None] * n
    hops[s] = 0
    layer = [s]
    k = 0
    while layer:
        k += 1
        nxt = []
        for u in layer:
            for v in succ[u]:
                if hops[v] is None:
                    hops[v] = k
                    nxt.append(v)
        layer = nxt
    return hops


# ----------------------------------------------------------------------------- single source (exact)
def sssp(n, edges, s):
    """Returns (dist, negcycle).  negcycle = a negative cycle is reachable from s; then dist is None.

    d_k[v] = cheapest walk s->v with at most k edges, computed synchronously for k = 1..n.
    Without a reachable negative cycle d_{n-1} is final and d_n == d_{n-1}; with one, some entry
    still drops in round n (textbook Bellman–Ford argument).
    """
    w = cheapest(edges)
    into = [[] for _ in range(n)]
    for (u, v), c in w.items():
        into[v].append((u, c))
    d = [None] * n
    d[s] = Fraction(0)
    for k in range(1, n + 1):
        nd = list(d)
        for v in range(n):
            best = d[v]
            for u, c in into[v]:
                if d[u] is not None and (best is None or d[u] + c < best):
                    best = d[u] + c
            nd[v] = best
        if nd == d:
            return d, False
        if k == n:
            return None, True
        d = nd
    return d, False  # n == 0 is never used


def dist_to_set(n, edges, targets):
    """Exact distance from every node to the nearest node of `targets` (non-negative weights or
    no negative cycle): single-source on the reversed graph from a virtual super target."""
    rev = [(v, u, w) for u, v, w in edges] + [(n, t, 0) for t in targets]
    d, neg = sssp(n + 1, rev, n)
    if neg:
        raise ValueError("negative cycle in dist_to_set")
    return d[:n]


# ----------------------------------------------------------------------------- all pairs (exact)
def apsp(n, edges, directed=True):
    """Returns (D, negcycle_present).  D[i][j] Fraction or None; D is None when a negative cycle exists.

    Min-plus squaring of the one-step matrix (0 on the diagonal) until walks of >= n edges are
    covered.  A negative cycle exists iff a simple one (<= n edges) exists iff the diagonal of the
    closure over walks of <= 2^k >= n edges has a negative entry.
    """
    w = cheapest(edges, directed)
    D = [[None] * n for _ in range(n)]
    for i in range(n):
        D[i][i] = Fraction(0)
    for (u, v), c in w.items():
        if D[u][v] is None or c < D[u][v]:
            D[u][v] = c
    span = 1
    while span < n:
        E = [[None] * n for _ in range(n)]
        for i in range(n):
            Di = D[i]
            for j in range(n):
                best = None
                for m in range(n):
                    a = Di[m]
                    if a is None:
                        continue
                    b = D[m][j]
                    if b is None:
                        continue
                    if best is None or a + b < best:
                        best = a + b
                E[i][j] = best
        D = E
        span *= 2
    if any(D[i][i] < 0 for i in range(n)):
        return None, True
    return D, False


def neg_cycle_reachable(n, edges, s):
    """Is there a negative cycle all of whose nodes are reachable from s?  (closure on the
    reachable sub-graph; independent of sssp())."""
    R = sorted(reach(n, edges, s))
    idx = {v: i for i, v in enumerate(R)}
    sub = [(idx[u], idx[v], w) for u, v, w in edges if u in idx and v in idx]
    return apsp(len(R), sub)[1]


def neg_cycle_anywhere(n, edges, directed=True):
    return apsp(n, edges, directed)[1]


# ----------------------------------------------------------------------------- brute force
def simple_path_costs(n, edges, s, t, want=None, cap=None):
    """Set of costs (cheapest parallel edges) of simple paths s->t found by exhaustive DFS.

    want: stop as soon as that many *different* costs are known; cap: stop after that many node
    expansions (then the answer is a subset).  s == t yields {0} (the empty path) only.
    """
    w = cheapest(edges)
    succ = [[] for _ in range(n)]
    for (u, v), c in sorted(w.items()):
        if u != v:
            succ[u].append((v, c))
    out = set()
    if s == t:
        return {Fraction(0)}
    budget = [cap if cap is not None else -1]
    on = [False] * n

    def go(u, cost):
        if budget[0] == 0:
            return True
        budget[0] -= 1
        on[u] = True
        for v, c in succ[u]:
            if on[v]:
                continue
            if v == t:
                out.add(cost + c)
                if want is not None and len(out) >= want:
                    on[u] = False
                    return True
                continue
            if go(v, cost + c):
                on[u] = False
                return True
        on[u] = False
        return False

    go(s, Fraction(0))
    return out


def has_negative_simple_cycle(n, edges, within=None):
    """Brute force: some simple cycle (self loops included) of negative total weight, optionally
    restricted to the node set `within`."""
    w = cheapest(edges)
    ok = (lambda v: True) if within is None else (lambda v: v in within)
    for (u, v), c in w.items():
        if u == v and c < 0 and ok(u):
            return True
    sub = [(u, v, c) for (u, v), c in w.items() if ok(u) and ok(v)]
    for (u, v), c in w.items():
        if u == v or not (ok(u) and ok(v)):
            continue
        # cycle = edge u->v plus a simple path v->u
        for pc in simple_path_costs(n, sub, v, u):
            if pc + c < 0:
                return True
    return False


def walk_cost_choices(path, edges):
    """All totals obtainable by walking `path` (node list) choosing any parallel edge per step;
    None if some step is not an edge."""
    ws = weight_sets(edges)
    totals = {Fraction(0)}
    for a, b in zip(path, path[1:]):
        if (a, b) not in ws:
            return None
        totals = {x + c for x in totals for c in ws[(a, b)]}
    return totals


# ----------------------------------------------------------------------------- grids, exact in Q(sqrt 2)
def q2_sign(a: Fraction, b: Fraction) -> int:
    """Sign of a + b*sqrt(2), exactly."""
    if a >= 0 and b >= 0:
        return 1 if (a > 0 or b > 0) else 0
    if a <= 0 and b <= 0:
        return -1
    lhs, rhs = a * a, 2 * b * b
    if a > 0:  # b < 0: positive iff a > |b| sqrt2
        return 1 if lhs > rhs else -1  # equality impossible for rationals unless both 0
    return 1 if rhs > lhs else -1


def q2_less(x, y) -> bool:
    return q2_sign(x[0] - y[0], x[1] - y[1]) < 0


def q2_float(x) -> float:
    return float(x[0]) + float(x[1]) * SQRT2


DIRS4 = ((-1, 0), (1, 0), (0, -1), (0, 1))
DIRS8 = DIRS4 + ((-1, -1), (-1, 1), (1, -1), (1, 1))


def grid_moves(grid, blocked, costs, directions):
    """The move relation of the documented grid model: from any in-range cell to an in-range,
    non-blocked 4-/8-neighbour; price = costs.get(value of the entered cell, 1), times sqrt(2)
    on diagonals.  Returns {cell: [(cell2, (a, b))]} with the price a + b*sqrt2."""
    rows = len(grid)
    cols = len(grid[0]) if rows else 0
    dirs = DIRS8 if directions == 8 else DIRS4
    mv = {}
    for r in range(rows):
        for c in range(cols):
            out = []
            for dr, dc in dirs:
                r2, c2 = r + dr, c + dc
                if 0 <= r2 < rows and 0 <= c2 < cols and grid[r2][c2] not in blocked:
                    base = fr(costs.get(grid[r2][c2], 1))
                    out.append(((r2, c2), (Fraction(0), base) if dr and dc else (base, Fraction(0))))
            mv[(r, c)] = out
    return mv


def grid_dist(grid, blocked, costs, directions, start):
    """Exact cheapest cost from `start` to every cell ({cell: (a, b)}; missing = unreachable).
    Label correcting with a FIFO queue; all prices are non-negative so it terminates."""
    mv = grid_moves(grid, blocked, costs, directions)
    d = {start: (Fraction(0), Fraction(0))}
    q = deque([start])
    inq = {start}
    while q:
        u = q.popleft()
        inq.discard(u)
        du = d[u]
        for v, (a, b) in mv.get(u, ()):
            cand = (du[0] + a, du[1] + b)
            if v not in d or q2_less(cand, d[v]):
                d[v] = cand
                if v not in inq:
                    inq.add(v)
                    q.append(v)
    return d


def grid_dist_float(grid, blocked, costs, directions, start):
    """Second implementation (floats, heap) used only by selftest()."""
    mv = grid_moves(grid, blocked, costs, directions)
    d = {}
    h = [(0.0, start)]
    while h:
        x, u = heapq.heappop(h)
        if u in d:
            continue
        d[u] = x
        for v, ab in mv.get(u, ()):
            if v not in d:
                heapq.heappush(h, (x + q2_float(ab), v))
    return d


def two_route_costs(succ, s, t, cap=3000):
    """Generic bounded DFS over `succ: node -> [(node, hashable cost)]`: True when two simple
    routes s->t with different cost tuples/sums were found within `cap` expansions."""
    if s == t:
        return False
    found = set()
    budget = [cap]
    on = set()

    def go(u, cost):
        if budget[0] <= 0:
            return True
        budget[0] -= 1
        on.add(u)
        for v, c in succ(u):
            if v in on:
                continue
            nc = (cost[0] + c[0], cost[1] + c[1])
            if v == t:
                found.add(nc)
                if len(found) >= 2:
                    return True
                continue
            if go(v, nc):
                return True
        on.discard(u)
        return False

    go(s, (Fraction(0), Fraction(0)))
    return len(found) >= 2


# ----------------------------------------------------------------------------- selftest
_W = [0, 1, 2, 3, 5, 0.5, 2.5]
_WN = _W + [-1, -2, -0.5, -3]


def _rand_graph(rng, n, m, weights):
    return [(rng.randrange(n), rng.randrange(n), rng.choice(weights)) for _ in range(m)]


def selftest():
    rng = random.Random(20260925)
    cases = 0
    # (1) exact single-source DP vs min-plus closure vs brute force over simple paths / cycles
    for it in range(400):
        n = rng.randint(1, 5)
        weights = _W if it % 3 == 0 else _WN
        edges = _rand_graph(rng, n, rng.randint(0, 9), weights)
        D, neg_any = apsp(n, edges)
        assert neg_any == has_negative_simple_cycle(n, edges), ("neg-any", n, edges)
        for s in range(n):
            d, neg = sssp(n, edges, s)
            R = reach(n, edges, s)
            assert neg == neg_cycle_reachable(n, edges, s) == has_negative_simple_cycle(n, edges, within=R), ("neg-reach", n, edges, s)
            if neg:
                assert neg_any
                continue
            hops = bfs_hops(n, edges, s)
            for t in range(n):
                assert (d[t] is None) == (t not in R) == (hops[t] is None), ("reach", n, edges, s, t)
                costs = simple_path_costs(n, edges, s, t)
                brute = min(costs) if costs else None
                assert d[t] == brute, ("dist", n, edges, s, t, d[t], brute)
                if not neg_any:
                    assert D[s][t] == d[t], ("apsp", n, edges, s, t)
        cases += 1
    # (2) hop counts vs unit-weight distances; undirected closure vs explicit mirroring
    for _ in range(200):
        n = rng.randint(1, 6)
        pairs = [(rng.randrange(n), rng.randrange(n)) for _ in range(rng.randint(0, 10))]
        unit = [(u, v, 1) for u, v in pairs]
        for s in range(n):
            d, _ = sssp(n, unit, s)
            assert [None if x is None else int(x) for x in d] == bfs_hops(n, pairs, s)
        edges = _rand_graph(rng, n, rng.randint(0, 8), _WN if rng.random() < 0.3 else _W)
        a = apsp(n, edges, directed=False)
        b = apsp(n, edges + [(v, u, w) for u, v, w in edges])
        assert a == b
        cases += 1
    # (3) dist_to_set vs min over targets of forward distances
    for _ in range(150):
        n = rng.randint(1, 6)
        edges = _rand_graph(rng, n, rng.randint(0, 10), _W)
        targets = [t for t in range(n) if rng.random() < 0.4]
        back = dist_to_set(n, edges, targets)
        for v in range(n):
            d, _ = sssp(n, edges, v)
            cand = [d[t] for t in targets if d[t] is not None]
            assert back[v] == (min(cand) if cand else None), (n, edges, targets, v)
        cases += 1
    # (4) exact sqrt2 comparison vs high-precision decimal; grid distances exact vs float heap vs brute force
    from decimal import Decimal, getcontext

    getcontext().prec = 60
    r2 = Decimal(2).sqrt()
    for _ in range(400):
        a = Fraction(rng.randint(-40, 40), rng.choice([1, 2, 4]))
        b = Fraction(rng.randint(-40, 40), rng.choice([1, 2, 4]))
        val = Decimal(a.numerator) / Decimal(a.denominator) + Decimal(b.numerator) / Decimal(b.denominator) * r2
        assert q2_sign(a, b) == (val > 0) - (val < 0), (a, b)
    for it in range(200):
        rows, cols = rng.randint(1, 4), rng.randint(1, 4)
        if it % 2:
            rows, cols = min(rows, 3), min(cols, 3)
        grid = [[rng.choice([0, 0, 0, 1, 2, 3]) for _ in range(cols)] for _ in range(rows)]
        blocked = rng.choice([{1}, {1, 3}, set()])
        costs = rng.choice([{}, {2: 2.5}, {2: 3, 3: 1.5}, {0: 2, 2: 0.5}])
        directions = rng.choice([4, 8])
        start = (rng.randrange(rows), rng.randrange(cols))
        ex = grid_dist(grid, blocked, costs, directions, start)
        fl = grid_dist_float(grid, blocked, costs, directions, start)
        assert set(ex) == set(fl), (grid, start)
        for cell in ex:
            assert abs(q2_float(ex[cell]) - fl[cell]) < 1e-9, (grid, start, cell)
        if it % 2:  # brute force over simple routes on <= 3x3
            mv = grid_moves(grid, blocked, costs, directions)
            best = {}

            def walk(u, cost, on):
                if u not in best or cost < best[u] - 1e-12:
                    best[u] = cost
                for v, ab in mv[u]:
                    if v not in on:
                        walk(v, cost + q2_float(ab), on | {v})

            walk(start, 0.0, {start})
            assert set(best) == set(ex), (grid, start)
            for cell in ex:
                assert abs(best[cell] - q2_float(ex[cell])) < 1e-9, (grid, start, cell)
        cases += 1
    return cases
