"""Reference network-flow algorithms on an explicit arc list (arc i / reverse i^1).

All data are integers; nodes are 0..n-1.  Deliberately written differently from
solvor/flow.py: arrays instead of nested dicts, one residual arc per input arc.
"""
from __future__ import annotations

import itertools
import random
from collections import deque


class Net:
    def __init__(self, n):
        self.n = n
        self.head, self.tail, self.res, self.cost = [], [], [], []
        self.adj = [[] for _ in range(n)]

    def add(self, u, v, cap, cost=0):
        for a, b, c, w in ((u, v, cap, cost), (v, u, 0, -cost)):
            self.adj[a].append(len(self.head))
            self.tail.append(a)
            self.head.append(b)
            self.res.append(c)
            self.cost.append(w)


def max_flow_value(n, arcs, s, t):
    """arcs: [(u,v,cap)].  Edmonds–Karp.  Returns the value."""
    if s == t:
        raise ValueError
    g = Net(n)
    for u, v, c in arcs:
        g.add(u, v, c)
    total = 0
    while True:
        par = [-1] * n
        seen = [False] * n
        seen[s] = True
        q = deque([s])
        while q and not seen[t]:
            u = q.popleft()
            for a in g.adj[u]:
                v = g.head[a]
                if g.res[a] > 0 and not seen[v]:
                    seen[v] = True
                    par[v] = a
                    q.append(v)
        if not seen[t]:
            return total
        b = None
        v = t
        while v != s:
            a = par[v]
            b = g.res[a] if b is None else min(b, g.res[a])
            v = g.tail[a]
        v = t
        while v != s:
            a = par[v]
            g.res[a] -= b
            g.res[a ^ 1] += b
            v = g.tail[a]
        total += b


def min_cut_bruteforce(n, arcs, s, t):
    best = None
    others = [v for v in range(n) if v not in (s, t)]
    for k in range(len(others) + 1):
        for sub in itertools.combinations(others, k):
            S = set(sub) | {s}
            c = sum(cap for u, v, cap in arcs if u in S and v not in S)
            best = c if best is None else min(best, c)
    return best


def residual_reachable(n, arcs, flow, s):
    """Nodes reachable from s in the residual network of a *given* pooled flow {(u,v): f}.

    Pooled residual u->v = cap(u,v) - f(u,v) + f(v,u).
    """
    cap = {}
    for u, v, c in arcs:
        cap[(u, v)] = cap.get((u, v), 0) + c
    seen = {s}
    q = deque([s])
    while q:
        u = q.popleft()
        for v in range(n):
            if v in seen:
                continue
            r = cap.get((u, v), 0) - flow.get((u, v), 0) + flow.get((v, u), 0)
            if r > 0:
                seen.add(v)
                q.append(v)
    return seen


def min_cost_flow(n, arcs, supply):
    """arcs [(u,v,cap,cost)], supply[v] (>0 source, <0 sink), sum 0.

    Successive shortest paths from a super source with Bellman–Ford (negative arc
    costs allowed as long as there is no negative cycle of positive capacity).
    Returns (cost, per-arc flows list) or None if the supplies cannot be routed.
    """
    S, T = n, n + 1
    g = Net(n + 2)
    for u, v, c, w in arcs:
        g.add(u, v, c, w)
    need = 0
    for v, b in enumerate(supply):
        if b > 0:
            g.add(S, v, b, 0)
            need += b
        elif b < 0:
            g.add(v, T, -b, 0)
    sent = 0
    total = 0
    N = n + 2
    INF = float("inf")
    while sent < need:
        dist = [INF] * N
        par = [-1] * N
        dist[S] = 0
        for rnd in range(N):
            upd = False
            for a in range(len(g.head)):
                if g.res[a] > 0 and dist[g.tail[a]] + g.cost[a] < dist[g.head[a]]:
                    dist[g.head[a]] = dist[g.tail[a]] + g.cost[a]
                    par[g.head[a]] = a
                    upd = True
            if not upd:
                break
        else:
            raise ValueError("negative cycle in reference min-cost flow input")
        if dist[T] == INF:
            return None
        b = need - sent
        v = T
        while v != S:
            a = par[v]
            b = min(b, g.res[a])
            v = g.tail[a]
        v = T
        while v != S:
            a = par[v]
            g.res[a] -= b
            g.res[a ^ 1] += b
            total += b * g.cost[a]
            v = g.tail[a]
        sent += b
    flows = [g.res[2 * i + 1] for i in range(len(arcs))]
    return total, flows


def min_cost_flow_bruteforce(n, arcs, supply):
    best = None
    for f in itertools.product(*[range(c + 1) for _, _, c, _ in arcs]):
        net = [0] * n
        for (u, v, _, _), x in zip(arcs, f):
            net[u] += x
            net[v] -= x
        if net == list(supply):
            c = sum(x * w for (_, _, _, w), x in zip(arcs, f))
            best = c if best is None else min(best, c)
    return best


def has_negative_cycle(n, arcs):
    """Negative cycle among arcs of positive capacity?"""
    dist = [0] * n
    for _ in range(n):
        upd = False
        for u, v, c, w in arcs:
            if c > 0 and dist[u] + w < dist[v]:
                dist[v] = dist[u] + w
                upd = True
        if not upd:
            return False
    return True


def selftest():
    rng = random.Random(12345)
    cases = 0
    for _ in range(300):
        n = rng.randint(2, 6)
        arcs = [(rng.randrange(n), rng.randrange(n), rng.randint(0, 4)) for _ in range(rng.randint(0, 10))]
        arcs = [a for a in arcs if a[0] != a[1]]
        assert max_flow_value(n, arcs, 0, n - 1) == min_cut_bruteforce(n, arcs, 0, n - 1), (n, arcs)
        cases += 1
    for _ in range(300):
        n = rng.randint(2, 4)
        arcs = [(rng.randrange(n), rng.randrange(n), rng.randint(0, 2), rng.randint(0, 5)) for _ in range(rng.randint(1, 6))]
        arcs = [a for a in arcs if a[0] != a[1]]
        d = rng.randint(0, 3)
        supply = [0] * n
        supply[0] += d
        supply[n - 1] -= d
        r = min_cost_flow(n, arcs, supply)
        b = min_cost_flow_bruteforce(n, arcs, supply)
        assert (r is None) == (b is None) and (r is None or r[0] == b), (n, arcs, supply, r, b)
        if r is not None:
            net = [0] * n
            for (u, v, c, _), x in zip(arcs, r[1]):
                assert 0 <= x <= c
                net[u] += x
                net[v] -= x
            assert net == supply
        cases += 1
    return cases
