"""Exact references for 0/1 knapsack and one-dimensional bin packing.

Everything is exact rational arithmetic: inputs are converted with
`fractions.Fraction` (a float converts to the rational it *is*, so dyadic data
stay what they mean), brought to one common denominator, and the work is done on
Python integers.  Nothing here imports solvOR and nothing is written the way
solvor/knapsack.py (1-D DP with a keep table) or solvor/bin_pack.py (online
any-fit heuristics) are written:

* knapsack  : enumeration of all 2^n subsets (running sums over the lowest set
              bit), second opinions: textbook 2-D DP table over integer
              capacity, and an include/exclude recursion;
* bin pack  : decision search "do the items fit into k bins?" for k = lower
              bound, lower bound + 1, ... (items in decreasing order, bins with
              equal load tried once, only the first empty bin opened), second
              opinion: enumeration of all set partitions (restricted growth
              strings) of the item set.
"""
from __future__ import annotations

import math
import random
from fractions import Fraction


# ----------------------------------------------------------------------------- helpers
def to_common_ints(*groups):
    """Fractions (or ints/floats) -> integer numerators over one common denominator.

    Returns (den, [ints of group 0], [ints of group 1], ...).  Exact.
    """
    fr = [[Fraction(x) for x in g] for g in groups]
    den = 1
    for g in fr:
        for x in g:
            den = den * x.denominator // math.gcd(den, x.denominator)
    return (den, *[[int(x * den) for x in g] for g in fr])


def ceil_div(total, cap) -> int:
    """ceil(total / cap), exactly (Fractions / ints)."""
    q = Fraction(total) / Fraction(cap)
    return -((-q.numerator) // q.denominator)


# ----------------------------------------------------------------------------- knapsack
def knapsack_best(values, weights, capacity, minimize=False):
    """Exact optimum of  max (or min)  sum v_i  s.t.  sum w_i <= capacity  over all subsets.

    Returns (best_value: Fraction, best_mask: int, number_of_optimal_subsets).
    The empty subset is always admissible (capacity >= 0 required).
    """
    n = len(values)
    if len(weights) != n:
        raise ValueError("length mismatch")
    vden, v = to_common_ints(values)
    wden, w, (cap,) = to_common_ints(weights, [capacity])
    if cap < 0 or any(x < 0 for x in w):
        raise ValueError("negative weight/capacity")
    size = 1 << n
    sw = [0] * size
    sv = [0] * size
    for mask in range(1, size):
        low = mask & -mask
        i = low.bit_length() - 1
        rest = mask ^ low
        sw[mask] = sw[rest] + w[i]
        sv[mask] = sv[rest] + v[i]
    best = None
    best_mask = 0
    count = 0
    for mask in range(size):
        if sw[mask] > cap:
            continue
        x = sv[mask]
        if best is None or (x < best if minimize else x > best):
            best, best_mask, count = x, mask, 1
        elif x == best:
            count += 1
    return Fraction(best, vden), best_mask, count


def knapsack_dp_table(values, int_weights, int_capacity, minimize=False):
    """Textbook table T[i][c] = best over the first i items with capacity c (integer weights only)."""
    n = len(values)
    vals = [Fraction(x) for x in values]
    pick = min if minimize else max
    T = [[Fraction(0)] * (int_capacity + 1) for _ in range(n + 1)]
    for i in range(1, n + 1):
        wi, vi = int_weights[i - 1], vals[i - 1]
        row, prev = T[i], T[i - 1]
        for c in range(int_capacity + 1):
            row[c] = prev[c]
            if wi <= c:
                row[c] = pick(prev[c], prev[c - wi] + vi)
    return T[n][int_capacity]


def knapsack_recursive(values, weights, capacity, minimize=False):
    vals = [Fraction(x) for x in values]
    wts = [Fraction(x) for x in weights]
    pick = min if minimize else max

    def go(i, room):
        if i == len(vals):
            return Fraction(0)
        out = go(i + 1, room)
        if wts[i] <= room:
            out = pick(out, vals[i] + go(i + 1, room - wts[i]))
        return out

    return go(0, Fraction(capacity))


def greedy_density_value(values, weights, capacity):
    """Value of the classical greedy: free items first, then by value/weight (ties: lower index),
    taking every item that still fits.  Used only to classify cases (non-triviality rule)."""
    vals = [Fraction(x) for x in values]
    wts = [Fraction(x) for x in weights]
    room = Fraction(capacity)
    order = sorted(range(len(vals)), key=lambda i: (0, 0, i) if wts[i] == 0 else (1, -(vals[i] / wts[i]), i))
    total = Fraction(0)
    for i in order:
        if wts[i] <= room and vals[i] > 0:
            total += vals[i]
            room -= wts[i]
    return total


# ----------------------------------------------------------------------------- bin packing
def bin_pack_exact(sizes, capacity):
    """Minimum number of bins and one optimal assignment (list: item -> bin).

    Items of size 0 fit anywhere but every item needs *a* bin, so a non-empty
    item list needs at least one bin; the empty list needs none.
    """
    n = len(sizes)
    if n == 0:
        return 0, []
    _, s, (cap,) = to_common_ints(sizes, [capacity])
    if cap <= 0:
        raise ValueError("capacity must be positive")
    if any(x < 0 or x > cap for x in s):
        raise ValueError("item outside [0, capacity]")
    order = sorted((i for i in range(n) if s[i] > 0), key=lambda i: -s[i])
    assign = [0] * n
    if not order:
        return 1, assign
    lb = max(1, -((-sum(s)) // cap))
    # items larger than cap/2 pairwise exclude each other
    lb = max(lb, sum(1 for x in s if 2 * x > cap))
    for k in range(lb, len(order) + 1):
        loads = [0] * k
        if _fits(order, 0, s, cap, loads, assign):
            return k, assign
    raise AssertionError("unreachable: one bin per item always works")


def _fits(order, pos, s, cap, loads, assign):
    if pos == len(order):
        return True
    i = order[pos]
    tried = set()
    for b in range(len(loads)):
        ld = loads[b]
        if ld in tried:
            continue
        tried.add(ld)
        if ld + s[i] <= cap:
            loads[b] = ld + s[i]
            assign[i] = b
            if _fits(order, pos + 1, s, cap, loads, assign):
                return True
            loads[b] = ld
    return False


def bin_pack_opt(sizes, capacity) -> int:
    return bin_pack_exact(sizes, capacity)[0]


def bin_pack_bruteforce(sizes, capacity) -> int:
    """Minimum over every set partition of the items (restricted growth strings)."""
    n = len(sizes)
    if n == 0:
        return 0
    s = [Fraction(x) for x in sizes]
    cap = Fraction(capacity)
    best = [n + 1]
    rgs = [0] * n

    def go(i, blocks):
        if blocks >= best[0]:
            return
        if i == n:
            loads = [Fraction(0)] * blocks
            for j in range(n):
                loads[rgs[j]] += s[j]
            if all(ld <= cap for ld in loads):
                best[0] = blocks
            return
        for b in range(blocks + 1):
            rgs[i] = b
            go(i + 1, max(blocks, b + 1))

    go(0, 0)
    if best[0] > n:
        raise ValueError("some item exceeds the capacity")
    return best[0]


def first_fit_decreasing(sizes, capacity) -> int:
    """Plain FFD on exact numbers (classification only: which instances are FFD-hard)."""
    s = sorted((Fraction(x) for x in sizes), reverse=True)
    cap = Fraction(capacity)
    loads = []
    for x in s:
        for b in range(len(loads)):
            if loads[b] + x <= cap:
                loads[b] += x
                break
        else:
            loads.append(x)
    return len(loads)


# ----------------------------------------------------------------------------- selftest
def selftest():
    rng = random.Random(16016)
    cases = 0
    # knapsack: enumeration vs 2-D DP (integer weights, Fraction values) vs recursion, max and min
    for _ in range(300):
        n = rng.randint(0, 8)
        vden = rng.choice([1, 8, 10])
        values = [Fraction(rng.randint(0, 30), vden) for _ in range(n)]
        weights = [rng.choice([0, 0, 1, 2, 3, 4, 5, 6, 7, 8, 9]) for _ in range(n)]
        cap = rng.randint(0, 20)
        for minimize in (False, True):
            if minimize:  # make "min" non-degenerate: the reference itself supports negative values
                values = [v - Fraction(rng.randint(0, 40), vden) for v in values]
            best, mask, cnt = knapsack_best(values, weights, cap, minimize)
            assert cnt >= 1
            assert sum(weights[i] for i in range(n) if mask >> i & 1) <= cap
            assert sum((values[i] for i in range(n) if mask >> i & 1), Fraction(0)) == best
            assert best == knapsack_dp_table(values, weights, cap, minimize), (values, weights, cap, minimize)
            assert best == knapsack_recursive(values, weights, cap, minimize), (values, weights, cap, minimize)
            cases += 1
    # knapsack with dyadic weights given as floats: enumeration vs recursion vs DP on the x8 instance
    for _ in range(200):
        n = rng.randint(0, 7)
        values = [rng.randint(0, 80) / 8 for _ in range(n)]
        wk = [rng.randint(0, 40) for _ in range(n)]
        ck = rng.randint(0, 80)
        weights = [k / 8 for k in wk]
        best, mask, _ = knapsack_best(values, weights, ck / 8)
        assert best == knapsack_recursive(values, weights, ck / 8)
        assert best == knapsack_dp_table(values, wk, ck)
        g = greedy_density_value(values, weights, ck / 8)
        assert g <= best
        cases += 1
    # bin packing: decision search vs set-partition enumeration; witness assignment is checked
    for t in range(400):
        n = rng.randint(0, 7)
        den = rng.choice([1, 8])
        cap = rng.randint(1, 12) * (den if rng.random() < 0.5 else 1)
        fam = t % 4
        if fam == 0:
            sz = [rng.randint(0, cap) for _ in range(n)]
        elif fam == 1:
            sz = [min(cap, max(0, rng.choice([cap // 2, cap // 3, cap // 4]) + rng.randint(-1, 1))) for _ in range(n)]
        elif fam == 2:
            sz = [rng.choice([0, cap, cap, rng.randint(0, cap)]) for _ in range(n)]
        else:  # perfect packings
            sz = []
            for _ in range(rng.randint(1, 3)):
                cuts = sorted(rng.randint(0, cap) for _ in range(rng.randint(0, 2)))
                parts = [b - a for a, b in zip([0] + cuts, cuts + [cap])]
                sz += parts
            sz = sz[:7]
            rng.shuffle(sz)
        sizes = [Fraction(x, den) for x in sz]
        capf = Fraction(cap, den)
        k, assign = bin_pack_exact(sizes, capf)
        assert k == bin_pack_bruteforce(sizes, capf), (sizes, capf, k)
        if sizes:
            assert sorted(set(assign)) == list(range(k))
            loads = [Fraction(0)] * k
            for i, b in enumerate(assign):
                loads[b] += sizes[i]
            assert all(ld <= capf for ld in loads)
            assert k >= ceil_div(sum(sizes), capf)
            assert k <= first_fit_decreasing(sizes, capf)
        cases += 1
    # the classical FFD-hard pattern and exactness of ceil_div where decimal floats go wrong
    assert bin_pack_opt([4, 4, 3, 3, 3, 3], 10) == 2 and first_fit_decreasing([4, 4, 3, 3, 3, 3], 10) == 3
    assert ceil_div(Fraction(3, 10) * 10, 3) == 1 and ceil_div(Fraction(25, 8), Fraction(5, 8)) == 5
    assert ceil_div(0, 5) == 0 and ceil_div(Fraction(41, 8), 5) == 2
    return cases + 3
