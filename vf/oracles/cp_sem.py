"""Semantics of CP model descriptions (C05/C06), written from the mathematical definitions.

A model description is JSON:
  {"vars": [[name, lb, ub], ...], "cons": [constraint, ...]}
  expression e ::= ["var", name] | ["const", k] | ["add", e, e] | ["sub", e, e] | ["mul", e, k] | ["rmul", k, e]
                 | ["rsub", k, e]   (k - e)      | ["radd", k, e]   (k + e)
  constraint  ::= ["rel", "=="|"!=", e, e] | ["all_different", [names]] | ["sum_eq"|"sum_le"|"sum_ge", [names], target]
                 | ["circuit", [names]] | ["no_overlap", [names], [durations]] | ["cumulative", [names], [durations], [demands], capacity]
Nothing in here imports solvOR except build(), which uses only the public constructors/operators.
"""
from __future__ import annotations

import itertools
import random


def ev(e, a):
    k = e[0]
    if k == "var":
        return a[e[1]]
    if k == "const":
        return e[1]
    if k == "add":
        return ev(e[1], a) + ev(e[2], a)
    if k == "sub":
        return ev(e[1], a) - ev(e[2], a)
    if k == "mul":
        return ev(e[1], a) * e[2]
    if k == "rmul":
        return e[1] * ev(e[2], a)
    if k == "rsub":
        return e[1] - ev(e[2], a)
    if k == "radd":
        return e[1] + ev(e[2], a)
    raise ValueError(k)


def expr_vars(e):
    if e[0] == "var":
        return {e[1]}
    if e[0] == "const":
        return set()
    out = set()
    for x in e[1:]:
        if isinstance(x, list):
            out |= expr_vars(x)
    return out


def holds(c, a):
    k = c[0]
    if k == "rel":
        l, r = ev(c[2], a), ev(c[3], a)
        return (l == r) if c[1] == "==" else (l != r)
    if k == "all_different":
        vals = [a[n] for n in c[1]]
        return len(set(vals)) == len(vals)
    if k in ("sum_eq", "sum_le", "sum_ge"):
        s = sum(a[n] for n in c[1])
        return s == c[2] if k == "sum_eq" else (s <= c[2] if k == "sum_le" else s >= c[2])
    if k == "circuit":
        succ = [a[n] for n in c[1]]
        n = len(succ)
        if any(not (0 <= s < n) for s in succ):
            return False
        seen, cur = set(), 0
        for _ in range(n):
            if cur in seen:
                return False
            seen.add(cur)
            cur = succ[cur]
        return cur == 0 and len(seen) == n
    if k == "no_overlap":
        st = [a[n] for n in c[1]]
        d = c[2]
        for i in range(len(st)):
            for j in range(i + 1, len(st)):
                if not (st[i] + d[i] <= st[j] or st[j] + d[j] <= st[i]):
                    return False
        return True
    if k == "cumulative":
        st = [a[n] for n in c[1]]
        d, dem, cap = c[2], c[3], c[4]
        if not st:
            return True
        for t in range(min(st), max(s + x for s, x in zip(st, d)) + 1):
            if sum(dem[i] for i in range(len(st)) if st[i] <= t < st[i] + d[i]) > cap:
                return False
        return True
    raise ValueError(k)


def con_vars(c):
    if c[0] == "rel":
        return expr_vars(c[2]) | expr_vars(c[3])
    return set(c[1])


def assignments(desc):
    names = [v[0] for v in desc["vars"]]
    doms = [range(v[1], v[2] + 1) for v in desc["vars"]]
    for vals in itertools.product(*doms):
        yield dict(zip(names, vals))


def solution_set(desc):
    return [a for a in assignments(desc) if all(holds(c, a) for c in desc["cons"])]


def domain_product(desc):
    p = 1
    for _, lb, ub in desc["vars"]:
        p *= ub - lb + 1
    return p


class Unbuildable(Exception):
    pass


def build(desc):
    """Build a live solvor Model through the public constructors and operators only."""
    from solvor.cp import Model

    m = Model()
    V = {}
    for name, lb, ub in desc["vars"]:
        V[name] = m.int_var(lb, ub, name)

    def bx(e):
        k = e[0]
        if k == "var":
            return V[e[1]]
        if k == "const":
            return e[1]
        if k == "add":
            return bx(e[1]) + bx(e[2])
        if k == "sub":
            return bx(e[1]) - bx(e[2])
        if k == "mul":
            return bx(e[1]) * e[2]
        if k == "rmul":
            return e[1] * bx(e[2])
        if k == "rsub":
            return e[1] - bx(e[2])
        if k == "radd":
            return e[1] + bx(e[2])
        raise ValueError(k)

    for c in desc["cons"]:
        k = c[0]
        try:
            if k == "rel":
                l, r = bx(c[2]), bx(c[3])
                con = (l == r) if c[1] == "==" else (l != r)
                if not isinstance(con, tuple):  # int ?= int collapsed to a bool, or an unsupported comparison
                    raise Unbuildable("comparison did not produce a constraint")
            elif k == "all_different":
                con = m.all_different([V[n] for n in c[1]])
            elif k in ("sum_eq", "sum_le", "sum_ge"):
                con = getattr(m, k)([V[n] for n in c[1]], c[2])
            elif k == "circuit":
                con = m.circuit([V[n] for n in c[1]])
            elif k == "no_overlap":
                con = m.no_overlap([V[n] for n in c[1]], list(c[2]))
            elif k == "cumulative":
                con = m.cumulative([V[n] for n in c[1]], list(c[2]), list(c[3]), c[4])
            else:
                raise ValueError(k)
        except TypeError as e:  # operator combination the classes reject: documented rejection
            raise Unbuildable(str(e))
        m.add(con)
    return m, V


def selftest():
    """Cross-check holds() against second, differently written evaluators on random assignments."""
    rng = random.Random(99)
    n_cases = 0
    for _ in range(400):
        n = rng.randint(2, 5)
        succ = [rng.randrange(-1, n + 1) for _ in range(n)]
        a = {f"s{i}": succ[i] for i in range(n)}
        # circuit: second definition = permutation whose cycle through 0 has length n
        ok2 = sorted(succ) == list(range(n))
        if ok2:
            cur, ln = succ[0], 1
            while cur != 0 and ln <= n:
                cur, ln = succ[cur], ln + 1
            ok2 = ln == n and cur == 0
        assert holds(["circuit", [f"s{i}" for i in range(n)]], a) == ok2, succ
        # cumulative / no_overlap: second definition by explicit occupancy tables
        k = rng.randint(1, 5)
        st = [rng.randint(-2, 4) for _ in range(k)]
        d = [rng.randint(0, 3) for _ in range(k)]
        dem = [rng.randint(0, 3) for _ in range(k)]
        cap = rng.randint(0, 5)
        a = {f"t{i}": st[i] for i in range(k)}
        names = [f"t{i}" for i in range(k)]
        occ = {}
        for i in range(k):
            for t in range(st[i], st[i] + d[i]):
                occ[t] = occ.get(t, 0) + dem[i]
        assert holds(["cumulative", names, d, dem, cap], a) == all(v <= cap for v in occ.values())
        d1 = [max(1, x) for x in d]
        cells = [c for i in range(k) for c in range(st[i], st[i] + d1[i])]
        assert holds(["no_overlap", names, d1], a) == (len(cells) == len(set(cells)))
        n_cases += 1
    return n_cases
