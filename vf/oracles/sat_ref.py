"""Reference SAT procedures: DPLL (unit propagation + branching, no learning), truth table.

Deliberately a different algorithm from solvor/sat.py (no watches, no learning,
no restarts).  Clauses are lists of non-zero ints; variables are abs(lit).
"""
from __future__ import annotations

import itertools
import random
import sys


def _simplify(clauses, assign):
    """Returns (status, remaining clauses, assign) after unit propagation. status False = conflict."""
    assign = dict(assign)
    while True:
        unit = None
        new = []
        for c in clauses:
            sat = False
            rem = []
            for l in c:
                v = assign.get(abs(l))
                if v is None:
                    rem.append(l)
                elif v == (l > 0):
                    sat = True
                    break
            if sat:
                continue
            # a tautology x ∨ ¬x among the remaining literals is always true
            s = set(rem)
            if any(-l in s for l in s):
                continue
            if not rem:
                return False, None, None
            if len(s) == 1 and unit is None:
                unit = rem[0]
            new.append(rem)
        clauses = new
        if unit is None:
            return True, clauses, assign
        assign[abs(unit)] = unit > 0


def dpll(clauses, assign=None):
    """Returns a (partial) satisfying assignment dict or None."""
    ok, cl, a = _simplify(clauses, assign or {})
    if not ok:
        return None
    stack = [(cl, a)]
    while stack:
        cl, a = stack.pop()
        if not cl:
            return a
        # branch on the first literal of a shortest clause
        c = min(cl, key=len)
        l = c[0]
        for val in (not (l > 0), l > 0):  # pushed in reverse: the satisfying polarity is tried first
            b = dict(a)
            b[abs(l)] = val
            ok, cl2, b2 = _simplify(cl, b)
            if ok:
                stack.append((cl2, b2))
    return None


class CNF:
    """Occurrence-list unit propagation + branching; built once, queried many times with different assumptions.

    A third implementation (counter based), used where one formula is decided under hundreds of assignments (C06).
    """

    def __init__(self, clauses):
        self.cl = []
        self.trivially_unsat = False
        for c in clauses:
            s = set(c)
            if any(-l in s for l in s):
                continue
            if not s:
                self.trivially_unsat = True
            self.cl.append(tuple(s))
        self.occ = {}
        for i, c in enumerate(self.cl):
            for l in c:
                self.occ.setdefault(l, []).append(i)
        self.units = [c[0] for c in self.cl if len(c) == 1]

    def solve(self, assign=None):
        """assign: {var: bool}. Returns a (partial) model dict satisfying every clause, or None."""
        if self.trivially_unsat:
            return None
        val = {}
        nfalse = [0] * len(self.cl)
        sat = [False] * len(self.cl)
        queue = [(v if b else -v) for v, b in (assign or {}).items()] + list(self.units)
        return self._search(val, nfalse, sat, queue)

    def _propagate(self, val, nfalse, sat, queue):
        cl, occ = self.cl, self.occ
        while queue:
            lit = queue.pop()
            v = abs(lit)
            if v in val:
                if val[v] != (lit > 0):
                    return False
                continue
            val[v] = lit > 0
            for i in occ.get(lit, ()):
                sat[i] = True
            for i in occ.get(-lit, ()):
                if sat[i]:
                    continue
                nfalse[i] += 1
                c = cl[i]
                if nfalse[i] == len(c):
                    return False
                if nfalse[i] == len(c) - 1:
                    for l in c:
                        if abs(l) not in val:
                            queue.append(l)
                            break
                    else:  # the last literal is already assigned: true (then sat) or false (counted) - recheck
                        if not any(val.get(abs(l)) == (l > 0) for l in c):
                            return False
        return True

    def _search(self, val, nfalse, sat, queue):
        stack = [(val, nfalse, sat, queue)]
        while stack:
            val, nfalse, sat, queue = stack.pop()
            if not self._propagate(val, nfalse, sat, queue):
                continue
            branch = None
            for i, c in enumerate(self.cl):
                if sat[i]:
                    continue
                if any(val.get(abs(l)) == (l > 0) for l in c):
                    sat[i] = True
                    continue
                branch = next(l for l in c if abs(l) not in val)
                break
            if branch is None:
                return val
            stack.append((dict(val), list(nfalse), list(sat), [-branch]))
            stack.append((val, nfalse, sat, [branch]))
        return None


def satisfiable(clauses, assumptions=()):
    a = {}
    for l in assumptions:
        if a.get(abs(l), l > 0) != (l > 0):
            return False
        a[abs(l)] = l > 0
    return dpll(clauses, a) is not None


def entails(clauses, clause):
    """clauses ⊨ clause  ⇔  clauses ∧ ¬clause unsatisfiable."""
    a = {}
    for l in clause:
        if abs(l) in a and a[abs(l)] != (l < 0):
            return True  # clause is a tautology
        a[abs(l)] = l < 0
    return dpll(clauses, a) is None


def truth_table_sat(clauses, assumptions=()):
    vs = sorted({abs(l) for c in clauses for l in c} | {abs(l) for l in assumptions})
    for bits in itertools.product((False, True), repeat=len(vs)):
        a = dict(zip(vs, bits))
        if all(a[abs(l)] == (l > 0) for l in assumptions) and all(any(a[abs(l)] == (l > 0) for l in c) for c in clauses):
            return True
    return False


def count_models(clauses, variables, assumptions=()):
    """Number of total assignments over `variables` satisfying everything (small n only)."""
    vs = list(variables)
    n = 0
    for bits in itertools.product((False, True), repeat=len(vs)):
        a = dict(zip(vs, bits))
        if all(a[abs(l)] == (l > 0) for l in assumptions) and all(any(a[abs(l)] == (l > 0) for l in c) for c in clauses):
            n += 1
    return n


def model_ok(clauses, model):
    """Every completion of the (possibly partial) model satisfies every clause."""
    for i, c in enumerate(clauses):
        if any(model.get(abs(l)) == (l > 0) for l in c):
            continue
        un = {l for l in c if abs(l) not in model}
        if any(-l in un for l in un):
            continue
        return i
    return None


def selftest():
    rng = random.Random(777)
    n_cases = 0
    for _ in range(600):
        n = rng.randint(1, 9)
        m = rng.randint(0, int(n * rng.choice([1, 3, 4.3, 6])) + 1)
        cl = [[rng.choice([1, -1]) * rng.randint(1, n) for _ in range(rng.randint(0 if rng.random() < 0.03 else 1, 4))] for _ in range(m)]
        ass = [rng.choice([1, -1]) * rng.randint(1, n + 1) for _ in range(rng.choice([0, 0, 1, 2]))]
        a, b = satisfiable(cl, ass), truth_table_sat(cl, ass)
        assert a == b, (cl, ass, a, b)
        if a:
            m0 = {}
            for l in ass:
                m0[abs(l)] = l > 0
            mod = dpll(cl, m0)
            assert model_ok(cl, mod) is None and all(mod.get(abs(l)) == (l > 0) for l in ass)
        f = CNF(cl)
        m0 = {}
        consistent = True
        for l in ass:
            if m0.get(abs(l), l > 0) != (l > 0):
                consistent = False
            m0[abs(l)] = l > 0
        if consistent:
            mod = f.solve(m0)
            assert (mod is not None) == b, (cl, ass, mod, b)
            if mod is not None:
                assert model_ok(cl, mod) is None and all(mod.get(abs(l)) == (l > 0) for l in ass), (cl, ass, mod)
        if cl:
            c = [rng.choice([1, -1]) * rng.randint(1, n) for _ in range(rng.randint(1, 3))]
            e = entails(cl, c)
            assert e == (not truth_table_sat(cl + [[-l] for l in c])), (cl, c)
        n_cases += 1
    return n_cases


sys.setrecursionlimit(max(sys.getrecursionlimit(), 10000))
