"""Reference SAT procedures: DPLL (unit propagation + branching, no learning), truth table.

Deliberately a different algorithm from solvor/sat.py (no watches, no learning,
no restarts).  Clauses are lists of non-zero ints; variables are abs(lit).
"""
from __future__ import annotations

import itertools
import random
import sys


def _simplify(clauses, assign):
    """Returns (status, remaining clauses, assign) after unit propagation. status False = conflict."""
    assign = dict(assign)
    while True:
        unit = None
        new = []
        for c in clauses:
            sat = False
            rem = []
            for l in c:
                v = assign.get(abs(l))
                if v is None:
                    rem.append(l)
                elif v == (l > 0):
                    sat = True
                    break
            if sat:
                continue
            # a tautology x ∨ ¬x among the remaining literals is always true
            s = set(rem)
            if any(-l in s for l in s):
                continue
            if not rem:
                return False, None, None
            if len(s) == 1 and unit is None:
                unit = rem[0]
            new.append(rem)
        clauses = new
        if unit is None:
            return True, clauses, assign
        assign[abs(unit)] = unit > 0


def dpll(clauses, assign=None):
    """Returns a (partial) satisfying assignment dict or None."""
    ok, cl, a = _simplify(clauses, assign or {})
    if not ok:
        return None
    stack = [(cl, a)]
    while stack:
        cl, a = stack.pop()
        if not cl:
            return a
        # branch on the first literal of a shortest clause
        c = min(cl, key=len)
        l = c[0]
        for val in (not (l > 0), l > 0):  # pushed in reverse: the satisfying polarity is tried first
            b = dict(a)
            b[abs(l)] = val
            ok, cl2, b2 = _simplify(cl, b)
            if ok:
                stack.append((cl2, b2))
    return None


def satisfiable(clauses, assumptions=()):
    a = {}
    for l in assumptions:
        if a.get(abs(l), l > 0) != (l > 0):
            return False
        a[abs(l)] = l > 0
    return dpll(clauses, a) is not None


def entails(clauses, clause):
    """clauses ⊨ clause  ⇔  clauses ∧ ¬clause unsatisfiable."""
    a = {}
    for l in clause:
        if abs(l) in a and a[abs(l)] != (l < 0):
            return True  # clause is a tautology
        a[abs(l)] = l < 0
    return dpll(clauses, a) is None


def truth_table_sat(clauses, assumptions=()):
    vs = sorted({abs(l) for c in clauses for l in c} | {abs(l) for l in assumptions})
    for bits in itertools.product((False, True), repeat=len(vs)):
        a = dict(zip(vs, bits))
        if all(a[abs(l)] == (l > 0) for l in assumptions) and all(any(a[abs(l)] == (l > 0) for l in c) for c in clauses):
            return True
    return False


def count_models(clauses, variables, assumptions=()):
    """Number of total assignments over `variables` satisfying everything (small n only)."""
    vs = list(variables)
    n = 0
    for bits in itertools.product((False, True), repeat=len(vs)):
        a = dict(zip(vs, bits))
        if all(a[abs(l)] == (l > 0) for l in assumptions) and all(any(a[abs(l)] == (l > 0) for l in c) for c in clauses):
            n += 1
    return n


def model_ok(clauses, model):
    """Every completion of the (possibly partial) model satisfies every clause."""
    for i, c in enumerate(clauses):
        if any(model.get(abs(l)) == (l > 0) for l in c):
            continue
        un = {l for l in c if abs(l) not in model}
        if any(-l in un for l in un):
            continue
        return i
    return None


def selftest():
    rng = random.Random(777)
    n_cases = 0
    for _ in range(600):
        n = rng.randint(1, 9)
        m = rng.randint(0, int(n * rng.choice([1, 3, 4.3, 6])) + 1)
        cl = [[rng.choice([1, -1]) * rng.randint(1, n) for _ in range(rng.randint(0 if rng.random() < 0.03 else 1, 4))] for _ in range(m)]
        ass = [rng.choice([1, -1]) * rng.randint(1, n + 1) for _ in range(rng.choice([0, 0, 1, 2]))]
        a, b = satisfiable(cl, ass), truth_table_sat(cl, ass)
        assert a == b, (cl, ass, a, b)
        if a:
            m0 = {}
            for l in ass:
                m0[abs(l)] = l > 0
            mod = dpll(cl, m0)
            assert model_ok(cl, mod) is None and all(mod.get(abs(l)) == (l > 0) for l in ass)
        if cl:
            c = [rng.choice([1, -1]) * rng.randint(1, n) for _ in range(rng.randint(1, 3))]
            e = entails(cl, c)
            assert e == (not truth_table_sat(cl + [[-l] for l in c])), (cl, c)
        n_cases += 1
    return n_cases


sys.setrecursionlimit(max(sys.getrecursionlimit(), 10000))
