"""Reference answers for directed-graph structure questions (C14): reachability, strongly
connected components, acyclicity, condensation - plus judges for candidate outputs.

Graphs are (n, edges) with vertices 0..n-1 and edges a list of (u, v) pairs; self loops and
duplicates allowed.  The reference is the *definition* evaluated on the Warshall closure
(boolean matrix, three nested loops).  Deliberately nothing here looks like Tarjan or Kahn.
The selftest cross-checks it against an iterative Kosaraju (two DFS passes on G and G^T),
a colour-DFS cycle test and a per-pair BFS.
"""
from __future__ import annotations

import random
from collections import deque


# ----------------------------------------------------------------------------- reference (Warshall)
def closure(n, edges):
    """plus[i][j] <=> there is a path of length >= 1 from i to j."""
    plus = [[False] * n for _ in range(n)]
    for u, v in edges:
        plus[u][v] = True
    for k in range(n):
        rk = plus[k]
        for i in range(n):
            if plus[i][k]:
                ri = plus[i]
                for j in range(n):
                    if rk[j]:
                        ri[j] = True
    return plus


def spanned(n, edges, sources):
    """Vertices reachable (path length >= 0) from any of `sources`."""
    plus = closure(n, edges)
    src = set(sources)
    return src | {j for i in src for j in range(n) if plus[i][j]}


def induced(edges, verts):
    vs = set(verts)
    return [(u, v) for u, v in edges if u in vs and v in vs]


def scc_classes(n, edges, verts=None):
    """Set of frozensets: classes of `i ~ j <=> i == j or (i ->+ j and j ->+ i)` on `verts`.

    Only edges with both ends in `verts` are used (default: all vertices)."""
    verts = list(range(n)) if verts is None else sorted(verts)
    plus = closure(n, induced(edges, verts))
    out = set()
    for i in verts:
        out.add(frozenset(j for j in verts if j == i or (plus[i][j] and plus[j][i])))
    return out


def is_acyclic(n, edges, verts=None):
    """No closed walk of length >= 1 (a self loop is a cycle) in the subgraph induced on verts."""
    verts = list(range(n)) if verts is None else sorted(verts)
    plus = closure(n, induced(edges, verts))
    return not any(plus[i][i] for i in verts)


def condensation(n, edges, verts=None):
    """(classes, arcs): arcs = {(A, B): A != B classes and some edge a->b with a in A, b in B}."""
    verts = list(range(n)) if verts is None else sorted(verts)
    classes = scc_classes(n, edges, verts)
    of = {v: c for c in classes for v in c}
    arcs = set()
    for u, v in induced(edges, verts):
        if of[u] != of[v]:
            arcs.add((of[u], of[v]))
    return classes, arcs


def weak_components(n, edges, verts=None):
    verts = list(range(n)) if verts is None else sorted(verts)
    sym = induced(edges, verts)
    plus = closure(n, sym + [(v, u) for u, v in sym])
    return {frozenset(j for j in verts if j == i or plus[i][j]) for i in verts}


# ----------------------------------------------------------------------------- judges
# Each judge returns None when the candidate output is acceptable, else (clause, detail).

def judge_scc(components, n, edges, verts):
    """components: list of lists of vertex ids.  Must partition `verts` into the mutual-
    reachability classes of the subgraph induced on `verts`, sinks first (no edge from an
    earlier listed component to a later listed one)."""
    verts = set(verts)
    seen = {}
    for ci, comp in enumerate(components):
        if len(comp) == 0:
            return "empty-component", {"position": ci}
        for v in comp:
            if v not in verts:
                return "node-not-in-graph", {"node": v}
            if v in seen:
                return "node-listed-twice", {"node": v, "positions": [seen[v], ci]}
            seen[v] = ci
    missing = sorted(verts - set(seen))
    if missing:
        return "node-missing", {"missing": missing}
    plus = closure(n, induced(edges, verts))
    for a in verts:
        for b in verts:
            if a >= b:
                continue
            mutual = plus[a][b] and plus[b][a]
            if seen[a] == seen[b] and not mutual:
                return "merged", {"a": a, "b": b, "component": sorted(components[seen[a]])}
            if seen[a] != seen[b] and mutual:
                return "split", {"a": a, "b": b}
    for u, v in induced(edges, verts):
        if seen[u] < seen[v]:
            return "order-not-sinks-first", {"edge": [u, v], "positions": [seen[u], seen[v]]}
    return None


def judge_topo(feasible, order, n, edges, verts):
    """feasible: did the implementation claim an order exists; order: list of vertex ids or None."""
    verts = set(verts)
    sub = induced(edges, verts)
    acyclic = is_acyclic(n, edges, verts)
    if not acyclic:
        if feasible:
            return "cyclic-but-order-returned", {"order": order}
        return None
    if not feasible:
        return "acyclic-but-infeasible", {}
    if order is None or sorted(order) != sorted(verts):
        return "not-a-permutation-of-nodes", {"order": order, "nodes": sorted(verts)}
    pos = {v: i for i, v in enumerate(order)}
    for u, v in sub:
        if pos[u] >= pos[v]:
            return "edge-points-backward", {"edge": [u, v], "order": order}
    return None


def judge_condense(cnodes, cadj, n, edges, verts):
    """cnodes: list of frozensets of vertex ids; cadj: list of (frozenset, [frozenset, ...]) items
    (the dict of the implementation, in item order).  Judged on the subgraph induced on verts."""
    classes, arcs = condensation(n, edges, verts)
    if len(set(cnodes)) != len(cnodes):
        return "node-listed-twice", {}
    if set(cnodes) != classes:
        return "nodes-are-not-the-sccs", {"got": sorted(map(sorted, cnodes)), "want": sorted(map(sorted, classes))}
    keys = [k for k, _ in cadj]
    if len(set(keys)) != len(keys) or set(keys) != classes:
        return "adjacency-keys-are-not-the-nodes", {"keys": sorted(map(sorted, keys))}
    got = set()
    for a, succ in cadj:
        for b in succ:
            if b not in classes:
                return "successor-is-not-a-node", {"from": sorted(a), "to": sorted(b)}
            if a == b:
                return "self-edge", {"component": sorted(a)}
            if (a, b) in got:
                return "duplicate-edge", {"from": sorted(a), "to": sorted(b)}
            got.add((a, b))
    extra = got - arcs
    if extra:
        a, b = sorted(extra, key=lambda e: (sorted(e[0]), sorted(e[1])))[0]
        return "edge-without-original-edge", {"from": sorted(a), "to": sorted(b)}
    lacking = arcs - got
    if lacking:
        a, b = sorted(lacking, key=lambda e: (sorted(e[0]), sorted(e[1])))[0]
        return "edge-missing", {"from": sorted(a), "to": sorted(b)}
    # acyclicity of the *returned* graph, judged on its own (contract the classes to ids)
    ids = {c: i for i, c in enumerate(cnodes)}
    if not is_acyclic(len(cnodes), [(ids[a], ids[b]) for a, b in got]):
        return "result-has-a-cycle", {}
    return None


# ----------------------------------------------------------------------------- second implementations
def _kosaraju(n, edges):
    """Iterative Kosaraju.  Returns comp id per vertex; ids are in topological order of the
    condensation (sources get small ids)."""
    out = [[] for _ in range(n)]
    inn = [[] for _ in range(n)]
    for u, v in edges:
        out[u].append(v)
        inn[v].append(u)
    done = [False] * n
    post = []
    for s in range(n):
        if done[s]:
            continue
        done[s] = True
        stack = [(s, 0)]
        while stack:
            v, i = stack.pop()
            if i < len(out[v]):
                stack.append((v, i + 1))
                w = out[v][i]
                if not done[w]:
                    done[w] = True
                    stack.append((w, 0))
            else:
                post.append(v)
    comp = [-1] * n
    c = 0
    for s in reversed(post):
        if comp[s] != -1:
            continue
        comp[s] = c
        todo = [s]
        while todo:
            v = todo.pop()
            for w in inn[v]:
                if comp[w] == -1:
                    comp[w] = c
                    todo.append(w)
        c += 1
    return comp


def _bfs_reach(n, edges, s):
    """Vertices reachable from s by a path of length >= 1."""
    out = [[] for _ in range(n)]
    for u, v in edges:
        out[u].append(v)
    seen = set()
    q = deque(out[s])
    while q:
        v = q.popleft()
        if v in seen:
            continue
        seen.add(v)
        q.extend(out[v])
    return seen


def _has_cycle_dfs(n, edges):
    out = [[] for _ in range(n)]
    for u, v in edges:
        out[u].append(v)
    colour = [0] * n

    def visit(v):
        colour[v] = 1
        for w in out[v]:
            if colour[w] == 1 or (colour[w] == 0 and visit(w)):
                return True
        colour[v] = 2
        return False

    return any(colour[v] == 0 and visit(v) for v in range(n))


def _random_graph(rng):
    n = rng.randint(0, 9)
    shape = rng.choice(["sparse", "dense", "dag", "two-parts"])
    edges = []
    if n:
        m = rng.randint(0, {"sparse": n, "dense": 3 * n, "dag": 2 * n, "two-parts": 2 * n}[shape])
        for _ in range(m):
            u, v = rng.randrange(n), rng.randrange(n)
            if shape == "dag":
                if u == v:
                    continue
                u, v = min(u, v), max(u, v)
            if shape == "two-parts" and (u < n // 2) != (v < n // 2):
                continue
            edges.append((u, v))
            if rng.random() < 0.15:
                edges.append((u, v))
        relabel = list(range(n))
        rng.shuffle(relabel)
        edges = [(relabel[u], relabel[v]) for u, v in edges]
    return n, edges


def selftest():
    rng = random.Random(20140)
    cases = 0
    for _ in range(600):
        n, edges = _random_graph(rng)
        plus = closure(n, edges)
        for s in range(n):
            want = _bfs_reach(n, edges, s)
            assert {j for j in range(n) if plus[s][j]} == want, ("closure", n, edges, s)
        comp = _kosaraju(n, edges)
        groups = {}
        for v in range(n):
            groups.setdefault(comp[v], set()).add(v)
        kos = {frozenset(g) for g in groups.values()}
        assert scc_classes(n, edges) == kos, ("scc", n, edges)
        assert is_acyclic(n, edges) == (not _has_cycle_dfs(n, edges)), ("acyclic", n, edges)
        classes, arcs = condensation(n, edges)
        karcs = {(frozenset(groups[comp[u]]), frozenset(groups[comp[v]])) for u, v in edges if comp[u] != comp[v]}
        assert classes == kos and arcs == karcs, ("condensation", n, edges)
        # judges accept a correct answer built by the second implementation ...
        sinks_first = [sorted(groups[c]) for c in sorted(groups, reverse=True)]
        assert judge_scc(sinks_first, n, edges, range(n)) is None, ("judge_scc", n, edges)
        cn = [frozenset(g) for g in sinks_first]
        cadj = [(a, [b for b in cn if (a, b) in karcs]) for a in cn]
        assert judge_condense(cn, cadj, n, edges, range(n)) is None, ("judge_condense", n, edges)
        if len(kos) == n and not any(u == v for u, v in edges):  # acyclic: Kosaraju ids are a topological order
            order = sorted(range(n), key=lambda v: comp[v])
            assert judge_topo(True, order, n, edges, range(n)) is None, ("judge_topo", n, edges)
            assert n == 0 or judge_topo(False, None, n, edges, range(n)) is not None
            if edges:
                assert judge_topo(True, order[::-1], n, edges, range(n)) is not None
        else:
            assert judge_topo(False, None, n, edges, range(n)) is None
            assert judge_topo(True, list(range(n)), n, edges, range(n)) is not None
        # ... and reject broken ones
        if len(sinks_first) >= 2:
            merged = [sinks_first[0] + sinks_first[1]] + sinks_first[2:]
            assert judge_scc(merged, n, edges, range(n)) is not None
            if karcs:
                assert judge_scc(sinks_first[::-1], n, edges, range(n)) is not None
                a, b = next(iter(karcs))
                less = [(x, [y for y in s if (x, y) != (a, b)]) for x, s in cadj]
                assert judge_condense(cn, less, n, edges, range(n)) is not None
                back = [(x, s + ([a] if x == b else [])) for x, s in cadj]
                assert judge_condense(cn, back, n, edges, range(n)) is not None
        big = [c for c in sinks_first if len(c) >= 2]
        if big:
            split = [c for c in sinks_first if c is not big[0]] + [big[0][:1], big[0][1:]]
            assert judge_scc(split, n, edges, range(n)) is not None
        # sub-vertex-set versions agree with relabelled whole-graph versions
        if n >= 2:
            keep = sorted(rng.sample(range(n), rng.randint(1, n)))
            ren = {v: i for i, v in enumerate(keep)}
            sub = [(ren[u], ren[v]) for u, v in induced(edges, keep)]
            want = {frozenset(keep[i] for i in c) for c in scc_classes(len(keep), sub)}
            assert scc_classes(n, edges, keep) == want
            assert is_acyclic(n, edges, keep) == is_acyclic(len(keep), sub)
            src = keep[:1]
            assert spanned(n, edges, src) == set(src) | _bfs_reach(n, edges, src[0])
        cases += 1
    return cases
