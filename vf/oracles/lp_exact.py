"""Exact LP reference for  min/max c·x  s.t.  Ax <= b, x >= 0  in rational arithmetic.

Two independent implementations (cross-checked in selftest):
  * lp_vertices: enumeration of all basic solutions (the polyhedron is pointed because x >= 0),
    unboundedness through the vertices of the normalised recession cone;
  * lp_simplex: two-phase tableau simplex with Bland's rule on Fractions.
Both return ('infeasible', None, None) | ('unbounded', None, None) | ('optimal', value, x).
"""
from __future__ import annotations

import random
from fractions import Fraction as Fr
from itertools import combinations


def _solve_sq(M, rhs):
    n = len(M)
    A = [[Fr(v) for v in M[i]] + [Fr(rhs[i])] for i in range(n)]
    for c in range(n):
        p = next((r for r in range(c, n) if A[r][c] != 0), None)
        if p is None:
            return None
        A[c], A[p] = A[p], A[c]
        pv = A[c][c]
        A[c] = [x / pv for x in A[c]]
        for r in range(n):
            if r != c and A[r][c] != 0:
                f = A[r][c]
                A[r] = [a - f * b for a, b in zip(A[r], A[c])]
    return [A[i][n] for i in range(n)]


def vertices(A, b):
    m = len(A)
    n = len(A[0]) if A else 0
    rows = [(list(A[i]), b[i]) for i in range(m)] + [([-1 if j == k else 0 for j in range(n)], 0) for k in range(n)]
    out = []
    for idx in combinations(range(len(rows)), n):
        x = _solve_sq([rows[i][0] for i in idx], [rows[i][1] for i in idx])
        if x is None:
            continue
        if all(sum(Fr(a) * xi for a, xi in zip(r, x)) <= Fr(bb) for r, bb in rows):
            out.append(x)
    return out


def lp_vertices(c, A, b, minimize=True):
    n = len(c)
    cc = [Fr(x) if minimize else -Fr(x) for x in c]
    V = vertices(A, b)
    if not V:
        return "infeasible", None, None
    A2 = [list(r) for r in A] + [[1] * n, [-1] * n]
    b2 = [0] * len(A) + [1, -1]
    for d in vertices(A2, b2):
        if sum(ci * di for ci, di in zip(cc, d)) < 0:
            return "unbounded", None, None
    best = min(V, key=lambda x: sum(ci * xi for ci, xi in zip(cc, x)))
    val = sum(ci * xi for ci, xi in zip(cc, best))
    return "optimal", (val if minimize else -val), best


def lp_simplex(c, A, b, minimize=True):
    m, n = len(A), len(c)
    cost = [Fr(x) if minimize else -Fr(x) for x in c]
    # rows: A x + s = b ; rows with b<0 are negated and get an artificial
    T = []
    art = []
    for i in range(m):
        row = [Fr(v) for v in A[i]] + [Fr(1) if j == i else Fr(0) for j in range(m)]
        rhs = Fr(b[i])
        if rhs < 0:
            row = [-v for v in row]
            rhs = -rhs
            art.append(i)
        T.append(row + [rhs])
    na = len(art)
    for k, i in enumerate(art):
        for r in range(m):
            T[r].insert(n + m + k, Fr(1) if r == i else Fr(0))
    ncols = n + m + na
    basis = [n + i for i in range(m)]
    for k, i in enumerate(art):
        basis[i] = n + m + k

    def run(obj, allowed):
        # obj: cost vector over all columns; reduced costs computed from scratch each iteration (simple, exact)
        while True:
            # reduced cost r_j = obj_j - sum_i obj_basis[i] * T[i][j]
            enter = None
            for j in range(ncols):
                if j in basis or j not in allowed:
                    continue
                r = obj[j] - sum(obj[basis[i]] * T[i][j] for i in range(m))
                if r < 0:
                    enter = j
                    break  # Bland: smallest index
            if enter is None:
                return "optimal"
            leave = None
            best = None
            for i in range(m):
                if T[i][enter] > 0:
                    ratio = T[i][-1] / T[i][enter]
                    if best is None or ratio < best or (ratio == best and basis[i] < basis[leave]):
                        best, leave = ratio, i
            if leave is None:
                return "unbounded"
            pv = T[leave][enter]
            T[leave] = [v / pv for v in T[leave]]
            for i in range(m):
                if i != leave and T[i][enter] != 0:
                    f = T[i][enter]
                    T[i] = [a - f * bb for a, bb in zip(T[i], T[leave])]
            basis[leave] = enter

    if na:
        obj1 = [Fr(0)] * (n + m) + [Fr(1)] * na
        run(obj1, set(range(ncols)))
        if sum(T[i][-1] for i in range(m) if basis[i] >= n + m) > 0:
            return "infeasible", None, None
        # drive artificials out of the basis where possible
        for i in range(m):
            if basis[i] >= n + m:
                j = next((j for j in range(n + m) if T[i][j] != 0 and j not in basis), None)
                if j is not None:
                    pv = T[i][j]
                    T[i] = [v / pv for v in T[i]]
                    for r in range(m):
                        if r != i and T[r][j] != 0:
                            f = T[r][j]
                            T[r] = [a - f * bb for a, bb in zip(T[r], T[i])]
                    basis[i] = j
    obj2 = cost + [Fr(0)] * (m + na)
    st = run(obj2, set(range(n + m)))
    if st == "unbounded":
        return "unbounded", None, None
    x = [Fr(0)] * n
    for i in range(m):
        if basis[i] < n:
            x[basis[i]] = T[i][-1]
    val = sum(ci * xi for ci, xi in zip(cost, x))
    return "optimal", (val if minimize else -val), x


def feasible_point_ok(A, b, x):
    return all(xi >= 0 for xi in x) and all(sum(Fr(a) * xi for a, xi in zip(r, x)) <= Fr(bb) for r, bb in zip(A, b))


def selftest():
    rng = random.Random(2024)
    n_cases = 0
    for _ in range(400):
        n = rng.randint(1, 4)
        m = rng.randint(1, 5)
        A = [[rng.choice([-3, -2, -1, 0, 0, 1, 2, 3, Fr(1, 2)]) for _ in range(n)] for _ in range(m)]
        b = [rng.choice([-4, -2, -1, 0, 1, 2, 3, 6]) for _ in range(m)]
        c = [rng.randint(-4, 4) for _ in range(n)]
        mn = rng.random() < 0.5
        a1 = lp_vertices(c, A, b, mn)
        a2 = lp_simplex(c, A, b, mn)
        assert a1[0] == a2[0], (c, A, b, mn, a1, a2)
        if a1[0] == "optimal":
            assert a1[1] == a2[1], (c, A, b, mn, a1, a2)
            assert feasible_point_ok(A, b, a2[2]) and feasible_point_ok(A, b, a1[2])
        n_cases += 1
    return n_cases
