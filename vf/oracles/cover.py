"""Reference exact-cover enumeration on bit masks (no linked lists, no heuristics).

An instance is (rows, prim, sec): `rows[i]` is the bit mask of the columns in
which row i has a 1, `prim` / `sec` are the (disjoint) masks of primary and
secondary columns.  A *cover* is a set S of row indices such that

  * every row of S has at least one primary 1 (rows without one are never part
    of a cover: they would be optional decorations, solvOR never selects them),
  * every primary column has exactly one row of S with a 1 in it,
  * every secondary column has at most one row of S with a 1 in it.

Duplicate rows are different rows, so they give different covers.

Three independently written enumerators:

  covers_subsets   subset DP over all 2^k subsets of the eligible rows (the
                   reference used by the check; k <= ~14),
  covers_recursive branch on the lowest uncovered primary column (no MRV, no
                   cover/uncover; works for larger k),
  covers_naive     itertools.combinations + column counting straight from the
                   definition (selftest only).

`violations(sel, ...)` is the validity predicate for one returned selection,
also straight from the definition (column counting, no masks).
"""
from __future__ import annotations

import itertools
import random


def masks(matrix, primary_cols):
    """0/1 matrix + iterable of primary column indices -> (rows, prim, sec)."""
    ncols = len(matrix[0]) if matrix else 0
    rows = []
    for r in matrix:
        m = 0
        for j, v in enumerate(r):
            if v:
                m |= 1 << j
        rows.append(m)
    prim = 0
    for j in primary_cols:
        prim |= 1 << j
    sec = ((1 << ncols) - 1) & ~prim
    return rows, prim, sec


def eligible(rows, prim):
    return [i for i, m in enumerate(rows) if m & prim]


def covers_subsets(rows, prim, sec):
    """Set of frozensets of row indices.  un[s] = union of the rows of subset s, or -1
    as soon as two of them overlap (in any column: primary twice or secondary twice)."""
    el = eligible(rows, prim)
    k = len(el)
    if k > 16:
        raise ValueError("too many eligible rows for the subset reference")
    un = [0] * (1 << k)
    out = set()
    if prim == 0:
        out.add(frozenset())
    for s in range(1, 1 << k):
        low = s & -s
        rest = un[s ^ low]
        if rest < 0:
            un[s] = -1
            continue
        m = rows[el[low.bit_length() - 1]]
        if rest & m:
            un[s] = -1
            continue
        u = rest | m
        un[s] = u
        if u & prim == prim:
            out.add(frozenset(el[b] for b in range(k) if s >> b & 1))
    return out


def covers_recursive(rows, prim, sec, limit=None):
    """Branch on the lowest-numbered uncovered primary column."""
    out = set()
    by_col = {}
    for i, m in enumerate(rows):
        if m & prim:
            j = 0
            mm = m
            while mm:
                if mm & 1 and prim >> j & 1:
                    by_col.setdefault(j, []).append(i)
                mm >>= 1
                j += 1
    chosen = []

    def rec(used):
        if limit is not None and len(out) >= limit:
            return
        todo = prim & ~used
        if not todo:
            out.add(frozenset(chosen))
            return
        j = (todo & -todo).bit_length() - 1
        for i in by_col.get(j, ()):
            if rows[i] & used == 0:
                chosen.append(i)
                rec(used | rows[i])
                chosen.pop()

    rec(0)
    return out


def covers_naive(matrix, primary_cols, ncols=None):
    """Definition, literally: every subset of rows, count the 1s per column."""
    if ncols is None:
        ncols = len(matrix[0]) if matrix else 0
    pset = set(primary_cols)
    n = len(matrix)
    out = set()
    for size in range(n + 1):
        for comb in itertools.combinations(range(n), size):
            if any(not any(matrix[i][j] for j in pset) for i in comb):
                continue
            ok = True
            for j in range(ncols):
                c = sum(1 for i in comb if matrix[i][j])
                if (j in pset and c != 1) or (j not in pset and c > 1):
                    ok = False
                    break
            if ok:
                out.add(frozenset(comb))
    return out


def violations(sel, matrix, primary_cols, ncols=None):
    """Why `sel` (sequence of row indices) is not an exact cover; [] if it is one."""
    n = len(matrix)
    if ncols is None:
        ncols = len(matrix[0]) if matrix else 0
    pset = set(primary_cols)
    bad = []
    for i in sel:
        if isinstance(i, bool) or not isinstance(i, int) or not 0 <= i < n:
            return [("bad-row-index", repr(i))]
    if len(set(sel)) != len(sel):
        bad.append(("row-repeated", sorted(sel)))
    for i in sel:
        if not any(matrix[i][j] for j in pset):
            bad.append(("row-without-primary", i))
    for j in range(ncols):
        c = sum(1 for i in sel if matrix[i][j])
        if j in pset:
            if c == 0:
                bad.append(("primary-uncovered", j))
            elif c > 1:
                bad.append(("primary-covered-twice", j))
        elif c > 1:
            bad.append(("secondary-covered-twice", j))
    return bad


def selftest():
    rng = random.Random(20260925)
    cases = 0
    for it in range(500):
        ncols = rng.randint(1, 6)
        nrows = rng.randint(0, 8)
        dens = rng.choice([0.2, 0.3, 0.45, 0.6])
        matrix = [[1 if rng.random() < dens else 0 for _ in range(ncols)] for _ in range(nrows)]
        if nrows and it % 3 == 0:  # plant a cover
            nb = rng.randint(1, min(3, nrows))
            for i in range(nb):
                matrix[i] = [0] * ncols
            for j in range(ncols):
                matrix[rng.randrange(nb)][j] = 1
            if nrows > nb:
                matrix[nb] = list(matrix[0])  # duplicate row
            rng.shuffle(matrix)
        kind = rng.randrange(4)
        if kind == 0:
            primary = list(range(ncols))
        elif kind == 1:
            primary = []
        else:
            primary = [j for j in range(ncols) if rng.random() < 0.7]
        rows, prim, sec = masks(matrix, primary)
        a = covers_subsets(rows, prim, sec)
        b = covers_recursive(rows, prim, sec)
        c = covers_naive(matrix, primary, ncols)
        assert a == b == c, (matrix, primary, sorted(map(sorted, a)), sorted(map(sorted, b)), sorted(map(sorted, c)))
        for s in a:
            assert violations(sorted(s), matrix, primary, ncols) == [], (matrix, primary, s)
        # every non-cover subset of at most 3 rows is rejected by the validity predicate
        for size in range(0, min(3, nrows) + 1):
            for comb in itertools.combinations(range(nrows), size):
                if frozenset(comb) not in a:
                    assert violations(list(comb), matrix, primary, ncols), (matrix, primary, comb)
        lim = covers_recursive(rows, prim, sec, limit=2)
        assert lim <= a and len(lim) == min(2, len(a))
        cases += 1
    return cases
