"""Exact references for one-dimensional cutting stock / integer covering with explicit columns.

Problem: columns (patterns) p in N^m, demands d in N^m; choose non-negative integer multiplicities
x_p minimising sum x_p subject to sum_p p_i x_p >= d_i for every row i.  In cutting-stock mode the
columns are the patterns that fit a roll: sum_i p_i * size_i <= W.

Nothing here imports solvOR and nothing is written the way solvor/cg.py / bp.py work (restricted
master LP by a float tableau simplex + knapsack pricing + rounding / branching):

* min_cover        : memoised DP over remaining-demand vectors ("which column serves the first
                     still-open row?"), exact, any column set;
* lp_bound         : exact optimum of the LP relaxation in `fractions.Fraction`, computed on the
                     *dual* (max d.y, p.y <= 1, y >= 0; slack basis feasible, Bland's rule; constraint
                     generation when there are many columns) - used by the checks only to *label*
                     cases (fractional LP bound), never for a verdict;
* second opinions  : bin packing by branch and bound over the expanded item list (cutting stock is
                     bin packing with repeated items), brute force over multisets of columns in
                     increasing cardinality, and enumeration of all vertices of the dual polytope
                     (every choice of m tight constraints, Cramer/Gauss in Fractions).
"""
from __future__ import annotations

import itertools
import random
from fractions import Fraction
from functools import lru_cache


# ----------------------------------------------------------------------------- patterns
def fits(pattern, W, sizes) -> bool:
    return sum(k * s for k, s in zip(pattern, sizes)) <= W


def feasible_patterns(W, sizes, nonzero=True):
    """All p in N^n with sum p_i*size_i <= W (sizes positive ints), lexicographic order."""
    n = len(sizes)
    out = []
    cur = [0] * n

    def rec(i, rem):
        if i == n:
            if not nonzero or any(cur):
                out.append(tuple(cur))
            return
        for k in range(rem // sizes[i] + 1):
            cur[i] = k
            rec(i + 1, rem - k * sizes[i])
        cur[i] = 0

    rec(0, W)
    return out


def maximal_patterns(W, sizes):
    """Feasible patterns to which no further piece can be added."""
    if not sizes:
        return []
    smin = min(sizes)
    return [p for p in feasible_patterns(W, sizes) if W - sum(k * s for k, s in zip(p, sizes)) < smin]


# ----------------------------------------------------------------------------- exact optimum
def min_cover(columns, demands):
    """Minimum number of columns (with repetition) whose sum is >= demands componentwise.

    Returns (optimum, plan) with plan a dict column -> multiplicity, or (None, None) when some
    demanded row is covered by no column.  DP over the remaining-demand vector: the first row that is
    still open must be served by some chosen column, and the order of the columns is immaterial, so it
    is enough to branch over the columns that serve that row.
    """
    m = len(demands)
    start = tuple(int(d) for d in demands)
    # An integer plan never profits from more than d_i copies of piece i in one column: clip, merge equal
    # columns, drop columns dominated componentwise (a used column can be swapped for its dominator).
    orig = {}
    for c in sorted({tuple(c) for c in columns}):
        cc = tuple(min(k, d) for k, d in zip(c, start))
        if any(cc):
            orig.setdefault(cc, c)
    cols = []
    for c in sorted(orig, key=lambda c: (-sum(c), c)):
        if not any(all(a >= b for a, b in zip(k, c)) for k in cols):
            cols.append(c)
    by_row = [[c for c in cols if c[i] > 0] for i in range(m)]
    INF = float("inf")

    @lru_cache(maxsize=None)
    def f(rem):
        i = next((j for j in range(m) if rem[j] > 0), None)
        if i is None:
            return 0, None
        best, arg = INF, None
        for c in by_row[i]:
            v = f(tuple(r - k if r > k else 0 for r, k in zip(rem, c)))[0] + 1
            if v < best:
                best, arg = v, c
        return best, arg

    opt = f(start)[0]
    if opt == INF:
        return None, None
    plan = {}
    rem = start
    while any(rem):
        c = f(rem)[1]
        plan[orig[c]] = plan.get(orig[c], 0) + 1
        rem = tuple(r - k if r > k else 0 for r, k in zip(rem, c))
    return opt, plan


def min_rolls(W, sizes, demands):
    """Cutting stock optimum (number of rolls).  Maximal patterns suffice under >= semantics."""
    if not any(demands):
        return 0
    opt, _ = min_cover(maximal_patterns(W, sizes), demands)
    return opt


# ----------------------------------------------------------------------------- LP relaxation (exact)
def _dual_lp(cols, dvec):
    """max dvec.y  s.t.  c.y <= 1 for c in cols, y >= 0  (exact).  Returns (value, y) or None if unbounded.

    Condensed (Tucker) tableau: basic variables label the rows, non-basic ones the columns; T[r] = coefficients
    of the non-basic variables + [rhs], z = reduced costs + [objective value].  The all-slack basis is feasible
    because the right-hand sides are 1 > 0, so a single primal-simplex phase does it.  Bland's rule (no cycling).
    """
    m, k = len(dvec), len(cols)
    T = [[Fraction(c[j]) for j in range(m)] + [Fraction(1)] for c in cols]
    z = [Fraction(-d) for d in dvec] + [Fraction(0)]
    col_var = list(range(m))  # y_j
    row_var = [m + r for r in range(k)]  # slack of column r
    while True:
        cands = [j for j in range(m) if z[j] < 0]
        if not cands:
            y = [Fraction(0)] * m
            for r in range(k):
                if row_var[r] < m:
                    y[row_var[r]] = T[r][-1]
            return z[-1], y
        enter = min(cands, key=lambda j: col_var[j])  # Bland
        leave, ratio = None, None
        for r in range(k):
            if T[r][enter] > 0:
                q = T[r][-1] / T[r][enter]
                if ratio is None or q < ratio or (q == ratio and row_var[r] < row_var[leave]):
                    leave, ratio = r, q
        if leave is None:
            return None
        piv = T[leave][enter]
        prow = [v / piv for v in T[leave]]
        prow[enter] = 1 / piv
        for r in range(k):
            if r != leave:
                fct = T[r][enter]
                if fct != 0:
                    row = [a - fct * b for a, b in zip(T[r], prow)]
                    row[enter] = -fct / piv
                    T[r] = row
        fct = z[enter]
        z = [a - fct * b for a, b in zip(z, prow)]
        z[enter] = -fct / piv
        T[leave] = prow
        col_var[enter], row_var[leave] = row_var[leave], col_var[enter]


def lp_bound(columns, demands, direct_below=40):
    """Exact optimum (Fraction) of  min sum x, sum_p p_i x_p >= d_i, x >= 0;  None if infeasible.

    Solved on the dual  max d.y  s.t.  p.y <= 1 for every column, y >= 0.  Rows with demand 0 are dropped (their
    dual price can be taken as 0).  With many columns (thousands of maximal patterns, massively degenerate: the
    full tableau needed > 1000 pivots of 25 000 Fraction operations on W=20, sizes [3,1,1,1,1]) the dual is solved
    by constraint generation: optimise over a small subset of the columns, add the columns whose constraint the
    optimiser y violates most, repeat; a y that is optimal for the subset and feasible for all columns is optimal.
    """
    rows = [i for i, d in enumerate(demands) if d > 0]
    if not rows:
        return Fraction(0)
    cols = sorted({tuple(c[i] for i in rows) for c in columns})
    cols = [c for c in cols if any(c)]
    m = len(rows)
    dvec = [demands[i] for i in rows]
    for j in range(m):
        if not any(c[j] for c in cols):
            return None  # dual unbounded in y_j
    if len(cols) < direct_below:
        res = _dual_lp(cols, dvec)
        return None if res is None else res[0]
    active = []
    for j in range(m):  # bounds every y_j, so the restricted problems are bounded
        c = max(cols, key=lambda c: (c[j], c))
        if c not in active:
            active.append(c)
    while True:
        val, y = _dual_lp(active, dvec)
        viol = sorted(((sum(a * b for a, b in zip(c, y)), c) for c in cols), reverse=True)[:4]
        new = [c for v, c in viol if v > 1 and c not in active]
        if not new:
            return val
        active.extend(new)


def ceil_frac(q: Fraction) -> int:
    return -((-q.numerator) // q.denominator)


def material_bound(W, sizes, demands) -> int:
    return ceil_frac(Fraction(sum(s * d for s, d in zip(sizes, demands)), W))


# ----------------------------------------------------------------------------- second opinions
def _bin_pack_min(W, items):
    """Minimum number of bins of capacity W for the item list (branch and bound, first-fit seeded)."""
    items = sorted(items, reverse=True)
    n = len(items)
    if n == 0:
        return 0
    best = [n]
    loads = []

    def rec(i):
        if len(loads) >= best[0]:
            return
        if i == n:
            best[0] = len(loads)
            return
        seen = set()
        for b in range(len(loads)):
            if loads[b] + items[i] <= W and loads[b] not in seen:
                seen.add(loads[b])
                loads[b] += items[i]
                rec(i + 1)
                loads[b] -= items[i]
        loads.append(items[i])
        rec(i + 1)
        loads.pop()

    rec(0)
    return best[0]


def _brute_cover(columns, demands, kmax=8):
    """Smallest k such that some multiset of k columns covers the demands (None if > kmax)."""
    cols = sorted({tuple(c) for c in columns})
    m = len(demands)
    for k in range(kmax + 1):
        for combo in itertools.combinations_with_replacement(cols, k):
            if all(sum(c[i] for c in combo) >= demands[i] for i in range(m)):
                return k
    return None


def _solve_square(A, b):
    """Gauss elimination in Fractions; None if singular."""
    n = len(A)
    M = [list(map(Fraction, A[i])) + [Fraction(b[i])] for i in range(n)]
    for c in range(n):
        p = next((r for r in range(c, n) if M[r][c] != 0), None)
        if p is None:
            return None
        M[c], M[p] = M[p], M[c]
        pv = M[c][c]
        M[c] = [v / pv for v in M[c]]
        for r in range(n):
            if r != c and M[r][c] != 0:
                f = M[r][c]
                M[r] = [a - f * bb for a, bb in zip(M[r], M[c])]
    return [M[i][-1] for i in range(n)]


def _lp_by_vertices(columns, demands):
    """max d.y over the vertices of {p.y <= 1, y >= 0} (bounded case only): every m-subset of constraints."""
    m = len(demands)
    cons = [(tuple(c), 1) for c in sorted({tuple(c) for c in columns}) if any(c)]
    cons += [(tuple(-int(i == j) for j in range(m)), 0) for i in range(m)]  # -y_i <= 0
    best = None
    for sub in itertools.combinations(cons, m):
        y = _solve_square([a for a, _ in sub], [r for _, r in sub])
        if y is None:
            continue
        if all(sum(a[j] * y[j] for j in range(m)) <= r for a, r in cons):
            v = sum(Fraction(d) * yy for d, yy in zip(demands, y))
            if best is None or v > best:
                best = v
    return best


def selftest() -> int:
    rng = random.Random(170017)
    n_cases = 0
    # (a) cutting stock: DP over maximal patterns == DP over all feasible patterns == bin packing B&B
    for _ in range(400):
        W = rng.randint(3, 12)
        n = rng.randint(1, 4)
        sizes = [rng.randint(1, W) for _ in range(n)]
        dem = [rng.randint(0, 4 if n > 2 else 5) for _ in range(n)]
        if sum(dem) > 11:
            dem = [min(d, 2) for d in dem]
        a = min_rolls(W, sizes, dem)
        b, plan = min_cover(feasible_patterns(W, sizes), dem)
        items = [s for s, d in zip(sizes, dem) for _ in range(d)]
        c = _bin_pack_min(W, items)
        if not (a == b == c):
            raise AssertionError(f"cutstock optimum: W={W} sizes={sizes} dem={dem}: maximal={a} all={b} binpack={c}")
        if plan is not None:
            if sum(plan.values()) != b or any(not fits(p, W, sizes) for p in plan):
                raise AssertionError(f"cutstock plan inconsistent: {W} {sizes} {dem} {plan}")
            if any(sum(p[i] * k for p, k in plan.items()) < dem[i] for i in range(n)):
                raise AssertionError(f"cutstock plan misses a demand: {W} {sizes} {dem} {plan}")
        pats = maximal_patterns(W, sizes)
        lp = lp_bound(pats, dem)
        if lp != lp_bound(pats, dem, direct_below=0) or lp != lp_bound(pats, dem, direct_below=10**9):
            raise AssertionError(f"LP direct vs constraint generation: W={W} sizes={sizes} dem={dem}")
        if lp is None or lp > a or ceil_frac(lp) < material_bound(W, sizes, dem) or lp != lp_bound(feasible_patterns(W, sizes), dem):
            raise AssertionError(f"cutstock LP bound out of order: W={W} sizes={sizes} dem={dem} lp={lp} opt={a}")
        if lp < Fraction(sum(s * d for s, d in zip(sizes, dem)), W):
            raise AssertionError(f"LP bound below material bound: W={W} sizes={sizes} dem={dem} lp={lp}")
        n_cases += 1
    # (b) arbitrary column pools: DP == brute force over multisets; infeasibility agrees
    for _ in range(400):
        m = rng.randint(1, 3)
        pool = [tuple(rng.choice([0, 0, 1, 1, 2, 3]) for _ in range(m)) for _ in range(rng.randint(1, 5))]
        dem = [rng.randint(0, 4) for _ in range(m)]
        a, plan = min_cover(pool, dem)
        b = _brute_cover(pool, dem, kmax=8)
        coverable = all(d == 0 or any(c[i] for c in pool) for i, d in enumerate(dem))
        if (a is None) != (not coverable):
            raise AssertionError(f"cover feasibility: pool={pool} dem={dem} dp={a}")
        if a is not None and a <= 8 and a != b:
            raise AssertionError(f"cover optimum: pool={pool} dem={dem} dp={a} brute={b}")
        if a is not None and any(sum(p[i] * k for p, k in plan.items()) < dem[i] for i in range(m)):
            raise AssertionError(f"cover plan misses a demand: {pool} {dem} {plan}")
        lp = lp_bound(pool, dem)
        if (lp is None) != (a is None):
            raise AssertionError(f"LP feasibility: pool={pool} dem={dem} lp={lp} dp={a}")
        if lp is not None:
            rows = [i for i, d in enumerate(dem) if d > 0]
            if rows:
                v = _lp_by_vertices([tuple(c[i] for i in rows) for c in pool], [dem[i] for i in rows])
                if v != lp or lp > a:
                    raise AssertionError(f"LP optimum: pool={pool} dem={dem} simplex={lp} vertices={v} int={a}")
        n_cases += 1
    # (c) the textbook witnesses
    if min_rolls(6, [2, 2, 2, 3], [4, 1, 1, 1]) != 3 or min_rolls(10, [6, 4], [1, 1]) != 1:
        raise AssertionError("cutstock fixed examples")
    if lp_bound(maximal_patterns(10, [4]), [3]) != Fraction(3, 2):
        raise AssertionError("lp fixed example")
    return n_cases + 3
