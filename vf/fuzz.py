"""Coverage-guided amplifier (DESIGN §2.10): atheris/libFuzzer drives the SAME property function through
Hypothesis's `fuzz_one_input`, with solvOR's modules instrumented for coverage.  It adds reach (the byte
mutations are guided by new coverage in the solver), not a new oracle.

    python -m vf.fuzz Cxx --sub NAME [--runs N] [--max-len L]

exit 0: no violation in N executions; exit 1: `VIOLATION property=Cxx replay=<path>` printed; exit 2: harness error.
A summary line `AMPLIFIER ...` with executions / distinct non-trivial cases is printed for the evidence.
"""
from __future__ import annotations

import argparse
import importlib
import json
import os
import shutil
import sys
import tempfile


def main(argv=None) -> int:
    ap = argparse.ArgumentParser()
    ap.add_argument("prop")
    ap.add_argument("--sub", required=True)
    ap.add_argument("--runs", type=int, default=20000)
    ap.add_argument("--max-len", type=int, default=4096)
    ap.add_argument("--instrument", default="solvor")
    a = ap.parse_args(argv)
    seed = int(os.environ.get("VERIF_SEED", "1") or "1")
    from . import harness, shadow

    prop = a.prop.upper()
    try:
        import atheris
    except ImportError:
        print("HARNESS-ERROR: atheris not installed (setup_cmd installs it into /verif/.deps)", file=sys.stderr)
        return 2
    try:
        # put the shadow on sys.path without importing it, then import under instrumentation
        d = shadow.build_shadow(prop + "-fuzz", with_rust=False, do_import=False)
        with atheris.instrument_imports(include=[a.instrument]):
            import solvor  # noqa: F401

            for m in ("sat", "dlx", "cp", "cp_encoder", "flow", "simplex", "milp"):
                importlib.import_module("solvor." + m)
        if not os.path.abspath(solvor.__file__).startswith(d):
            raise shadow.HarnessError("solvor not imported from the shadow copy")
        module = importlib.import_module(f"vf.checks.{prop.lower()}")
        sub = next(s for s in module.SUBS if s.name == a.sub)
    except shadow.HarnessError as e:
        print(f"HARNESS-ERROR: {e}", file=sys.stderr)
        return 2
    ctx = harness.Ctx("thorough", seed)
    known = harness.load_findings(prop)
    test, stats, st = harness.make_given_test(module, sub, ctx, 10**9, seed, known, 10**9)
    fuzz_one = test.hypothesis.fuzz_one_input
    corpus = tempfile.mkdtemp(prefix="vf-fuzz-corpus-", dir=shadow.BUILD)
    import random

    rng = random.Random(seed)  # a few deterministic byte strings so the first executions already decode to real cases
    for i, ln in enumerate((64, 256, 1024, 2048)):
        with open(os.path.join(corpus, f"seed{i}"), "wb") as f:
            f.write(bytes(rng.randrange(256) for _ in range(ln)))

    def finish(code):
        print(
            f"AMPLIFIER property={prop} sub={a.sub} executions={stats.evaluations} distinct_nontrivial={len(stats.nontrivial)} "
            f"known={dict(stats.known)} inconclusive={dict(stats.inconclusive)} labels={dict(stats.labels.most_common(6))}"
        )
        out = os.path.join(shadow.BUILD, f"amplifier-{prop}-{a.sub}.json")
        json.dump({"executions": stats.evaluations, "distinct_nontrivial": len(stats.nontrivial), "labels": dict(stats.labels.most_common(12)), "samples": stats.samples[:2]}, open(out, "w"), default=harness._default)
        shutil.rmtree(corpus, ignore_errors=True)
        sys.stdout.flush()
        os._exit(code)

    count = {"n": 0}

    def target(data: bytes):
        count["n"] += 1
        try:
            fuzz_one(data)
        except harness.Violation:
            viol = harness._viol(sub, st)
            path = harness.write_replay(prop, viol)
            print(f"VIOLATION property={prop} replay={os.path.relpath(path, shadow.VERIF)}   # {viol['bucket']} (amplifier)")
            finish(1)
        if count["n"] >= a.runs:
            finish(0)

    argv2 = [sys.argv[0], corpus, f"-runs={a.runs + 10}", f"-seed={seed}", f"-max_len={a.max_len}", "-len_control=0", "-verbosity=0", "-print_final_stats=0"]
    atheris.Setup(argv2, target)
    atheris.Fuzz()
    finish(0)
    return 0


if __name__ == "__main__":
    sys.exit(main())
