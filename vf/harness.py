"""Case recording, bucketing, known findings, evidence, VIOLATION lines (DESIGN §2.3–2.7)."""
from __future__ import annotations

import collections
import hashlib
import json
import multiprocessing
import os
import sys
import time
import traceback
from dataclasses import dataclass, field
from typing import Any, Callable

from .budget import CaseTimeout, StepBudgetExceeded, wall
from .shadow import VERIF, HarnessError


# ----------------------------------------------------------------------------- exceptions
class Violation(Exception):
    """The oracle disagrees with solvOR.  bucket = which clause of the property, where."""

    def __init__(self, bucket: str, detail: Any = None):
        super().__init__(bucket)
        self.bucket = bucket
        self.detail = detail


class Inconclusive(Exception):
    def __init__(self, reason: str):
        super().__init__(reason)
        self.reason = reason


class Discard(Exception):
    """The description cannot be built into a valid input (counted, never reported)."""


class Crash(Exception):
    """solvOR raised on an input the generator considers valid."""

    def __init__(self, exc: BaseException):
        self.exc_type = type(exc).__name__
        self.msg = str(exc)[:300]
        tb = traceback.extract_tb(exc.__traceback__)
        frames = [f for f in tb if "/solvor/" in f.filename]
        f = frames[-1] if frames else (tb[-1] if tb else None)
        self.where = f"{os.path.basename(f.filename)}:{f.name}" if f else "?"
        super().__init__(f"{self.exc_type} at {self.where}: {self.msg}")


def canon(desc) -> str:
    return json.dumps(desc, sort_keys=True, separators=(",", ":"), default=_default)


def _default(o):
    if isinstance(o, (set, frozenset)):
        return sorted(o, key=repr)
    if isinstance(o, tuple):
        return list(o)
    from fractions import Fraction

    if isinstance(o, Fraction):
        return str(o)
    return repr(o)


def chash(desc) -> str:
    return hashlib.sha1(canon(desc).encode()).hexdigest()[:16]


# ----------------------------------------------------------------------------- ctx / stats
class Ctx:
    """Handed to every property function: labels, non-triviality, counters, solver calls."""

    def __init__(self, tier: str, seed: int):
        self.tier = tier
        self.seed = seed
        self._labels: set[str] = set()
        self._nontrivial = False
        self._counts = collections.Counter()
        self._sizes: dict[str, float] = {}

    def begin(self):
        self._labels = set()
        self._nontrivial = False

    def label(self, *names):
        for n in names:
            if n:
                self._labels.add(str(n))

    def nontrivial(self, flag=True):
        if flag:
            self._nontrivial = True

    def count(self, key, n=1):
        self._counts[key] += n

    def size(self, key, v):
        if v > self._sizes.get(key, float("-inf")):
            self._sizes[key] = v

    @staticmethod
    def call(fn, *a, **kw):
        """Call into solvOR; anything it raises (other than our control flow) is a Crash."""
        try:
            return fn(*a, **kw)
        except (Violation, Inconclusive, Discard):
            raise
        except Exception as e:  # noqa: BLE001
            raise Crash(e) from e


@dataclass
class Stats:
    evaluations: int = 0
    steps: int = 0
    nontrivial: set = field(default_factory=set)
    labels: collections.Counter = field(default_factory=collections.Counter)
    counts: collections.Counter = field(default_factory=collections.Counter)
    known: collections.Counter = field(default_factory=collections.Counter)
    inconclusive: collections.Counter = field(default_factory=collections.Counter)
    discards: int = 0
    sizes: dict = field(default_factory=dict)
    samples: list = field(default_factory=list)
    label_samples: dict = field(default_factory=dict)
    inconclusive_samples: dict = field(default_factory=dict)
    exhaustive: bool = False
    budget_hit: bool = False

    def merge(self, o: "Stats"):
        self.evaluations += o.evaluations
        self.steps += o.steps
        self.nontrivial |= o.nontrivial
        self.labels.update(o.labels)
        self.counts.update(o.counts)
        self.known.update(o.known)
        self.inconclusive.update(o.inconclusive)
        self.discards += o.discards
        for k, v in o.sizes.items():
            if v > self.sizes.get(k, float("-inf")):
                self.sizes[k] = v
        for s in o.samples:
            if len(self.samples) < 4:
                self.samples.append(s)
        for k, v in o.label_samples.items():
            self.label_samples.setdefault(k, v)
        for k, v in o.inconclusive_samples.items():
            self.inconclusive_samples.setdefault(k, v)
        self.exhaustive = self.exhaustive or o.exhaustive
        self.budget_hit = self.budget_hit or o.budget_hit


@dataclass
class Sub:
    """One generated check of a property."""

    name: str
    run: Callable[[Any, Ctx], None]  # raises Violation
    strategy: Callable[[str], Any] | None = None  # tier -> hypothesis strategy of JSON-able descs
    quick: int = 200  # examples per worker
    thorough: int = 2000
    workers_quick: int = 1
    workers_thorough: int = 16
    enumerate: Callable[[str], Any] | None = None  # tier -> iterable of descs (exhaustive sub-run)
    machine: Callable[[Ctx, str], type] | None = None  # -> HistMachine subclass
    steps_quick: int = 30
    steps_thorough: int = 50
    case_timeout: float = 60.0
    crash: str = "violation"  # or "inconclusive"
    hang: str = "inconclusive"  # "violation": a StepBudgetExceeded escaping run() means "does not return" (margin >=100x)
    wall_quick: float = 150.0  # generation stops (inconclusive, never an alarm) after this
    wall_thorough: float = 900.0


# ----------------------------------------------------------------------------- known findings
@dataclass
class Finding:
    kind: str  # known | fixed
    prop: str
    fid: str
    cls: str
    witness: str
    what: str
    commit: str = ""


def load_findings(prop: str) -> list[Finding]:
    path = os.path.join(VERIF, "known_findings.txt")
    out = []
    if not os.path.exists(path):
        return out
    for line in open(path):
        line = line.strip()
        if not line or line.startswith("#"):
            continue
        kind, _, rest = line.partition(":")
        kind = kind.strip()
        if kind not in ("known", "fixed"):
            continue
        rest = rest.strip()
        what = ""
        if " what=" in rest:
            rest, _, what = rest.partition(" what=")
        kv = {}
        free = []
        for tok in rest.split():
            if "=" in tok:
                k, _, v = tok.partition("=")
                kv[k] = v
            else:
                free.append(tok)
        if kv.get("property") != prop:
            continue
        out.append(
            Finding(kind, prop, kv.get("id", ""), kv.get("class", ""), kv.get("witness", ""), what or " ".join(free), kv.get("commit", free[0] if free else ""))
        )
    return out


# ----------------------------------------------------------------------------- case execution
def _classify_known(module, desc, v: Violation, known: list[Finding]) -> str | None:
    preds = getattr(module, "KNOWN_CLASSES", {})
    for f in known:
        if f.kind != "known":
            continue
        p = preds.get(f.cls)
        if p is not None and p(desc, v):
            return f.fid
    return None


def exec_case(module, sub: Sub, desc, ctx: Ctx, stats: Stats, known: list[Finding], count=True):
    """Run one case.  Returns a Violation (not attributed to a known finding) or None."""
    ctx.begin()
    if count:
        stats.evaluations += 1
    out = None
    try:
        with wall(sub.case_timeout):
            sub.run(desc, ctx)
    except Discard:
        stats.discards += 1
    except Inconclusive as e:
        stats.inconclusive[e.reason] += 1
        stats.inconclusive_samples.setdefault(e.reason, _clip(desc))
    except CaseTimeout:
        stats.inconclusive["wall-timeout"] += 1
        stats.inconclusive_samples.setdefault("wall-timeout", _clip(desc))
    except StepBudgetExceeded:
        if sub.hang == "violation":
            out = Violation("does-not-return:step-budget-exceeded", None)
        else:
            stats.inconclusive["step-budget"] += 1
            stats.inconclusive_samples.setdefault("step-budget", _clip(desc))
    except Crash as c:
        if sub.crash == "violation":
            out = Violation(f"crash:{c.exc_type}@{c.where}", c.msg)
        else:
            stats.inconclusive[f"crash:{c.exc_type}@{c.where}"] += 1
            stats.inconclusive_samples.setdefault(f"crash:{c.exc_type}@{c.where}", _clip(desc))
    except Violation as v:
        out = v
    if out is not None:
        fid = _classify_known(module, desc, out, known)
        if fid:
            if count:
                stats.known[fid] += 1
            out = None
    if count:
        for lab in ctx._labels:
            stats.labels[lab] += 1
            if lab not in stats.label_samples and len(stats.label_samples) < 12:
                stats.label_samples[lab] = _clip(desc)
        if ctx._nontrivial:
            h = chash(desc)
            if h not in stats.nontrivial:
                stats.nontrivial.add(h)
                if len(stats.samples) < 4:
                    stats.samples.append(_clip(desc))
        stats.counts.update(ctx._counts)
        ctx._counts.clear()
        for k, v in ctx._sizes.items():
            if v > stats.sizes.get(k, float("-inf")):
                stats.sizes[k] = v
    return out


def _clip(desc, limit=1500):
    s = canon(desc)
    if len(s) <= limit:
        return json.loads(s)
    return {"clipped": s[:limit] + "…"}


# ----------------------------------------------------------------------------- hypothesis drivers
def _settings(n, steps=None, shrink=True):
    from hypothesis import HealthCheck, Phase, settings

    kw = dict(
        max_examples=n,
        database=None,
        deadline=None,
        derandomize=False,
        report_multiple_bugs=False,
        suppress_health_check=list(HealthCheck),
        print_blob=False,
        phases=[Phase.generate, Phase.shrink] if shrink else [Phase.generate],
    )
    if steps is not None:
        kw["stateful_step_count"] = steps
    return settings(**kw)


class _Stop(Exception):
    pass


def make_given_test(module, sub: Sub, ctx: Ctx, n: int, seed: int, known, wall_budget: float):
    """Returns (hypothesis test function, stats, state); shared by the Hypothesis driver and the atheris amplifier."""
    from hypothesis import given
    from hypothesis import seed as hseed

    stats = Stats()
    st = {"target": None, "last": None}
    t_end = time.time() + wall_budget

    @hseed(seed)
    @_settings(n)
    @given(sub.strategy(ctx.tier))
    def test(desc):
        if st["target"] is None and time.time() > t_end:
            stats.budget_hit = True  # inconclusive from here on, never an alarm
            return
        v = exec_case(module, sub, desc, ctx, stats, known, count=st["target"] is None)
        if v is not None:
            if st["target"] is None:
                st["target"] = v.bucket
            if v.bucket == st["target"]:
                st["last"] = (desc, v)
                raise v

    return test, stats, st


def run_given(module, sub: Sub, ctx: Ctx, n: int, seed: int, known, wall_budget: float):
    test, stats, st = make_given_test(module, sub, ctx, n, seed, known, wall_budget)
    try:
        test()
    except _Stop:
        pass
    except Violation:
        pass
    except Exception as e:  # hypothesis Flaky etc.
        if st["last"] is None:
            if stats.budget_hit and "Flaky" in type(e).__name__:
                stats.inconclusive["wall-budget-stop"] += 1  # same rule as run_machine: a budget stop is inconclusive
                return stats, None
            raise
        st["flaky"] = repr(e)[:300]
    return stats, _viol(sub, st)


def _viol(sub, st):
    if st.get("last") is None:
        return None
    desc, v = st["last"]
    return {"sub": sub.name, "case": json.loads(canon(desc)), "bucket": v.bucket, "detail": _clip(v.detail, 3000), "note": st.get("flaky", "")}


def run_enum(module, sub: Sub, ctx: Ctx, shard: int, nshards: int, known, wall_budget: float):
    stats = Stats()
    stats.exhaustive = True
    t_end = time.time() + wall_budget
    for i, desc in enumerate(sub.enumerate(ctx.tier)):
        if i % nshards != shard:
            continue
        if time.time() > t_end:
            stats.budget_hit = True
            stats.exhaustive = False
            break
        v = exec_case(module, sub, desc, ctx, stats, known)
        if v is not None:
            return stats, {"sub": sub.name, "case": json.loads(canon(desc)), "bucket": v.bucket, "detail": _clip(v.detail, 3000), "note": ""}
    return stats, None


def run_machine(module, sub: Sub, ctx: Ctx, n: int, seed: int, known, wall_budget: float):
    from hypothesis import seed as hseed
    from hypothesis.stateful import run_state_machine_as_test

    stats = Stats()
    st = {"target": None, "last": None}
    t_end = time.time() + wall_budget
    cls = sub.machine(ctx, ctx.tier)
    cls._vf = {"module": module, "sub": sub, "ctx": ctx, "stats": stats, "known": known, "st": st, "t_end": t_end}
    steps = sub.steps_thorough if ctx.tier == "thorough" else sub.steps_quick
    try:
        run_state_machine_as_test(hseed(seed)(cls), settings=_settings(n, steps=steps))
    except _Stop:
        pass
    except Violation:
        pass
    except Exception as e:
        if st["last"] is None:
            if stats.budget_hit and "Flaky" in type(e).__name__:
                # the wall budget ran out mid-search: machines created after that skip every step, which Hypothesis
                # reports as inconsistent data generation.  A budget stop is "inconclusive", never an error or a violation.
                stats.inconclusive["wall-budget-stop"] += 1
                return stats, None
            raise
        st["flaky"] = repr(e)[:300]
    return stats, _viol(sub, st)


def make_hist_machine():
    """Base class for rule-based machines whose histories are plain data.

    Subclasses implement rules that call self.step(name, **args) -> which records
    the step and then executes self.apply(name, args) (shared with replay).
    `apply` raises Violation when the model and the implementation disagree.
    """
    from hypothesis.stateful import RuleBasedStateMachine

    class HistMachine(RuleBasedStateMachine):
        _vf: dict = {}

        def __init__(self):
            super().__init__()
            self.hist = []
            self.vctx = self._vf["ctx"]
            self.vctx.begin()
            self._skip = False
            if self._vf["st"]["target"] is None and time.time() > self._vf["t_end"]:
                self._vf["stats"].budget_hit = True
                self._skip = True
                # end the search here: a machine that skips its steps has no consistent state for the rules to draw against
                raise _Stop()

        def step(self, name, **args):
            vf = self._vf
            if self._skip:
                return
            self.hist.append([name, args])
            counting = vf["st"]["target"] is None
            if counting:
                vf["stats"].steps += 1
            try:
                try:
                    with wall(vf["sub"].case_timeout):
                        self.apply(name, args)
                except Crash as c:
                    if vf["sub"].crash == "violation":
                        raise Violation(f"crash:{c.exc_type}@{c.where}", c.msg)
                    vf["stats"].inconclusive[f"crash:{c.exc_type}@{c.where}"] += 1
            except Violation as v:
                fid = _classify_known(vf["module"], self.hist, v, vf["known"])
                if fid:
                    vf["stats"].known[fid] += 1
                    return
                if vf["st"]["target"] is None:
                    vf["st"]["target"] = v.bucket
                if v.bucket == vf["st"]["target"]:
                    vf["st"]["last"] = (json.loads(canon(self.hist)), v)
                    raise

        def teardown(self):
            vf = self._vf
            if vf["st"]["target"] is not None or self._skip:
                return
            stats, ctx = vf["stats"], self.vctx
            stats.evaluations += 1
            for lab in ctx._labels:
                stats.labels[lab] += 1
                if lab not in stats.label_samples and len(stats.label_samples) < 12:
                    stats.label_samples[lab] = _clip(self.hist)
            if ctx._nontrivial:
                h = chash(self.hist)
                if h not in stats.nontrivial:
                    stats.nontrivial.add(h)
                    if len(stats.samples) < 4:
                        stats.samples.append(_clip(self.hist))
            stats.counts.update(ctx._counts)
            ctx._counts.clear()
            for k, v in ctx._sizes.items():
                if v > stats.sizes.get(k, float("-inf")):
                    stats.sizes[k] = v

    return HistMachine


# ----------------------------------------------------------------------------- orchestration
def _task(args):
    modname, subname, kind, tier, seed, n, shard, nshards, wall_budget = args
    import importlib

    module = importlib.import_module(modname)
    sub = next(s for s in module.SUBS if s.name == subname)
    ctx = Ctx(tier, seed)
    known = load_findings(module.PROPERTY)
    try:
        if kind == "enum":
            return subname, *run_enum(module, sub, ctx, shard, nshards, known, wall_budget), None
        if kind == "machine":
            return subname, *run_machine(module, sub, ctx, n, seed, known, wall_budget), None
        return subname, *run_given(module, sub, ctx, n, seed, known, wall_budget), None
    except BaseException as e:  # harness error inside a worker
        return subname, Stats(), None, "".join(traceback.format_exception(e))[-4000:]


def replay_file(module, path: str, known, quiet=False):
    """Re-execute one saved case with no Hypothesis involved. Returns Violation or None."""
    data = json.load(open(path))
    sub = next((s for s in module.SUBS if s.name == data["sub"]), None)
    if sub is None:
        raise HarnessError(f"{path}: unknown sub-check {data['sub']}")
    ctx = Ctx("quick", 0)
    stats = Stats()
    v = exec_case(module, sub, data["case"], ctx, stats, [], count=False)
    if v is None and stats.inconclusive:
        return Inconclusive(next(iter(stats.inconclusive)))
    return v


def write_replay(prop, viol) -> str:
    os.makedirs(os.path.join(VERIF, "replays"), exist_ok=True)
    body = {"property": prop, **viol}
    h = chash(body)
    path = os.path.join(VERIF, "replays", f"{prop}-{viol['sub']}-{h}.json")
    with open(path, "w") as f:
        json.dump(body, f, indent=1, default=_default)
    return path


def run_property(module, tier: str, seed: int, only: list[str] | None = None) -> int:
    """Returns the process exit code."""
    t0 = time.time()
    prop = module.PROPERTY
    known = load_findings(prop)
    violations = []
    lines = []

    # 1. regressions and witnesses (seconds; plain replays)
    regdir = os.path.join(VERIF, "regressions", prop)
    witness_of = {os.path.normpath(os.path.join(VERIF, f.witness)): f for f in known if f.witness}
    reg_run = 0
    files = sorted(os.path.join(regdir, f) for f in os.listdir(regdir)) if os.path.isdir(regdir) else []
    for w in witness_of:
        if w not in files and os.path.exists(w):
            files.append(w)
    for path in files:
        if not path.endswith(".json"):
            continue
        reg_run += 1
        v = replay_file(module, path, known)
        f = witness_of.get(os.path.normpath(path))
        rel = os.path.relpath(path, VERIF)
        if isinstance(v, Inconclusive):
            lines.append(f"note: regression {rel} inconclusive ({v.reason})")
        elif f is not None and f.kind == "known":
            if v is not None:
                lines.append(f"KNOWN-FINDING: property={prop} {f.what} [id={f.fid} witness={rel}]")
            else:
                lines.append(f"note: witness of known finding {f.fid} no longer fails ({rel})")
        elif v is not None:
            violations.append((rel, v.bucket))

    # 2. generated search
    subs = [s for s in module.SUBS if not only or s.name in only]
    tasks = []
    for s in subs:
        w = s.workers_thorough if tier == "thorough" else s.workers_quick
        n = s.thorough if tier == "thorough" else s.quick
        wb = s.wall_thorough if tier == "thorough" else s.wall_quick
        wb = wb * float(os.environ.get("VERIF_WALL_SCALE", "1"))  # experiments only: force the wall-budget path
        kind = "enum" if s.enumerate else ("machine" if s.machine else "given")
        for k in range(w):
            tasks.append((module.__name__, s.name, kind, tier, seed * 1000003 + k, n, k, w, wb))
    results = []
    nproc = min(16, len(tasks), int(os.environ.get("VERIF_JOBS", "16")))
    if nproc <= 1:
        results = [_task(t) for t in tasks]
    else:
        ctxm = multiprocessing.get_context("fork")
        with ctxm.Pool(nproc) as pool:
            results = pool.map(_task, tasks, chunksize=1)
    per_sub: dict[str, Stats] = collections.OrderedDict((s.name, Stats()) for s in subs)
    harness_errors = []
    for subname, stats, viol, err in results:
        per_sub[subname].merge(stats)
        if err:
            harness_errors.append((subname, err))
        if viol is not None:
            path = write_replay(prop, viol)
            violations.append((os.path.relpath(path, VERIF), viol["bucket"]))

    # 2b. coverage-guided amplifier (thorough tier only, modules that declare AMPLIFY)
    amplifier = []
    amp = getattr(module, "AMPLIFY", None)
    if tier == "thorough" and amp and not only:
        import subprocess

        procs = []
        for subname, runs, copies in amp:
            for k in range(copies):
                env = dict(os.environ, VERIF_SEED=str(seed * 1009 + k + 1))
                cmd = [sys.executable, "-m", "vf.fuzz", prop, "--sub", subname, "--runs", str(runs)]
                procs.append((subname, k, subprocess.Popen(cmd, cwd=VERIF, env=env, stdout=subprocess.PIPE, stderr=subprocess.DEVNULL, text=True)))
        for subname, k, pr in procs:
            out, _ = pr.communicate()
            rec = {"sub": subname, "copy": k, "exit": pr.returncode}
            for ln in out.splitlines():
                if ln.startswith("AMPLIFIER"):
                    rec["summary"] = ln
                    for tok in ln.split():
                        if tok.startswith("executions="):
                            rec["executions"] = int(tok.split("=")[1])
                        if tok.startswith("distinct_nontrivial="):
                            rec["distinct_nontrivial"] = int(tok.split("=")[1])
                if ln.startswith("VIOLATION") and "replay=" in ln:
                    violations.append((ln.split("replay=")[1].split()[0], ln.split("#")[-1].strip()))
            if pr.returncode not in (0, 1):
                harness_errors.append((f"amplifier:{subname}", f"vf.fuzz exited {pr.returncode}"))
            amplifier.append(rec)

    # 3. evidence
    total = Stats()
    for s in per_sub.values():
        total.merge(s)
    samples = []
    for name, s in per_sub.items():
        for x in s.samples[:2]:
            samples.append({"sub": name, "case": x})
    for name, s in per_sub.items():
        for lab, x in list(s.label_samples.items())[:3]:
            if len(samples) < 14:
                samples.append({"sub": name, "label": lab, "case": x})
    distinct = sum(len(s.nontrivial) for s in per_sub.values())
    meta = module.META
    ev = {
        "property_id": prop,
        "tier": tier,
        "seed": seed,
        "level": meta.get("level", "exploration"),
        "coverage": {
            "evaluations": total.evaluations,
            "distinct_nontrivial": distinct,
            "rule": meta["rule"],
            "samples": samples,
            "exhaustive": bool(subs) and all(s.exhaustive for s in per_sub.values()),
            "regressions_replayed": reg_run,
            "labels": dict(total.labels.most_common()),
            "sizes": total.sizes,
            "known_findings_attributed": dict(total.known),
            "inconclusive": dict(total.inconclusive),
            "inconclusive_samples": total.inconclusive_samples,
            "discarded_at_build": total.discards,
            "wall_budget_hit": total.budget_hit,
            "subchecks": {
                name: {
                    "evaluations": s.evaluations,
                    "steps": s.steps,
                    "distinct_nontrivial": len(s.nontrivial),
                    "labels": dict(s.labels.most_common(25)),
                    "counters": dict(s.counts),
                    "known": dict(s.known),
                    "inconclusive": dict(s.inconclusive),
                    "exhaustive": s.exhaustive,
                    "wall_budget_hit": s.budget_hit,
                }
                for name, s in per_sub.items()
            },
        },
        "assumptions": meta.get("assumptions", []),
        "wall_s": round(time.time() - t0, 2),
        "violations": len(violations),
    }
    if ev["level"] == "translation_validation":
        ev["coverage"]["programs"] = total.counts.get("programs", total.evaluations)
        ev["coverage"]["disagreements_checked"] = total.counts.get("disagreements_checked", 0)
    if amplifier:
        ev["coverage"]["amplifier"] = {
            "tool": "atheris/libFuzzer over hypothesis fuzz_one_input, solvor instrumented for coverage",
            "executions": sum(r.get("executions", 0) for r in amplifier),
            "runs": amplifier,
        }
        ev["coverage"]["evaluations"] += ev["coverage"]["amplifier"]["executions"]
    extra = getattr(module, "evidence_extra", None)
    if extra:
        ev["coverage"].update(extra(total, per_sub))
    if only is None and not os.environ.get("VERIF_NO_EVIDENCE"):
        os.makedirs(os.path.join(VERIF, "evidence"), exist_ok=True)
        with open(os.path.join(VERIF, "evidence", f"{prop}.json"), "w") as f:
            json.dump(ev, f, indent=1, default=_default)

    # 4. report
    for ln in lines:
        print(ln)
    print(
        f"{prop} tier={tier} seed={seed}: {total.evaluations} cases, {distinct} distinct non-trivial, "
        f"{reg_run} regressions, known={dict(total.known)}, inconclusive={dict(total.inconclusive)}, "
        f"{ev['wall_s']}s"
    )
    for name, s in per_sub.items():
        print(f"  {name}: n={s.evaluations} nontrivial={len(s.nontrivial)} labels={dict(s.labels.most_common(8))}" + (" [wall budget hit]" if s.budget_hit else ""))
    if harness_errors:
        shown = set()
        for subname, err in harness_errors:
            if (subname, err[-300:]) in shown:
                continue
            shown.add((subname, err[-300:]))
            print(f"HARNESS-ERROR in {subname}:\n{err[-2500:]}", file=sys.stderr)
        return 2
    if violations:
        for path, bucket in sorted(set(violations)):
            print(f"VIOLATION property={prop} replay={path}   # {bucket}")
        return 1
    return 0
