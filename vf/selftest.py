"""Self-test of the harness oracles: each reference implementation is cross-checked
against a second, differently written one.  Exit 2 on disagreement (harness error)."""
import importlib
import pkgutil
import sys


def main():
    import vf.oracles as pkg

    bad = 0
    for m in pkgutil.iter_modules(pkg.__path__):
        mod = importlib.import_module(f"vf.oracles.{m.name}")
        st = getattr(mod, "selftest", None)
        if st is None:
            continue
        try:
            n = st()
            print(f"selftest {m.name}: ok ({n} cases)")
        except Exception as e:  # noqa: BLE001
            bad += 1
            print(f"selftest {m.name}: FAILED {e!r}", file=sys.stderr)
    return 2 if bad else 0


if __name__ == "__main__":
    sys.exit(main())
