#!/bin/bash
# re-evaluates every kept seeded change against the current checks (sensitivity regression); ~30-60 s each
cd /verif
i=0; for d in seeded/*/; do [[ -n "$FILTER" && ! $(basename $d) =~ $FILTER ]] && continue; i=$((i+1)); [ $(( i % ${NSHARDS:-1} )) -ne ${SHARD:-0} ] && continue; id=$(basename $d); prop=${id%%-*}; extra=""; [ "$prop" = "C12" ] && extra="--rust"
  props=$(python3 -c "import json;print(','.join(json.load(open('$d/meta.json')).get('verified_here',{}).get('checks',{}).keys()) or '$prop')")
  rm -rf /tmp/seedsrc-$id; mkdir -p /tmp/seedsrc-$id; cp $d/patch.diff $d/demo.py $d/meta.json /tmp/seedsrc-$id/
  python3 - <<P
import json; p='/tmp/seedsrc-$id/meta.json'; m=json.load(open(p)); m.pop('verified_here',None); json.dump(m,open(p,'w'),indent=1)
P
  tools/seed_eval.py /tmp/seedsrc-$id $prop $id --props $props $extra --seeds ${SEEDS:-1} 2>&1 | cut -c1-220; rm -rf /tmp/seedsrc-$id
done
