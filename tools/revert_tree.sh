#!/bin/bash
# usage: revert_tree.sh <dir> <commit>...   -> scratch git worktree of /repo HEAD at <dir> with the commits reverted (uncommitted)
# remove with: git -C /repo worktree remove --force <dir>
set -e
d=$1; shift
git -C /repo worktree remove --force "$d" 2>/dev/null || true
rm -rf "$d"
git -C /repo worktree add -q --detach "$d" HEAD
for c in "$@"; do git -C "$d" revert --no-commit "$c" >/dev/null || { echo "CONFLICT reverting $c"; git -C "$d" diff --name-only --diff-filter=U; exit 1; }; done
echo "$d ready (reverted: $*)"
