#!/venv/bin/python
"""Prints the markdown table of seeded changes (seeded/*/meta.json) for DESIGN.md §9."""
import glob, json, os
rows = []
for d in sorted(glob.glob("/verif/seeded/*/")):
    sid = os.path.basename(d.rstrip("/"))
    try:
        m = json.load(open(d + "meta.json"))
    except Exception:
        continue
    v = m.get("verified_here", {})
    ok = v.get("patch_applies") and v.get("demo_clean", {}).get("exit") == 0 and v.get("demo_patched", {}).get("exit") == 1
    checks = v.get("checks", {})
    def one(p, c):
        k = c.get("caught_seeds", "1/1" if c.get("caught") else "0/1")
        hit = not k.startswith("0/")
        return f"{p}: {('caught ' + k + ' seeds ' + ', '.join('`'+b+'`' for b in c['buckets'][:2])) if hit else 'MISSED (' + k + ')'} ({c['wall_s']:.0f} s)"
    res = "; ".join(one(p, c) for p, c in checks.items())
    title = (m.get("title") or "").replace("|", "/")
    needs = (m.get("needs") or "")
    if isinstance(needs, (list, dict)): needs = json.dumps(needs)
    needs = needs.replace("|", "/").replace("\n", " ")
    if len(needs) > 160: needs = needs[:157] + "…"
    rows.append(f"| {sid} | {title} | {needs} | {'yes' if ok else 'NO'} | {res} |")
print("| id | change | needs | confirmed | quick-tier result |")
print("|----|--------|-------|-----------|-------------------|")
print("\n".join(rows))
