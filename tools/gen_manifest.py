#!/venv/bin/python
"""Regenerates /verif/MANIFEST.json from the table below (keeps it valid at all times)."""
import json, os, sys
HERE = os.path.dirname(os.path.dirname(os.path.abspath(__file__)))
ENV = "PYTHONHASHSEED=0 PYTHONPATH=/verif/.deps:/verif"
PY = "/venv/bin/python"

def cmd(pid, tier):
    return f"cd /verif && {ENV} {PY} -m vf.run {pid} --tier {tier}"

# property -> (category, technique, level text, level_note, design_ref)
CHECKS = json.load(open(os.path.join(HERE, "tools", "checks.json")))
NA = json.load(open(os.path.join(HERE, "tools", "not_applicable.json")))
props = [json.loads(l)["id"] for l in open(os.path.join(HERE, "properties.jsonl"))]
checks = []
for pid in props:
    c = CHECKS.get(pid)
    if not c:
        continue
    checks.append({
        "property_id": pid,
        "quick_cmd": cmd(pid, "quick"),
        "thorough_cmd": cmd(pid, "thorough"),
        "evidence_file": f"/verif/evidence/{pid}.json",
        "replay_cmd_template": f"cd /verif && {ENV} {PY} -m vf.run {pid} --replay {{path}}",
        "engine": "vf",
        "level_claimed": {"category": c["category"], "text": c["text"], "design_ref": c.get("design_ref", f"DESIGN.md §4 {pid}")},
        "level_note": c["note"],
        "technique": c["technique"],
    })
claimed = {c["property_id"] for c in checks}
na = [{"property_id": p, "reason": NA.get(p, "check not built yet in this round (see DESIGN.md §7 build order); planned, not claimed")} for p in props if p not in claimed]
m = {
    "version": 1,
    "setup_cmd": f"cd /verif && /venv/bin/pip install -q --no-index --find-links /opt/veriftools/wheels --upgrade --target /verif/.deps hypothesis atheris && {ENV} {PY} -m vf.selftest",
    "hooks": {
        "guard": "SOLVOR_VERIF",
        "enable": "checks import a shadow copy of /repo/solvor (vf/shadow.py) with SOLVOR_VERIF=1 in the environment; the hook in solvor/sat.py is inert unless a sink is registered",
        "baseline_off_cmd": "cd /repo && env -u SOLVOR_VERIF /venv/bin/python -m pytest -ra -q -p no:cacheprovider --timeout=900 --continue-on-collection-errors",
        "source_commits": json.load(open(os.path.join(HERE, "tools", "hook_commits.json"))),
        "add_only": True,
    },
    "engines": [{"name": "vf", "path": "/verif/vf", "serves_properties": sorted(claimed),
                 "kind_free_text": "Hypothesis-driven generated-input search (given / rule-based state machines / exhaustive small-scope enumeration) against independent exact oracles; deterministic per VERIF_SEED; JSON replay files"}],
    "checks": checks,
    "notes": "One technique family: property-based testing and fuzzing. Known findings and repaired defects: /verif/known_findings.txt. Seeded mutants and which check catches which: /verif/seeded and DESIGN.md §8.",
    "not_applicable": na,
}
json.dump(m, open(os.path.join(HERE, "MANIFEST.json"), "w"), indent=1)
try:
    import jsonschema
    jsonschema.validate(m, json.load(open("/root/.vp/MANIFEST.schema.json")))
    print("MANIFEST valid;", len(checks), "checks,", len(na), "not_applicable")
except ImportError:
    print("written (jsonschema not importable here)")
