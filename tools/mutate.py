#!/venv/bin/python
"""Sensitivity helper: apply one textual mutant to a scratch copy of /repo/solvor and run a check on it.

usage: tools/mutate.py Cxx relative/file.py 'old text' 'new text' [--sub NAME] [--count N]
prints: CAUGHT <bucket list> / MISSED, and the wall time. The scratch copy is removed afterwards.
"""
import os, shutil, subprocess, sys, tempfile, time

def main():
    args = sys.argv[1:]
    prop, rel, old, new = args[:4]
    extra = args[4:]
    d = tempfile.mkdtemp(prefix="mut-", dir="/tmp")
    try:
        shutil.copytree("/repo/solvor", os.path.join(d, "solvor"), ignore=shutil.ignore_patterns("__pycache__", "*.so"))
        if os.path.isdir("/repo/rust") and prop == "C12":
            shutil.copytree("/repo/rust", os.path.join(d, "rust"), ignore=shutil.ignore_patterns("target"))
        p = os.path.join(d, rel)
        s = open(p).read()
        if s.count(old) < 1:
            print("MUTANT DOES NOT APPLY"); return 3
        open(p, "w").write(s.replace(old, new, 1))
        env = dict(os.environ, VERIF_REPO=d, PYTHONHASHSEED="0", PYTHONPATH="/verif/.deps:/verif", VERIF_NO_EVIDENCE="1")
        t = time.time()
        r = subprocess.run(["/venv/bin/python", "-m", "vf.run", prop, *extra], cwd="/verif", env=env, capture_output=True, text=True)
        dt = time.time() - t
        v = [l.split("#")[-1].strip() for l in r.stdout.splitlines() if l.startswith("VIOLATION")]
        if r.returncode == 1:
            print(f"CAUGHT in {dt:.1f}s: {sorted(set(v))}")
        elif r.returncode == 0:
            print(f"MISSED ({dt:.1f}s)")
        else:
            print(f"HARNESS ERROR exit={r.returncode}\n{r.stderr[-1500:]}")
        for l in r.stdout.splitlines():
            if l.startswith("VIOLATION") and "replays/" in l:
                f = l.split("replay=")[1].split()[0]
                try: os.remove(os.path.join("/verif", f))
                except OSError: pass
        return 0
    finally:
        shutil.rmtree(d, ignore_errors=True)

sys.exit(main())
