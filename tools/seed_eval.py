#!/venv/bin/python
"""Confirm a seeded change and run the checks against it.

usage: tools/seed_eval.py <src_dir with patch.diff demo.py meta.json> <Cxx> <seed-id> [--tests] [--tier quick|thorough] [--props C01,C02]

Steps (all in a scratch git worktree of /repo HEAD outside /repo and /verif, removed afterwards):
  1. patch applies;  2. demo.py PASSes on the clean tree and FAILs with the patch;
  3. (--tests) tests/solvors pass with the patch;  4. the registered check(s) run with VERIF_REPO=<worktree>.
Result is copied to /verif/seeded/<seed-id>/ with meta.json extended by what was run here.
"""
import json, os, shutil, subprocess, sys, time

def sh(cmd, **kw):
    return subprocess.run(cmd, shell=True, capture_output=True, text=True, **kw)

def main():
    src, prop, sid = sys.argv[1:4]
    opts = sys.argv[4:]
    tier = opts[opts.index("--tier") + 1] if "--tier" in opts else "quick"
    props = opts[opts.index("--props") + 1].split(",") if "--props" in opts else [prop]
    seeds = opts[opts.index("--seeds") + 1].split(",") if "--seeds" in opts else ["1"]
    wt = f"/tmp/seedeval-{sid}"
    sh(f"git -C /repo worktree remove --force {wt}"); shutil.rmtree(wt, ignore_errors=True)
    r = sh(f"git -C /repo worktree add -q --detach {wt} HEAD")
    if r.returncode: print(r.stderr); return 2
    out = {"seed_id": sid, "repo_head": sh("git -C /repo rev-parse --short HEAD").stdout.strip(), "tier": tier}
    try:
        env = dict(os.environ, PYTHONPATH=wt, PYTHONHASHSEED="0")

        def build_ext():
            if "--rust" not in opts:
                return
            for f in os.listdir(os.path.join(wt, "solvor")):
                if f.startswith("_solvor_rust"):
                    os.remove(os.path.join(wt, "solvor", f))
            dest = os.path.join(wt, "solvor", "_solvor_rust.so")
            r = sh(f"/venv/bin/python -c \"from vf import shadow; import shutil; shutil.copy(shadow.build_rust(), '{dest}')\"", cwd="/verif", env=dict(os.environ, VERIF_REPO=wt, PYTHONPATH="/verif/.deps:/verif"))
            if r.returncode:
                print("rust build failed", r.stderr[-300:])

        build_ext()
        d0 = sh(f"/venv/bin/python {src}/demo.py", cwd=wt, env=env)
        out["demo_clean"] = {"exit": d0.returncode, "tail": d0.stdout.strip()[-200:]}
        a = sh(f"git -C {wt} apply {os.path.abspath(src)}/patch.diff")
        out["patch_applies"] = a.returncode == 0
        if a.returncode:
            print("PATCH DOES NOT APPLY", a.stderr[-500:]); out["error"] = a.stderr[-500:]
        else:
            build_ext()
            d1 = sh(f"/venv/bin/python {src}/demo.py", cwd=wt, env=env)
            out["demo_patched"] = {"exit": d1.returncode, "tail": d1.stdout.strip()[-200:]}
            imp = sh("/venv/bin/python -c 'import solvor'", cwd=wt, env=env)
            out["imports"] = imp.returncode == 0
            if "--tests" in opts:
                t = sh("/venv/bin/python -m pytest -q -p no:cacheprovider --no-cov tests/solvors -x -q 2>&1 | tail -3", cwd=wt, env=env)
                out["tests_solvors"] = t.stdout.strip()[-300:]
            out["checks"] = {}
            for p in props:
                rec = {"seeds": {}, "buckets": [], "wall_s": 0.0}
                for sd in seeds:
                    env2 = dict(os.environ, VERIF_REPO=wt, PYTHONHASHSEED="0", PYTHONPATH="/verif/.deps:/verif", VERIF_NO_EVIDENCE="1", VERIF_SEED=sd)
                    t0 = time.time()
                    c = sh(f"/venv/bin/python -m vf.run {p} --tier {tier}", cwd="/verif", env=env2)
                    buckets = sorted({l.split("#")[-1].strip() for l in c.stdout.splitlines() if l.startswith("VIOLATION")})
                    rec["seeds"][sd] = c.returncode
                    rec["buckets"] = sorted(set(rec["buckets"]) | set(buckets))
                    rec["wall_s"] = round(max(rec["wall_s"], time.time() - t0), 1)
                    if c.returncode not in (0, 1):
                        rec["stderr"] = c.stderr[-800:]
                    for l in c.stdout.splitlines():
                        if l.startswith("VIOLATION") and "replay=replays/" in l:
                            f = l.split("replay=")[1].split()[0]
                            try: os.remove(os.path.join("/verif", f))
                            except OSError: pass
                rec["exit"] = 1 if any(v == 1 for v in rec["seeds"].values()) else max(rec["seeds"].values())
                rec["caught"] = all(v == 1 for v in rec["seeds"].values())
                rec["caught_seeds"] = f"{sum(1 for v in rec['seeds'].values() if v == 1)}/{len(seeds)}"
                out["checks"][p] = rec
        dst = f"/verif/seeded/{sid}"
        os.makedirs(dst, exist_ok=True)
        for f in ("patch.diff", "demo.py", "fuzz.py"):
            if os.path.exists(os.path.join(src, f)) and os.path.abspath(os.path.join(src, f)) != os.path.abspath(os.path.join(dst, f)):
                shutil.copy(os.path.join(src, f), dst)
        meta = {}
        try: meta = json.load(open(os.path.join(src, "meta.json")))
        except Exception as e: meta = {"note": f"agent meta.json unreadable: {e}"}
        meta["verified_here"] = out
        json.dump(meta, open(os.path.join(dst, "meta.json"), "w"), indent=1)
        ok = out.get("patch_applies") and out["demo_clean"]["exit"] == 0 and out.get("demo_patched", {}).get("exit") == 1
        print(sid, "CONFIRMED" if ok else "NOT-CONFIRMED", {p: (v["caught_seeds"], v["buckets"][:3], v["wall_s"]) for p, v in out.get("checks", {}).items()}, out.get("tests_solvors", ""))
    finally:
        sh(f"git -C /repo worktree remove --force {wt}"); shutil.rmtree(wt, ignore_errors=True)

sys.exit(main())
