#!/bin/bash
# usage: tools/run_all.sh [tier] [seed...]   runs every registered check; prints exit code and wall time per check
tier=${1:-quick}; shift; seeds=${@:-1}
cd /verif
export PYTHONHASHSEED=0 PYTHONPATH=/verif/.deps:/verif
props=$(python3 -c "import json;print(' '.join(c['property_id'] for c in json.load(open('MANIFEST.json'))['checks']))")
for s in $seeds; do for p in $props; do
  t0=$(date +%s); out=$(VERIF_SEED=$s /venv/bin/python -m vf.run $p --tier $tier 2>&1); rc=$?; t1=$(date +%s)
  echo "seed=$s $p exit=$rc $((t1-t0))s $(echo "$out" | grep -c '^VIOLATION') violations $(echo "$out" | grep -c '^KNOWN-FINDING') known  | $(echo "$out" | grep "tier=$tier" | sed 's/.*: //' | cut -c1-110)"
  [ $rc -ne 0 ] && echo "$out" | grep -E "VIOLATION|HARNESS" | head -5
done; done
