#!/venv/bin/python
"""Regenerates the 'as built' table in DESIGN.md (§8.5) from evidence/*.json (quick tier, seed 1)."""
import json, glob, os, re
rows = []
for f in sorted(glob.glob("/verif/evidence/C*.json")):
    e = json.load(open(f)); c = e["coverage"]
    subs = "; ".join(f"{k} ({v['evaluations']}{', exhaustive' if v.get('exhaustive') else ''})" for k, v in c.get("subchecks", {}).items())
    extra = []
    if c.get("known_findings_attributed"): extra.append("known: " + ", ".join(f"{k}×{v}" for k, v in c["known_findings_attributed"].items()))
    if c.get("inconclusive"): extra.append("inconclusive: " + ", ".join(f"{k}×{v}" for k, v in list(c["inconclusive"].items())[:3]))
    rows.append(f"| {e['property_id']} | {e['level']} | {c['evaluations']} | {c['distinct_nontrivial']} | {c.get('regressions_replayed', 0)} | {e['wall_s']:.0f} | {subs} | {'; '.join(extra)} |")
t = "| prop | level | cases | distinct non-trivial | regressions replayed | wall s | sub-checks (cases) | notes |\n|---|---|---|---|---|---|---|---|\n" + "\n".join(rows) + "\n"
p = "/verif/DESIGN.md"; s = open(p).read()
s = re.sub(r"<!-- ASBUILT-BEGIN -->.*<!-- ASBUILT-END -->", lambda m: "<!-- ASBUILT-BEGIN -->\n" + t + "<!-- ASBUILT-END -->", s, flags=re.S)
open(p, "w").write(s)
print(len(rows), "rows")
