#!/venv/bin/python
import re, subprocess
t = subprocess.run(["/verif/tools/seeded_table.py"], capture_output=True, text=True).stdout
p = "/verif/DESIGN.md"; s = open(p).read()
s = re.sub(r"<!-- SEEDED-TABLE-BEGIN -->.*<!-- SEEDED-TABLE-END -->", lambda m: "<!-- SEEDED-TABLE-BEGIN -->\n" + t + "<!-- SEEDED-TABLE-END -->", s, flags=re.S)
open(p, "w").write(s)
